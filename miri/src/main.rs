//! The unmerged interner histories of C18, executed under Miri (`cargo +nightly miri run -- <depth>`): the enumeration
//! and the invariants are the ones of harness/src/interner_model.rs; Miri adds detection of undefined behaviour
//! (use after free, double free, leaks) that happens not to change an observable.

#[path = "../../harness/src/interner_model.rs"]
mod interner_model;

fn main() {
	let depth: usize = std::env::args().nth(1).and_then(|a| a.parse().ok()).unwrap_or(2);
	// shard i of n: histories whose index is i modulo n
	let shard: u64 = std::env::args().nth(2).and_then(|a| a.parse().ok()).unwrap_or(0);
	let nshards: u64 = std::env::args().nth(3).and_then(|a| a.parse().ok()).unwrap_or(1);
	let mut bad = 0u64;
	let mut mine = 0u64;
	let total = interner_model::for_each_history(depth, |idx, h| {
		if idx % nshards != shard {
			return;
		}
		mine += 1;
		// a fresh thread per history: empty pool
		let h2 = h.to_vec();
		let r = std::thread::spawn(move || interner_model::run_history(&h2)).join();
		match r {
			Ok(Ok(_)) => {}
			Ok(Err((step, msg))) => {
				bad += 1;
				println!("VIOLATION-DETAIL history #{idx} {h:?}: step {}: {msg}", step + 1);
			}
			Err(_) => {
				bad += 1;
				println!("VIOLATION-DETAIL history #{idx} {h:?}: panic");
			}
		}
	});
	println!("miri-interner: shard={shard}/{nshards} histories={mine} of {total} depth={depth} violations={bad}");
	if bad > 0 {
		std::process::exit(1);
	}
}
