#!/usr/bin/env python3
"""make_meta.py: (re)writes seeded/<id>/meta.json from the stored artefacts of each seeded change."""
import json, os, re, glob
root = os.path.join(os.path.dirname(os.path.abspath(__file__)), '..', 'seeded')
for d in sorted(glob.glob(os.path.join(root, '*'))):
    name = os.path.basename(d)
    prop = name.split('-')[0]
    readme = open(os.path.join(d, 'DEMO', 'README.md'), errors='replace').read() if os.path.exists(os.path.join(d, 'DEMO', 'README.md')) else ''
    title = readme.split('\n', 1)[0].lstrip('# ').strip()
    # the section that says what is needed for the defect to show
    needs = ''
    m = re.search(r'^#+\s*(What it needs[^\n]*|What is needed[^\n]*|Trigger[^\n]*|What .*manifest[^\n]*|When it (shows|manifests)[^\n]*|Conditions[^\n]*)\n(.*?)(?=^#+\s|\Z)', readme, re.S | re.M | re.I)
    if m:
        needs = re.sub(r'\s+', ' ', m.group(m.lastindex)).strip()[:1200]
    if not needs and name == 'C11-a':
        needs = "std.findSubstr with a pattern that overlaps itself in the subject (e.g. 'aa' in 'aaaa', 'aba' in 'ababa'): matches that start inside the previous match are dropped; non-overlapping occurrences, patterns of length 1 and multi-byte subjects without overlap behave as before"
    patch = open(os.path.join(d, 'patch.diff'), errors='replace').read()
    files = sorted(set(re.findall(r'^\+\+\+ b/(\S+)', patch, re.M)))
    confirm = open(os.path.join(d, 'confirm.txt')).read().strip() if os.path.exists(os.path.join(d, 'confirm.txt')) else ''
    mt = re.search(r'tests: (\d+) passed (\d+) failed', confirm)
    md = re.search(r'demo exit with change=(\d+) without=(\d+)', confirm)
    detected = {}
    for log in sorted(glob.glob(os.path.join(d, 'check_*.log'))):
        c = os.path.basename(log)[6:-4]
        text = open(log, errors='replace').read()
        viol = [l for l in text.split('\n') if l.startswith('VIOLATION')]
        cls = re.search(r'^  class: (.*)$', text, re.M)
        detected[c] = {"reported": bool(viol), "violation_lines": len(viol), "first_class": cls.group(1)[:200] if cls else None}
    meta = {
        "id": name,
        "property": prop,
        "title": title,
        "files_changed": files,
        "needs_to_manifest": needs or "see DEMO/README.md",
        "origin": "written by a fresh sub-agent that was given only the text of the property and its own scratch worktree of /repo (nothing from /verif)",
        "what_i_ran": {
            "confirmation": "tools/confirm_seed.sh <worktree> seeded/%s: repository test suite with the change applied, then DEMO/run.sh with the change and with the change reverted (git apply -R)" % name,
            "tests_with_change": {"passed": int(mt.group(1)), "failed": int(mt.group(2)), "note": "the one failure is cpp_test_suite, which also fails on the unchanged tree (corpus not vendored)"} if mt else None,
            "demo_exit_with_change": int(md.group(1)) if md else None,
            "demo_exit_without_change": int(md.group(2)) if md else None,
            "checks": "tools/run_seed.sh seeded/%s <checks>: git -C /repo apply patch.diff; ./check <id> quick; git -C /repo checkout -- ." % name,
        },
        "quick_checks_run_against_it": detected,
        "detected_by": sorted(c for c, v in detected.items() if v["reported"]),
    }
    json.dump(meta, open(os.path.join(d, 'meta.json'), 'w'), indent=1, ensure_ascii=False)
    open(os.path.join(d, 'meta.json'), 'a').write('\n')
    print(name, meta["detected_by"], 'needs:', (needs[:70] + '...') if needs else 'README')
