#!/usr/bin/env python3
"""kf_from_log.py <property> <check log>: draft known-finding lines (class + shortest witness) from a check log."""
import re, sys
prop, path = sys.argv[1], sys.argv[2]
lines = open(path, errors='replace').read().split('\n')
i = 0
while i < len(lines):
    m = re.match(r'^  class: (.*) \(x\d+\)$', lines[i])
    if m:
        cls = m.group(1)
        w = []
        j = i + 1
        if j < len(lines) and lines[j].startswith('  witness: '):
            w.append(lines[j][len('  witness: '):])
            j += 1
            while j < len(lines) and not lines[j].startswith('  detail:'):
                w.append(lines[j]); j += 1
        wit = '\\n'.join(w)
        if len(wit) > 110: wit = wit[:110] + '...'
        print(f'finding: property={prop} class={cls} :: e.g. `{wit}`')
        i = j
    else:
        i += 1
