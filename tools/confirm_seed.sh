#!/bin/bash
# confirm_seed.sh <worktree> <dest>  : confirm a seeded change (tests still pass, demo fails with it and passes without it), then store it
wt=$1; dest=$2
mkdir -p "$dest"
cd "$wt" || exit 2
git diff > "$dest/patch.diff"
[ -s "$dest/patch.diff" ] || { echo "NO DIFF"; exit 2; }
rm -rf "$dest/DEMO"; cp -r DEMO "$dest/DEMO" 2>/dev/null
export CARGO_NET_OFFLINE=true
cargo test --workspace --no-fail-fast --offline > "$dest/tests_with_change.log" 2>&1
passed=$(grep -E "^test result" "$dest/tests_with_change.log" | awk '{p+=$4; f+=$6} END {print p" passed "f" failed"}')
failed_names=$(grep -E "^test .* FAILED" "$dest/tests_with_change.log" | tr '\n' ' ')
bash DEMO/run.sh > "$dest/demo_with_change.log" 2>&1; with=$?
# (git stash is shared between worktrees: revert/apply the patch file instead)
git apply -R "$dest/patch.diff"
bash DEMO/run.sh > "$dest/demo_without_change.log" 2>&1; without=$?
git apply "$dest/patch.diff"
echo "tests: $passed ; failing: $failed_names ; demo exit with change=$with without=$without" | tee "$dest/confirm.txt"
