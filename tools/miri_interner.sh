#!/bin/bash
# miri_interner.sh <depth> <shards>: the unmerged C18 interner histories up to <depth> under Miri, in <shards> parallel
# processes. Prints a summary line; exit 1 + VIOLATION line when Miri reports undefined behaviour / a leak or an
# invariant breaks, exit 2 when Miri itself cannot run. Patches the Miri coverage into evidence/C18.json.
VERIF="$(cd "$(dirname "$0")/.." && pwd)"
depth=${1:-3}; n=${2:-16}
out="$VERIF/target/miri-out"; rm -rf "$out"; mkdir -p "$out"
cd "$VERIF/miri" || exit 2
cp /repo/Cargo.lock . 2>/dev/null
export CARGO_NET_OFFLINE=true MIRIFLAGS="-Zmiri-disable-isolation"
cargo +nightly miri run -- 0 0 1 > "$out/build.log" 2>&1 || { echo "MACHINERY-ERROR: miri runner does not build/run, see $out/build.log"; tail -20 "$out/build.log"; exit 2; }
pids=()
for i in $(seq 0 $((n-1))); do
	( cargo +nightly miri run -- "$depth" "$i" "$n" > "$out/shard-$i.log" 2>&1; echo $? > "$out/shard-$i.rc" ) &
	pids+=($!)
done
wait
bad=0; hist=0
for i in $(seq 0 $((n-1))); do
	rc=$(cat "$out/shard-$i.rc")
	h=$(grep -o 'histories=[0-9]*' "$out/shard-$i.log" | head -1 | cut -d= -f2)
	hist=$((hist + ${h:-0}))
	if [ "$rc" != "0" ]; then bad=$((bad+1)); first=${first:-$out/shard-$i.log}; fi
done
python3 - "$VERIF/evidence/C18.json" "$hist" "$depth" "$bad" <<'PY'
import json,sys
p,hist,depth,bad=sys.argv[1],int(sys.argv[2]),int(sys.argv[3]),int(sys.argv[4])
try:
    e=json.load(open(p))
    e['coverage'].setdefault('counters',{})['interner histories executed under Miri (UB and leak detection on)']=hist
    e['coverage'].setdefault('notes',[]).append(f"Miri: every interner history of length <= {depth} ({hist} histories) executed under cargo miri with leak detection; shards with errors: {bad}")
    json.dump(e,open(p,'w'),indent=2); open(p,'a').write('\n')
except Exception as ex:
    print('could not patch evidence:',ex)
PY
echo "miri-interner: depth=$depth histories=$hist shards_with_errors=$bad"
if [ "$bad" != "0" ]; then
	mkdir -p "$VERIF/replays"; cp "$first" "$VERIF/replays/C18-miri.log"
	grep -m3 -E "Undefined Behavior|memory leaked|VIOLATION-DETAIL|error:" "$first"
	echo "VIOLATION property=C18 replay=$VERIF/replays/C18-miri.log"
	exit 1
fi
exit 0
