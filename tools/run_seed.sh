#!/bin/bash
# run_seed.sh <seed-dir> <check-id>...   apply the seeded change to /repo, run the quick checks, revert.
# prints one line per check: <seed> <check> exit=<code> (1 = violation reported = detected)
seed=$1; shift
cd /verif || exit 2
git -C /repo diff --quiet || { echo "refusing: /repo has uncommitted changes"; exit 2; }
git -C /repo apply --check "$seed/patch.diff" || { echo "patch does not apply: $seed"; exit 2; }
git -C /repo apply "$seed/patch.diff"
for c in "$@"; do
	./check "$c" quick > "$seed/check_$c.log" 2>&1
	code=$?
	echo "$(basename "$seed") $c exit=$code $(grep -c '^VIOLATION' "$seed/check_$c.log") violation lines; $(grep -m1 'class:' "$seed/check_$c.log" | cut -c1-160)"
done
git -C /repo checkout -- .
