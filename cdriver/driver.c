/* C driver for C15: executes one configuration through the libjsonnet C interface of /repo's bindings and prints
 *   ERROR=<flag>
 *   then the result: the text (plain), or one "ITEM <name>\n<text>\n" per entry (multi), or one "DOC\n<text>\n" per
 *   document (stream), decoding the NUL-separated, double-NUL-terminated framing.
 *
 * usage: driver [settings...] <mode> <args>
 *   settings: --ext-var K V | --ext-code K V | --tla-var K V | --tla-code K V | --jpath P | --max-stack N
 *             | --string-output | --import-callback DIR | --native
 *   mode:     file PATH | snippet NAME CODE | file-multi PATH | snippet-multi NAME CODE | file-stream PATH
 *             | snippet-stream NAME CODE
 * The two _jrsonnet_static_* symbols are what the default feature set (interop-wasm) of the library imports. */
#include <stdio.h>
#include <stdlib.h>
#include <string.h>

struct JsonnetVm;
struct JsonnetJsonValue;
typedef int JsonnetImportCallback(void *ctx, const char *base, const char *rel, char **found_here, char **buf, size_t *buflen);
typedef struct JsonnetJsonValue *JsonnetNativeCallback(void *ctx, const struct JsonnetJsonValue *const *argv, int *success);

struct JsonnetVm *jsonnet_make(void);
void jsonnet_destroy(struct JsonnetVm *vm);
void jsonnet_max_stack(struct JsonnetVm *vm, unsigned v);
void jsonnet_string_output(struct JsonnetVm *vm, int v);
char *jsonnet_realloc(struct JsonnetVm *vm, char *buf, size_t sz);
void jsonnet_ext_var(struct JsonnetVm *vm, const char *key, const char *val);
void jsonnet_ext_code(struct JsonnetVm *vm, const char *key, const char *val);
void jsonnet_tla_var(struct JsonnetVm *vm, const char *key, const char *val);
void jsonnet_tla_code(struct JsonnetVm *vm, const char *key, const char *val);
void jsonnet_jpath_add(struct JsonnetVm *vm, const char *v);
void jsonnet_import_callback(struct JsonnetVm *vm, JsonnetImportCallback *cb, void *ctx);
void jsonnet_native_callback(struct JsonnetVm *vm, const char *name, JsonnetNativeCallback *cb, void *ctx, const char *const *params);
char *jsonnet_evaluate_file(struct JsonnetVm *vm, const char *filename, int *error);
char *jsonnet_evaluate_snippet(struct JsonnetVm *vm, const char *filename, const char *snippet, int *error);
char *jsonnet_evaluate_file_multi(struct JsonnetVm *vm, const char *filename, int *error);
char *jsonnet_evaluate_snippet_multi(struct JsonnetVm *vm, const char *filename, const char *snippet, int *error);
char *jsonnet_evaluate_file_stream(struct JsonnetVm *vm, const char *filename, int *error);
char *jsonnet_evaluate_snippet_stream(struct JsonnetVm *vm, const char *filename, const char *snippet, int *error);
const char *jsonnet_json_extract_string(struct JsonnetVm *vm, const struct JsonnetJsonValue *v);
int jsonnet_json_extract_number(struct JsonnetVm *vm, const struct JsonnetJsonValue *v, double *out);
struct JsonnetJsonValue *jsonnet_json_make_string(struct JsonnetVm *vm, const char *v);
struct JsonnetJsonValue *jsonnet_json_make_number(struct JsonnetVm *vm, double v);

/* symbols imported by the library's interop-wasm feature; never called by this driver */
int _jrsonnet_static_import_callback(void *ctx, const char *base, const char *rel, char **found_here, char **buf, size_t *buflen) {
	(void)ctx; (void)base; (void)rel; (void)found_here; (void)buf; (void)buflen;
	return 0;
}
struct JsonnetJsonValue *_jrsonnet_static_native_callback(void *ctx, const struct JsonnetJsonValue *const *argv, int *success) {
	(void)ctx; (void)argv; (void)success;
	return NULL;
}

static struct JsonnetVm *vm;

/* import callback: serves <dir>/<rel> whatever the importing file is; the file's name is reported as found_here */
static int import_cb(void *ctx, const char *base, const char *rel, char **found_here, char **buf, size_t *buflen) {
	const char *dir = ctx;
	(void)base;
	char path[4096];
	/* the evaluated file itself is requested by its (absolute) name */
	if (rel[0] == '/') snprintf(path, sizeof path, "%s", rel);
	else snprintf(path, sizeof path, "%s/%s", dir, rel);
	FILE *f = fopen(path, "rb");
	if (!f) {
		const char *msg = "callback: no such file";
		*buflen = strlen(msg);
		*buf = jsonnet_realloc(vm, NULL, *buflen);
		memcpy(*buf, msg, *buflen);
		return 0; /* failure, as the binding defines it */
	}
	fseek(f, 0, SEEK_END);
	long n = ftell(f);
	fseek(f, 0, SEEK_SET);
	*buf = jsonnet_realloc(vm, NULL, n > 0 ? (size_t)n : 1);
	*buflen = (size_t)n;
	if (n > 0 && fread(*buf, 1, (size_t)n, f) != (size_t)n) { fclose(f); return 0; }
	fclose(f);
	size_t l = strlen(path) + 1;
	*found_here = jsonnet_realloc(vm, NULL, l);
	memcpy(*found_here, path, l);
	return 1;
}

/* native callbacks: nadd(a, b) = a + b on numbers (failure otherwise), ncat(a, b) = a ++ "-" ++ b on strings */
static struct JsonnetJsonValue *nadd(void *ctx, const struct JsonnetJsonValue *const *argv, int *success) {
	(void)ctx;
	double a, b;
	if (!jsonnet_json_extract_number(vm, argv[0], &a) || !jsonnet_json_extract_number(vm, argv[1], &b)) {
		*success = 0;
		return jsonnet_json_make_string(vm, "nadd: numbers expected");
	}
	*success = 1;
	return jsonnet_json_make_number(vm, a + b);
}
static struct JsonnetJsonValue *ncat(void *ctx, const struct JsonnetJsonValue *const *argv, int *success) {
	(void)ctx;
	const char *a = jsonnet_json_extract_string(vm, argv[0]);
	const char *b = jsonnet_json_extract_string(vm, argv[1]);
	if (!a || !b) {
		*success = 0;
		return jsonnet_json_make_string(vm, "ncat: strings expected");
	}
	char out[4096];
	snprintf(out, sizeof out, "%s-%s", a, b);
	*success = 1;
	return jsonnet_json_make_string(vm, out);
}

static void print_framed(const char *res, const char *label, int pairs) {
	/* entries separated by NUL, list terminated by an empty entry (double NUL) */
	const char *p = res;
	while (*p) {
		if (pairs) {
			const char *name = p;
			p += strlen(p) + 1;
			printf("%s %s\n%s\n", label, name, p);
		} else {
			printf("%s\n%s\n", label, p);
		}
		p += strlen(p) + 1;
	}
}

int main(int argc, char **argv) {
	vm = jsonnet_make();
	int i = 1;
	for (; i < argc; i++) {
		if (!strcmp(argv[i], "--ext-var") && i + 2 < argc) { jsonnet_ext_var(vm, argv[i + 1], argv[i + 2]); i += 2; }
		else if (!strcmp(argv[i], "--ext-code") && i + 2 < argc) { jsonnet_ext_code(vm, argv[i + 1], argv[i + 2]); i += 2; }
		else if (!strcmp(argv[i], "--tla-var") && i + 2 < argc) { jsonnet_tla_var(vm, argv[i + 1], argv[i + 2]); i += 2; }
		else if (!strcmp(argv[i], "--tla-code") && i + 2 < argc) { jsonnet_tla_code(vm, argv[i + 1], argv[i + 2]); i += 2; }
		else if (!strcmp(argv[i], "--jpath") && i + 1 < argc) { jsonnet_jpath_add(vm, argv[i + 1]); i += 1; }
		else if (!strcmp(argv[i], "--max-stack") && i + 1 < argc) { jsonnet_max_stack(vm, (unsigned)atoi(argv[i + 1])); i += 1; }
		else if (!strcmp(argv[i], "--string-output")) { jsonnet_string_output(vm, 1); }
		else if (!strcmp(argv[i], "--import-callback") && i + 1 < argc) { jsonnet_import_callback(vm, import_cb, argv[i + 1]); i += 1; }
		else if (!strcmp(argv[i], "--native")) {
			static const char *const params[] = {"a", "b", NULL};
			jsonnet_native_callback(vm, "nadd", nadd, NULL, params);
			jsonnet_native_callback(vm, "ncat", ncat, NULL, params);
		}
		else break;
	}
	if (i >= argc) { fprintf(stderr, "driver: no mode\n"); return 2; }
	const char *mode = argv[i];
	int error = -1;
	char *res = NULL;
	int framed = 0;
	if (!strcmp(mode, "file") && i + 1 < argc) res = jsonnet_evaluate_file(vm, argv[i + 1], &error);
	else if (!strcmp(mode, "snippet") && i + 2 < argc) res = jsonnet_evaluate_snippet(vm, argv[i + 1], argv[i + 2], &error);
	else if (!strcmp(mode, "file-multi") && i + 1 < argc) { res = jsonnet_evaluate_file_multi(vm, argv[i + 1], &error); framed = 1; }
	else if (!strcmp(mode, "snippet-multi") && i + 2 < argc) { res = jsonnet_evaluate_snippet_multi(vm, argv[i + 1], argv[i + 2], &error); framed = 1; }
	else if (!strcmp(mode, "file-stream") && i + 1 < argc) { res = jsonnet_evaluate_file_stream(vm, argv[i + 1], &error); framed = 2; }
	else if (!strcmp(mode, "snippet-stream") && i + 2 < argc) { res = jsonnet_evaluate_snippet_stream(vm, argv[i + 1], argv[i + 2], &error); framed = 2; }
	else { fprintf(stderr, "driver: bad mode\n"); return 2; }
	printf("ERROR=%d\n", error);
	if (!res) { printf("NULL\n"); return 0; }
	if (error || !framed) printf("%s", res);
	else if (framed == 1) print_framed(res, "ITEM", 1);
	else print_framed(res, "DOC", 0);
	fflush(stdout);
	return 0;
}
