#!/bin/sh
# Repository's own test suite with the verification guard OFF (no --cfg jrsonnet_verif)
cd /repo && RUSTFLAGS="" CARGO_NET_OFFLINE=true cargo test --workspace --no-fail-fast --offline
