//! E1 generators of harness ASTs: the whole-grammar generator (every construct is a non-default
//! choice, so the deviation bound k = number of non-literal constructs) and helpers shared by checks.

use crate::{
	ast::*,
	enumr::Chooser,
};

#[derive(Clone, Copy)]
pub struct GenCfg {
	/// include constructs that are only meaningful for parsing/formatting (imports, tailstrict, text forms)
	pub syntax_only: bool,
	/// include objects (self/super/$, inheritance)
	pub objects: bool,
}

#[derive(Clone, Default)]
pub struct Scope {
	pub vars: Vec<String>,
	pub fns: Vec<String>,
	pub in_obj: bool,
	pub in_ext: bool,
}
impl Scope {
	fn with_var(&self, v: &str) -> Scope {
		let mut s = self.clone();
		if !s.vars.iter().any(|x| x == v) {
			s.vars.push(v.to_owned());
		}
		s.fns.retain(|f| f != v);
		s
	}
	fn with_fn(&self, v: &str) -> Scope {
		let mut s = self.clone();
		if !s.fns.iter().any(|x| x == v) {
			s.fns.push(v.to_owned());
		}
		s.vars.retain(|f| f != v);
		s
	}
	fn obj(&self, ext: bool) -> Scope {
		let mut s = self.clone();
		s.in_obj = true;
		s.in_ext = ext;
		s
	}
	/// name for a new binding: shadow `x` by default, `y` as a deviation
	fn bind_name(&self, c: &mut Chooser) -> String {
		if c.choose(2) == 0 {
			"x".into()
		} else {
			"y".into()
		}
	}
}

#[derive(Clone, Copy, Debug)]
enum Alt {
	One,
	Var(usize),
	Str,
	Null,
	True,
	SelfA,
	DollarA,
	SuperA,
	InSuper,
	Un(UnOp),
	Bin(BinOp),
	If,
	IfNoElse,
	Local,
	LocalFn,
	LocalTwo,
	FnApplied,
	FnValue,
	CallFn(usize),
	CallNamed(usize),
	Arr0,
	Arr1,
	Arr2,
	ArrComp,
	ArrCompIf,
	Obj0,
	ObjField(Vis, bool),
	ObjTwo,
	ObjDyn,
	ObjLocal,
	ObjAssert,
	ObjMethod,
	ObjComp,
	ObjExt,
	ObjAdd,
	Index,
	Dot,
	Slice(u8),
	Error,
	Assert,
	AssertMsg,
	// syntax only
	Tailstrict,
	Import(ImportKind),
	Paren2,
}

fn menu(sc: &Scope, cfg: GenCfg) -> Vec<Alt> {
	let mut m = vec![Alt::One];
	for i in 0..sc.vars.len() {
		m.push(Alt::Var(i));
	}
	m.extend([Alt::Str, Alt::Null, Alt::True]);
	if sc.in_obj && cfg.objects {
		m.extend([Alt::SelfA, Alt::DollarA]);
		if sc.in_ext {
			m.extend([Alt::SuperA, Alt::InSuper]);
		}
	}
	for op in UnOp::ALL {
		m.push(Alt::Un(op));
	}
	for op in BinOp::ALL {
		m.push(Alt::Bin(op));
	}
	m.extend([Alt::If, Alt::IfNoElse, Alt::Local, Alt::LocalFn, Alt::LocalTwo, Alt::FnApplied, Alt::FnValue]);
	for i in 0..sc.fns.len() {
		m.push(Alt::CallFn(i));
		m.push(Alt::CallNamed(i));
	}
	m.extend([Alt::Arr0, Alt::Arr1, Alt::Arr2, Alt::ArrComp, Alt::ArrCompIf]);
	if cfg.objects {
		m.push(Alt::Obj0);
		for v in [Vis::Normal, Vis::Hidden, Vis::Unhide] {
			m.push(Alt::ObjField(v, false));
		}
		m.push(Alt::ObjField(Vis::Normal, true));
		m.extend([Alt::ObjTwo, Alt::ObjDyn, Alt::ObjLocal, Alt::ObjAssert, Alt::ObjMethod, Alt::ObjComp, Alt::ObjExt, Alt::ObjAdd]);
	}
	m.extend([Alt::Index, Alt::Dot, Alt::Slice(0), Alt::Slice(1), Alt::Slice(2), Alt::Slice(3), Alt::Error, Alt::Assert, Alt::AssertMsg]);
	if cfg.syntax_only {
		m.extend([Alt::Tailstrict, Alt::Import(ImportKind::Code), Alt::Import(ImportKind::Str), Alt::Import(ImportKind::Bin)]);
	}
	m
}

pub fn gen_expr(c: &mut Chooser, sc: &Scope, cfg: GenCfg) -> Ex {
	let m = menu(sc, cfg);
	let a = m[c.choose(m.len() as u32) as usize];
	let g = |c: &mut Chooser, sc: &Scope| gen_expr(c, sc, cfg);
	match a {
		Alt::One => Ex::Num(1.0),
		Alt::Var(i) => Ex::Var(sc.vars[i].clone()),
		Alt::Str => s("s"),
		Alt::Null => Ex::Null,
		Alt::True => Ex::True,
		Alt::SelfA => dot(Ex::SelfE, "a"),
		Alt::DollarA => dot(Ex::Dollar, "a"),
		Alt::SuperA => dot(Ex::Super, "a"),
		Alt::InSuper => bin(s("a"), BinOp::In, Ex::Super),
		Alt::Un(op) => un(op, g(c, sc)),
		Alt::Bin(op) => {
			let l = g(c, sc);
			let r = g(c, sc);
			bin(l, op, r)
		}
		Alt::If => {
			let cnd = g(c, sc);
			let t = g(c, sc);
			let e = g(c, sc);
			ife(cnd, t, e)
		}
		Alt::IfNoElse => {
			let cnd = g(c, sc);
			let t = g(c, sc);
			Ex::If(Box::new(cnd), Box::new(t), None)
		}
		Alt::Local => {
			let n = sc.bind_name(c);
			let inner = sc.with_var(&n);
			// recursive let: the bound expression sees the binding
			let v = g(c, &inner);
			let b = g(c, &inner);
			local1(&n, v, b)
		}
		Alt::LocalTwo => {
			let inner = sc.with_var("x").with_var("y");
			let v1 = g(c, &inner);
			let v2 = g(c, &inner);
			let b = g(c, &inner);
			Ex::Local(vec![Bind::Val("x".into(), v1), Bind::Val("y".into(), v2)], Box::new(b))
		}
		Alt::LocalFn => {
			let inner = sc.with_fn("f");
			let body_sc = inner.with_var("p");
			let fb = g(c, &body_sc);
			let b = g(c, &inner);
			Ex::Local(vec![Bind::Func("f".into(), vec![Param { name: "p".into(), default: None }], fb)], Box::new(b))
		}
		Alt::FnApplied => {
			let n = sc.bind_name(c);
			let body = g(c, &sc.with_var(&n));
			let arg = g(c, sc);
			call(func(&[&n], body), vec![arg])
		}
		Alt::FnValue => {
			let n = sc.bind_name(c);
			let body = g(c, &sc.with_var(&n));
			func(&[&n], body)
		}
		Alt::CallFn(i) => {
			let arg = g(c, sc);
			call(var(&sc.fns[i]), vec![arg])
		}
		Alt::CallNamed(i) => {
			let arg = g(c, sc);
			Ex::Apply(Box::new(var(&sc.fns[i])), vec![], vec![("p".into(), arg)], false)
		}
		Alt::Arr0 => Ex::Arr(vec![]),
		Alt::Arr1 => Ex::Arr(vec![g(c, sc)]),
		Alt::Arr2 => {
			let a = g(c, sc);
			let b = g(c, sc);
			Ex::Arr(vec![a, b])
		}
		Alt::ArrComp => {
			let n = sc.bind_name(c);
			let over = g(c, sc);
			let body = g(c, &sc.with_var(&n));
			Ex::ArrComp(Box::new(body), vec![Comp::For(n, over)])
		}
		Alt::ArrCompIf => {
			let n = sc.bind_name(c);
			let over = g(c, sc);
			let inner = sc.with_var(&n);
			let cond = g(c, &inner);
			let body = g(c, &inner);
			Ex::ArrComp(Box::new(body), vec![Comp::For(n, over), Comp::If(cond)])
		}
		Alt::Obj0 => obj(vec![]),
		Alt::ObjField(v, plus) => {
			let val = g(c, &sc.obj(sc.in_ext && false));
			obj(vec![field("a", v, plus, val)])
		}
		Alt::ObjTwo => {
			let o = sc.obj(false);
			let v1 = g(c, &o);
			let v2 = g(c, &o);
			obj(vec![field("a", Vis::Normal, false, v1), field("b", Vis::Normal, false, v2)])
		}
		Alt::ObjDyn => {
			let k = g(c, sc);
			let v = g(c, &sc.obj(false));
			obj(vec![Field { name: FName::Dyn(k), plus: false, params: None, vis: Vis::Normal, value: v }])
		}
		Alt::ObjLocal => {
			let o = sc.obj(false).with_var("x");
			let lv = g(c, &o);
			let v = g(c, &o);
			Ex::Obj(ObjBody::Members { locals: vec![Bind::Val("x".into(), lv)], asserts: vec![], fields: vec![field("a", Vis::Normal, false, v)] })
		}
		Alt::ObjAssert => {
			let o = sc.obj(false);
			let cond = g(c, &o);
			let v = g(c, &o);
			Ex::Obj(ObjBody::Members { locals: vec![], asserts: vec![(cond, None)], fields: vec![field("a", Vis::Normal, false, v)] })
		}
		Alt::ObjMethod => {
			let o = sc.obj(false).with_var("p");
			let v = g(c, &o);
			Ex::Obj(ObjBody::Members {
				locals: vec![],
				asserts: vec![],
				fields: vec![Field { name: FName::Fixed("a".into()), plus: false, params: Some(vec![Param { name: "p".into(), default: None }]), vis: Vis::Normal, value: v }],
			})
		}
		Alt::ObjComp => {
			let n = sc.bind_name(c);
			let over = g(c, sc);
			let inner = sc.with_var(&n);
			let k = g(c, &inner);
			let v = g(c, &inner.obj(false));
			Ex::Obj(ObjBody::Comp { locals: vec![], field: Box::new(Field { name: FName::Dyn(k), plus: false, params: None, vis: Vis::Normal, value: v }), specs: vec![Comp::For(n, over)] })
		}
		Alt::ObjExt => {
			let base = g(c, sc);
			let v = g(c, &sc.obj(true));
			Ex::ObjExt(Box::new(base), ObjBody::Members { locals: vec![], asserts: vec![], fields: vec![field("a", Vis::Normal, false, v)] })
		}
		Alt::ObjAdd => {
			let base = g(c, sc);
			let v = g(c, &sc.obj(true));
			bin(base, BinOp::Add, obj(vec![field("a", Vis::Normal, false, v)]))
		}
		Alt::Index => {
			let a = g(c, sc);
			let i = g(c, sc);
			idx(a, i)
		}
		Alt::Dot => dot(g(c, sc), "a"),
		Alt::Slice(k) => {
			let a = g(c, sc);
			let mut part = |c: &mut Chooser| Some(Box::new(g(c, sc)));
			match k {
				0 => {
					let s0 = part(c);
					let s1 = part(c);
					Ex::Slice(Box::new(a), s0, s1, None)
				}
				1 => {
					let s0 = part(c);
					Ex::Slice(Box::new(a), s0, None, None)
				}
				2 => {
					let s1 = part(c);
					let s2 = part(c);
					Ex::Slice(Box::new(a), None, s1, s2)
				}
				_ => Ex::Slice(Box::new(a), None, None, None),
			}
		}
		Alt::Error => Ex::Error(Box::new(g(c, sc))),
		Alt::Assert => {
			let cond = g(c, sc);
			let rest = g(c, sc);
			Ex::Assert(Box::new(cond), None, Box::new(rest))
		}
		Alt::AssertMsg => {
			let cond = g(c, sc);
			let msg = g(c, sc);
			let rest = g(c, sc);
			Ex::Assert(Box::new(cond), Some(Box::new(msg)), Box::new(rest))
		}
		Alt::Tailstrict => {
			let body = g(c, &sc.with_var("x"));
			let arg = g(c, sc);
			Ex::Apply(Box::new(func(&["x"], body)), vec![arg], vec![], true)
		}
		Alt::Import(k) => Ex::Import(k, "lib.jsonnet".into()),
		Alt::Paren2 => unreachable!(),
	}
}

/// number of construct nodes (for reporting)
pub fn size(e: &Ex) -> usize {
	let mut n = 0;
	walk(e, &mut |_| n += 1);
	n
}
pub fn walk(e: &Ex, f: &mut dyn FnMut(&Ex)) {
	f(e);
	let mut params = |ps: &[Param], f: &mut dyn FnMut(&Ex)| {
		for p in ps {
			if let Some(d) = &p.default {
				walk(d, f);
			}
		}
	};
	fn binds(bs: &[Bind], f: &mut dyn FnMut(&Ex)) {
		for b in bs {
			match b {
				Bind::Val(_, v) => walk(v, f),
				Bind::Func(_, ps, v) => {
					for p in ps {
						if let Some(d) = &p.default {
							walk(d, f);
						}
					}
					walk(v, f);
				}
			}
		}
	}
	fn fieldw(fl: &Field, f: &mut dyn FnMut(&Ex)) {
		if let FName::Dyn(e) = &fl.name {
			walk(e, f);
		}
		if let Some(ps) = &fl.params {
			for p in ps {
				if let Some(d) = &p.default {
					walk(d, f);
				}
			}
		}
		walk(&fl.value, f);
	}
	fn comps(cs: &[Comp], f: &mut dyn FnMut(&Ex)) {
		for c in cs {
			match c {
				Comp::For(_, e) | Comp::If(e) => walk(e, f),
			}
		}
	}
	fn body(b: &ObjBody, f: &mut dyn FnMut(&Ex)) {
		match b {
			ObjBody::Members { locals, asserts, fields } => {
				binds(locals, f);
				for (c, m) in asserts {
					walk(c, f);
					if let Some(m) = m {
						walk(m, f);
					}
				}
				for fl in fields {
					fieldw(fl, f);
				}
			}
			ObjBody::Comp { locals, field, specs } => {
				binds(locals, f);
				fieldw(field, f);
				comps(specs, f);
			}
		}
	}
	match e {
		Ex::Null | Ex::True | Ex::False | Ex::SelfE | Ex::Dollar | Ex::Super | Ex::Num(_) | Ex::Str(_) | Ex::Var(_) | Ex::Import(..) => {}
		Ex::Arr(xs) => xs.iter().for_each(|x| walk(x, f)),
		Ex::ArrComp(x, cs) => {
			walk(x, f);
			comps(cs, f);
		}
		Ex::Obj(b) => body(b, f),
		Ex::ObjExt(x, b) => {
			walk(x, f);
			body(b, f);
		}
		Ex::Un(_, x) | Ex::Error(x) => walk(x, f),
		Ex::Bin(l, _, r) | Ex::Index(l, r) => {
			walk(l, f);
			walk(r, f);
		}
		Ex::Assert(c, m, r) => {
			walk(c, f);
			if let Some(m) = m {
				walk(m, f);
			}
			walk(r, f);
		}
		Ex::Local(bs, b) => {
			binds(bs, f);
			walk(b, f);
		}
		Ex::Apply(fx, pos, named, _) => {
			walk(fx, f);
			pos.iter().for_each(|x| walk(x, f));
			named.iter().for_each(|(_, x)| walk(x, f));
		}
		Ex::Fn(ps, b) => {
			params(ps, f);
			walk(b, f);
		}
		Ex::If(c, t, el) => {
			walk(c, f);
			walk(t, f);
			if let Some(el) = el {
				walk(el, f);
			}
		}
		Ex::Slice(a, s0, s1, s2) => {
			walk(a, f);
			for x in [s0, s1, s2].into_iter().flatten() {
				walk(x, f);
			}
		}
	}
}
