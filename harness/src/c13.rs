//! C13 — standard-library object and type functions match their definitions (E1 + R2/R4).

use crate::{
	ast::*,
	c02::{build, Chain, LayerD, KINDS_ALL},
	c10::Ctx,
	common::{CheckSpec, Journal, PartSpec, Report, Shard, Tier},
	enumr::for_each_product,
	Check,
};

pub const CHECK: Check = Check {
	id: "C13",
	spec,
	work,
	replay: crate::c10::CHECK.replay,
};

fn spec(tier: Tier) -> CheckSpec {
	let n = crate::common::ncpu();
	CheckSpec {
		property: "C13",
		level: "exploration",
		rule: "exhaustive: (objects) every 2-layer inheritance chain of the C02 generator (quick: 6 member kinds per name, thorough: all 12; both composition syntaxes; plain, hidden, unhidden, +:, self/super/$ references, object locals) and every 1-layer object, plus every 2-layer chain over the 5 plain kinds with std.objectRemoveKey applied between and/or after the layers, each passed to objectFields/objectFieldsAll/objectFieldsEx, objectHas/objectHasAll/objectHasEx for visible, hidden and absent keys, objectValues(All), objectKeysValues(All), std.get with and without default and inc_hidden, length, type, mapWithKey, objectRemoveKey followed by field listing, manifestation, objectHas/objectHasAll/get(inc_hidden=false) and re-definition of the key below and above the removed part, prune, equals with a re-layered copy; \
			(patch) std.mergePatch over every (target, patch) pair of a 16-value set (null, numbers, {}, {a:1}, {a:null}, {a:{b:null}}, {a:{b:1,c:2}}, hidden fields, arrays, non-object targets) and nested once more; std.prune over trees with nested empties; (types) std.type, the std.is* predicates, std.length, equals/primitiveEquals/assertEqual, xor/xnor over all pairs of a 22-value set; (lazy) objects with a failing or diverging field through every function that must not force it. \
			Oracle: reference definitions (harness/src/refstd.rs) on the reference object model. non-trivial = distinct call text with a reference verdict"
			.into(),
		assumptions: vec!["the reference object model and the transcribed definitions of mergePatch (RFC 7396 as in std.jsonnet), prune, get, mapWithKey are trusted".into()],
		parts: vec![PartSpec::new("objects", n, tier.q(900, 14400)), PartSpec::new("patch", n, tier.q(900, 7200)), PartSpec::new("types", n.min(8), tier.q(900, 3600))],
		totality: true,
		exhaustive: true,
		min_outcomes: 20,
	}
}

fn n(x: f64) -> Ex {
	num(x)
}
fn o() -> Ex {
	var("o")
}

/// calls on an object bound to `o`
fn object_calls() -> Vec<(&'static str, Ex)> {
	let mut v: Vec<(&'static str, Ex)> = vec![
		("objectFields", stdcall("objectFields", vec![o()])),
		("objectFieldsAll", stdcall("objectFieldsAll", vec![o()])),
		("objectFieldsEx", stdcall("objectFieldsEx", vec![o(), Ex::True])),
		("objectFieldsEx", stdcall("objectFieldsEx", vec![o(), Ex::False])),
		("objectValues", stdcall("objectValues", vec![o()])),
		("objectValuesAll", stdcall("objectValuesAll", vec![o()])),
		("objectKeysValues", stdcall("objectKeysValues", vec![o()])),
		("objectKeysValuesAll", stdcall("objectKeysValuesAll", vec![o()])),
		("length", stdcall("length", vec![o()])),
		("type", stdcall("type", vec![o()])),
		("isObject", stdcall("isObject", vec![o()])),
		("mapWithKey", stdcall("mapWithKey", vec![func(&["k", "v"], Ex::Arr(vec![var("k"), var("v")])), o()])),
		("mapWithKey", stdcall("objectFields", vec![stdcall("mapWithKey", vec![func(&["k", "v"], n(1.0)), o()])])),
		("prune", stdcall("prune", vec![o()])),
		("equals", stdcall("equals", vec![o(), bin(o(), BinOp::Add, obj(vec![]))])),
		("mergePatch", stdcall("mergePatch", vec![o(), obj(vec![field("a", Vis::Normal, false, Ex::Null), field("n", Vis::Normal, false, n(1.0))])])),
		("mergePatch", stdcall("mergePatch", vec![obj(vec![field("a", Vis::Normal, false, n(0.0)), field("q", Vis::Normal, false, n(1.0))]), o()])),
	];
	for k in ["a", "b", "z"] {
		v.push(("objectHas", stdcall("objectHas", vec![o(), s(k)])));
		v.push(("objectHasAll", stdcall("objectHasAll", vec![o(), s(k)])));
		v.push(("objectHasEx", stdcall("objectHasEx", vec![o(), s(k), Ex::True])));
		v.push(("objectHasEx", stdcall("objectHasEx", vec![o(), s(k), Ex::False])));
		v.push(("get", stdcall("get", vec![o(), s(k)])));
		v.push(("get", stdcall("get", vec![o(), s(k), s("dflt")])));
		v.push(("get", stdcall("get", vec![o(), s(k), s("dflt"), Ex::False])));
		v.push(("objectRemoveKey", stdcall("objectFieldsAll", vec![stdcall("objectRemoveKey", vec![o(), s(k)])])));
		v.push(("objectRemoveKey", stdcall("objectRemoveKey", vec![o(), s(k)])));
		// removal followed by a visibility-sensitive lookup, with the key defined again below / above the removed part
		let removed = || stdcall("objectRemoveKey", vec![o(), s(k)]);
		let lit = |v: f64| obj(vec![field(k, Vis::Normal, false, n(v))]);
		v.push(("objectRemoveKey", stdcall("objectHas", vec![removed(), s(k)])));
		v.push(("objectRemoveKey", stdcall("objectHasAll", vec![removed(), s(k)])));
		v.push(("objectRemoveKey", stdcall("objectHas", vec![bin(lit(0.0), BinOp::Add, removed()), s(k)])));
		v.push(("objectRemoveKey", stdcall("get", vec![bin(removed(), BinOp::Add, lit(5.0)), s(k), s("dflt"), Ex::False])));
		v.push(("objectRemoveKey", stdcall("objectFields", vec![bin(lit(0.0), BinOp::Add, removed())])));
		v.push(("objectRemoveKey", bin(lit(0.0), BinOp::Add, removed())));
		// the same key removed again from an object whose upper part already had it removed
		let twice = || stdcall("objectRemoveKey", vec![bin(lit(0.0), BinOp::Add, removed()), s(k)]);
		v.push(("objectRemoveKey", twice()));
		v.push(("objectRemoveKey", stdcall("objectHasAll", vec![twice(), s(k)])));
		v.push(("objectRemoveKey", stdcall("get", vec![twice(), s(k), s("dflt")])));
		v.push(("objectRemoveKey", dot(bin(twice(), BinOp::Add, obj(vec![field(k, Vis::Normal, true, Ex::Arr(vec![s("top")]))])), k)));
		v.push(("objectRemoveKey", bin(twice(), BinOp::Add, obj(vec![field("r", Vis::Normal, false, bin(s(k), BinOp::In, Ex::Super))]))));
		v.push(("objectRemoveKey", bin(stdcall("objectRemoveKey", vec![o(), s(k)]), BinOp::Add, obj(vec![field("top", Vis::Normal, false, Ex::Arr(vec![bin(s(k), BinOp::In, Ex::Super)]))]))));
	}
	v
}

fn work(shard: &Shard, journal: &Journal, rep: &mut Report) {
	crate::common::limit_memory(6 << 30);
	let mut cx = Ctx { rep, runner: crate::c01::Runner::new(), shard: shard.clone(), idx: 0 };
	match shard.part.as_str() {
		"objects" => part_objects(&mut cx, journal),
		"patch" => part_patch(&mut cx, journal),
		"types" => part_types(&mut cx, journal),
		p => panic!("unknown part {p}"),
	}
	let total = cx.idx;
	cx.rep.count("calls_indexed", total / shard.n);
}

fn run(cx: &mut Ctx, journal: &Journal, f: &str, e: Ex, shape: &str) {
	let i = cx.idx;
	cx.idx += 1;
	if cx.shard.mine(i) {
		cx.program(journal, i, f, &e, shape);
	}
}

fn part_objects(cx: &mut Ctx, journal: &Journal) {
	const QUICK: [u8; 6] = [0, 1, 2, 3, 4, 8];
	let kinds: &[u8] = if cx.shard.tier == Tier::Quick { &QUICK } else { &KINDS_ALL };
	let calls = object_calls();
	let k = kinds.len();
	let mut chains: Vec<Chain> = Vec::new();
	// one layer, all kinds
	for_each_product(&[KINDS_ALL.len(), KINDS_ALL.len()], |_, c| {
		chains.push(Chain { nnames: 2, dup_last: 0, mask_after: None, layers: vec![LayerD { kinds: vec![KINDS_ALL[c[0]], KINDS_ALL[c[1]]], assert_kind: 0, ext: false, mask_before: None, mask_self: None }] });
	});
	for_each_product(&[k, k, k, k, 2], |_, c| {
		chains.push(Chain {
			nnames: 2,
			dup_last: 0,
			mask_after: None,
			layers: (0..2).map(|li| LayerD { kinds: vec![kinds[c[li * 2]], kinds[c[li * 2 + 1]]], assert_kind: 0, ext: li == 1 && c[4] == 1, mask_before: None, mask_self: None }).collect(),
		});
	});
	// objects that already went through std.objectRemoveKey between / after their layers
	let mk: &[u8] = &[0, 1, 2, 3, 4];
	for_each_product(&[5, 5, 5, 5, 3], |_, c| {
		let (mask_before, mask_after) = match c[4] {
			0 => (Some(0), None),
			1 => (None, Some(0)),
			_ => (Some(1), Some(0)),
		};
		chains.push(Chain {
			nnames: 2,
			dup_last: 0,
			mask_after,
			layers: (0..2).map(|li| LayerD { kinds: vec![mk[c[li * 2]], mk[c[li * 2 + 1]]], assert_kind: 0, ext: false, mask_before: if li == 1 { mask_before } else { None }, mask_self: None }).collect(),
		});
	});
	for ch in &chains {
		let oe = build(ch);
		let shape = format!("{} layer(s){}", ch.layers.len(), if ch.mask_after.is_some() || ch.layers.iter().any(|l| l.mask_before.is_some()) { ", keys removed" } else { "" });
		for (f, call) in &calls {
			run(cx, journal, f, local1("o", oe.clone(), call.clone()), &shape);
		}
	}
	// lazily failing / diverging fields must not be forced where the definition does not need them
	let bombs: Vec<(&str, Ex)> = vec![
		("error", Ex::Error(Box::new(s("BOMB")))),
		("diverging", Ex::Local(vec![Bind::Func("d".into(), vec![Param { name: "x".into(), default: None }], bin(call(var("d"), vec![var("x")]), BinOp::Add, n(1.0)))], Box::new(call(var("d"), vec![n(0.0)])))),
	];
	for (bn, b) in bombs {
		for vis in [Vis::Normal, Vis::Hidden] {
			let oe = obj(vec![field("a", Vis::Normal, false, n(1.0)), field("b", vis, false, b.clone())]);
			let lazy_ok: Vec<(&str, Ex)> = vec![
				("objectFields", stdcall("objectFields", vec![o()])),
				("objectFieldsAll", stdcall("objectFieldsAll", vec![o()])),
				("objectHas", stdcall("objectHas", vec![o(), s("b")])),
				("objectHasAll", stdcall("objectHasAll", vec![o(), s("b")])),
				("length", stdcall("length", vec![o()])),
				("get", stdcall("get", vec![o(), s("a")])),
				("get", stdcall("get", vec![o(), s("z"), n(0.0)])),
				("objectValues", idx(stdcall("objectValues", vec![o()]), n(0.0))),
				("objectValuesAll", stdcall("length", vec![stdcall("objectValuesAll", vec![o()])])),
				("objectKeysValues", dot(idx(stdcall("objectKeysValues", vec![o()]), n(0.0)), "value")),
				("objectKeysValuesAll", stdcall("map", vec![func(&["kv"], dot(var("kv"), "key")), stdcall("objectKeysValuesAll", vec![o()])])),
				("mapWithKey", dot(stdcall("mapWithKey", vec![func(&["k", "v"], var("v")), o()]), "a")),
				("objectRemoveKey", stdcall("objectRemoveKey", vec![o(), s("b")])),
				("mergePatch", dot(stdcall("mergePatch", vec![o(), obj(vec![field("c", Vis::Normal, false, n(3.0))])]), "a")),
				("mergePatch", stdcall("mergePatch", vec![o(), obj(vec![field("b", Vis::Normal, false, Ex::Null)])])),
				("in", bin(s("b"), BinOp::In, o())),
				("type", stdcall("type", vec![o()])),
			];
			for (f, call) in lazy_ok {
				run(cx, journal, f, local1("o", oe.clone(), call), &format!("lazy {bn} field"));
			}
		}
	}
}

fn patch_values() -> Vec<Ex> {
	let f = |name: &str, v: Ex| field(name, Vis::Normal, false, v);
	vec![
		Ex::Null,
		n(1.0),
		s("s"),
		Ex::Arr(vec![n(1.0), Ex::Null]),
		obj(vec![]),
		obj(vec![f("a", n(1.0))]),
		obj(vec![f("a", Ex::Null)]),
		obj(vec![f("a", obj(vec![f("b", Ex::Null)]))]),
		obj(vec![f("a", obj(vec![f("b", n(1.0)), f("c", n(2.0))]))]),
		obj(vec![f("a", n(1.0)), f("b", n(2.0))]),
		obj(vec![f("b", Ex::Null), f("c", obj(vec![]))]),
		obj(vec![field("a", Vis::Hidden, false, n(1.0)), f("v", n(2.0))]),
		obj(vec![field("h", Vis::Hidden, false, Ex::Null), f("a", obj(vec![field("hh", Vis::Hidden, false, n(1.0))]))]),
		obj(vec![f("a", Ex::Arr(vec![obj(vec![f("b", Ex::Null)])]))]),
		bin(obj(vec![f("a", n(1.0))]), BinOp::Add, obj(vec![field("a", Vis::Hidden, false, n(2.0))])),
		Ex::True,
	]
}

fn part_patch(cx: &mut Ctx, journal: &Journal) {
	let vals = patch_values();
	for t in &vals {
		for p in &vals {
			run(cx, journal, "mergePatch", stdcall("mergePatch", vec![t.clone(), p.clone()]), "pair");
			// nested one level deeper
			let wrap = |e: &Ex| obj(vec![field("w", Vis::Normal, false, e.clone()), field("keep", Vis::Normal, false, n(0.0))]);
			run(cx, journal, "mergePatch", stdcall("mergePatch", vec![wrap(t), wrap(p)]), "nested pair");
			run(cx, journal, "mergePatch", stdcall("objectFieldsAll", vec![stdcall("mergePatch", vec![t.clone(), p.clone()])]), "fields of result");
		}
	}
	// prune over trees with nested empties
	let leaves: Vec<Ex> = vec![Ex::Null, n(0.0), s(""), Ex::Arr(vec![]), obj(vec![]), Ex::False, Ex::Arr(vec![Ex::Null]), obj(vec![field("x", Vis::Normal, false, Ex::Null)]), obj(vec![field("h", Vis::Hidden, false, n(1.0))])];
	for a in &leaves {
		run(cx, journal, "prune", stdcall("prune", vec![a.clone()]), "leaf");
		for b in &leaves {
			run(cx, journal, "prune", stdcall("prune", vec![Ex::Arr(vec![a.clone(), b.clone()])]), "array");
			run(cx, journal, "prune", stdcall("prune", vec![obj(vec![field("p", Vis::Normal, false, a.clone()), field("q", Vis::Normal, false, b.clone())])]), "object");
			run(cx, journal, "prune", stdcall("prune", vec![obj(vec![field("p", Vis::Normal, false, Ex::Arr(vec![a.clone(), obj(vec![field("r", Vis::Normal, false, b.clone())])]))])]), "nested");
		}
	}
}

fn part_types(cx: &mut Ctx, journal: &Journal) {
	let vals: Vec<Ex> = vec![
		Ex::Null,
		Ex::True,
		Ex::False,
		n(0.0),
		num(-0.0),
		n(1.0),
		n(1.5),
		s(""),
		s("a"),
		s("é"),
		Ex::Arr(vec![]),
		Ex::Arr(vec![n(1.0)]),
		obj(vec![]),
		obj(vec![field("a", Vis::Normal, false, n(1.0))]),
		obj(vec![field("a", Vis::Hidden, false, n(1.0))]),
		// same number of visible fields, different visible names, a hidden stand-in for the other's visible field
		obj(vec![field("a", Vis::Hidden, false, n(1.0)), field("b", Vis::Normal, false, n(1.0))]),
		obj(vec![field("b", Vis::Normal, false, n(1.0))]),
		obj(vec![field("b", Vis::Hidden, false, n(1.0)), field("a", Vis::Normal, false, n(1.0))]),
		Ex::Arr(vec![obj(vec![field("a", Vis::Hidden, false, n(1.0)), field("b", Vis::Normal, false, n(1.0))])]),
		Ex::Arr(vec![obj(vec![field("a", Vis::Normal, false, n(1.0))])]),
		func(&["x"], var("x")),
		dot(var("std"), "length"),
	];
	for a in &vals {
		for f in ["type", "isString", "isNumber", "isBoolean", "isObject", "isArray", "isFunction", "isNull", "length", "toString"] {
			run(cx, journal, f, stdcall(f, vec![a.clone()]), "value");
		}
		for b in &vals {
			for f in ["equals", "primitiveEquals", "assertEqual", "xor", "xnor"] {
				run(cx, journal, f, stdcall(f, vec![a.clone(), b.clone()]), "pair");
			}
			run(cx, journal, "==", bin(a.clone(), BinOp::Eq, b.clone()), "pair");
		}
	}
	// length of functions with various parameter lists
	for ps in [vec![], vec![("a", None)], vec![("a", None), ("b", Some(n(1.0)))], vec![("a", Some(n(1.0))), ("b", Some(n(2.0))), ("c", None)]] {
		let params = ps.into_iter().map(|(nm, d)| Param { name: nm.to_owned(), default: d }).collect();
		run(cx, journal, "length", stdcall("length", vec![Ex::Fn(params, Box::new(n(0.0)))]), "function");
	}
}
