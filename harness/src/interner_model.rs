//! Executable model of the string interner (R7) and the driver that runs operation histories on the real interner.
//! Depends on `jrsonnet_interner` only, so that the same file is compiled into the Miri runner (/verif/miri).

use jrsonnet_interner::{interop, verif::pool_len, IBytes, IStr};

/// contents alphabet: index 3 is not valid UTF-8
pub const CONTENTS: [&[u8]; 4] = [b"", b"a", "é".as_bytes(), &[0xff]];
pub const SLOTS: usize = 3;

#[derive(Clone, Copy, Debug, PartialEq, Eq, Hash, PartialOrd, Ord)]
pub enum Op {
	InternStr(usize, usize),
	InternBytes(usize, usize),
	FromChar(usize, usize),
	Clone(usize, usize),
	Drop(usize),
	CastBytes(usize),
	CastStr(usize),
	/// exit_thread + reenter_thread on the same OS thread
	HandOverSame,
	/// exit_thread here, reenter_thread on a new OS thread that takes all handles, does one intern+drop there,
	/// exits, and hands everything back
	HandOverNew,
}

pub fn all_ops() -> Vec<Op> {
	let mut v = Vec::new();
	for s in 0..SLOTS {
		for c in 0..3 {
			v.push(Op::InternStr(s, c));
		}
		for c in 0..4 {
			v.push(Op::InternBytes(s, c));
		}
		for c in 1..3 {
			v.push(Op::FromChar(s, c));
		}
		for t in 0..SLOTS {
			if s != t {
				v.push(Op::Clone(s, t));
			}
		}
		v.push(Op::Drop(s));
		v.push(Op::CastBytes(s));
		v.push(Op::CastStr(s));
	}
	v.push(Op::HandOverSame);
	v.push(Op::HandOverNew);
	v
}

pub enum Handle {
	Str(IStr),
	Bytes(IBytes),
}
/// model of a slot: (is_str, content index)
pub type MSlot = Option<(bool, usize)>;
pub type MState = [MSlot; SLOTS];

struct SendAll(Vec<Option<Handle>>, *mut interop::PoolState);
// SAFETY: the hand-over protocol of `interop` moves the whole pool and every handle to the other thread; the sending
// thread keeps nothing and waits for the join
unsafe impl Send for SendAll {}

pub struct Sys {
	pub slots: Vec<Option<Handle>>,
	pub model: MState,
	pub base: usize,
}

impl Sys {
	pub fn new() -> Self {
		Self { slots: (0..SLOTS).map(|_| None).collect(), model: [None; SLOTS], base: pool_len() }
	}

	fn bytes_of(h: &Handle) -> Vec<u8> {
		match h {
			Handle::Str(s) => s.as_bytes().to_vec(),
			Handle::Bytes(b) => b.to_vec(),
		}
	}

	/// applies `op` to the real interner and to the model, then checks every invariant
	pub fn step(&mut self, op: Op) -> Result<(), String> {
		match op {
			Op::InternStr(s, c) => {
				let text = std::str::from_utf8(CONTENTS[c]).expect("valid");
				self.slots[s] = Some(Handle::Str(jrsonnet_interner::intern_str(text)));
				self.model[s] = Some((true, c));
			}
			Op::InternBytes(s, c) => {
				self.slots[s] = Some(Handle::Bytes(jrsonnet_interner::intern_bytes(CONTENTS[c])));
				self.model[s] = Some((false, c));
			}
			Op::FromChar(s, c) => {
				let ch = std::str::from_utf8(CONTENTS[c]).expect("valid").chars().next().expect("one char");
				self.slots[s] = Some(Handle::Str(IStr::from(ch)));
				self.model[s] = Some((true, c));
			}
			Op::Clone(a, b) => {
				let h = match &self.slots[a] {
					None => None,
					Some(Handle::Str(x)) => Some(Handle::Str(x.clone())),
					Some(Handle::Bytes(x)) => Some(Handle::Bytes(x.clone())),
				};
				self.slots[b] = h;
				self.model[b] = self.model[a];
			}
			Op::Drop(s) => {
				self.slots[s] = None;
				self.model[s] = None;
			}
			Op::CastBytes(s) => match self.slots[s].take() {
				Some(Handle::Str(x)) => {
					self.slots[s] = Some(Handle::Bytes(x.cast_bytes()));
					self.model[s] = self.model[s].map(|(_, c)| (false, c));
				}
				// not a string: nothing happens
				other => self.slots[s] = other,
			},
			Op::CastStr(s) => match self.slots[s].take() {
				Some(Handle::Bytes(x)) => {
					let c = self.model[s].expect("model knows the slot").1;
					let valid = std::str::from_utf8(CONTENTS[c]).is_ok();
					match x.cast_str() {
						Some(st) => {
							if !valid {
								return Err(format!("cast_str succeeded on invalid UTF-8 {:?}", CONTENTS[c]));
							}
							self.slots[s] = Some(Handle::Str(st));
							self.model[s] = Some((true, c));
						}
						None => {
							if valid {
								return Err(format!("cast_str failed on valid UTF-8 {:?}", CONTENTS[c]));
							}
							// the handle was consumed by the failed cast
							self.model[s] = None;
						}
					}
				}
				other => self.slots[s] = other,
			},
			Op::HandOverSame => {
				let st = interop::exit_thread();
				// SAFETY: state comes from exit_thread of this thread and is used once
				unsafe { interop::reenter_thread(st) };
			}
			Op::HandOverNew => {
				let pack = SendAll(std::mem::take(&mut self.slots), interop::exit_thread());
				let back = std::thread::spawn(move || {
					let pack = pack;
					// SAFETY: state comes from exit_thread of the sending thread and is used once
					unsafe { interop::reenter_thread(pack.1) };
					{
						let tmp = jrsonnet_interner::intern_str("made-on-the-other-thread");
						let again = jrsonnet_interner::intern_str("a");
						drop((tmp, again));
					}
					SendAll(pack.0, interop::exit_thread())
				})
				.join()
				.map_err(|_| "the other thread panicked during the hand-over".to_owned())?;
				// SAFETY: state comes from exit_thread of the other thread and is used once
				unsafe { interop::reenter_thread(back.1) };
				self.slots = back.0;
			}
		}
		self.check()
	}

	pub fn check(&self) -> Result<(), String> {
		// contents intact, kinds as modelled
		for (i, (h, m)) in self.slots.iter().zip(self.model.iter()).enumerate() {
			match (h, m) {
				(None, None) => {}
				(Some(h), Some((is_str, c))) => {
					if matches!(h, Handle::Str(_)) != *is_str {
						return Err(format!("slot {i}: kind differs from the model"));
					}
					if Self::bytes_of(h) != CONTENTS[*c] {
						return Err(format!("slot {i}: contents {:?}, expected {:?}", Self::bytes_of(h), CONTENTS[*c]));
					}
				}
				_ => return Err(format!("slot {i}: liveness differs from the model")),
			}
		}
		// equality <=> same contents (same kind directly, across kinds through a cast of a clone)
		for i in 0..SLOTS {
			for j in 0..SLOTS {
				let (Some(a), Some(b)) = (&self.slots[i], &self.slots[j]) else { continue };
				let same = self.model[i].map(|m| m.1) == self.model[j].map(|m| m.1);
				let eq = match (a, b) {
					(Handle::Str(x), Handle::Str(y)) => x == y,
					(Handle::Bytes(x), Handle::Bytes(y)) => x == y,
					(Handle::Str(x), Handle::Bytes(y)) | (Handle::Bytes(y), Handle::Str(x)) => x.clone().cast_bytes() == *y,
				};
				if eq != same {
					return Err(format!("slots {i} and {j}: handles compare {}equal, contents are {}", if eq { "" } else { "un" }, if same { "equal" } else { "different" }));
				}
			}
		}
		// pool holds exactly the distinct live contents
		let mut live: Vec<usize> = self.model.iter().flatten().map(|m| m.1).collect();
		live.sort_unstable();
		live.dedup();
		let len = pool_len();
		if len != self.base + live.len() {
			return Err(format!("pool holds {} entries above its baseline, {} distinct contents are live", len as i64 - self.base as i64, live.len()));
		}
		Ok(())
	}

	/// drops every handle; the pool must be back at its baseline
	pub fn finish(mut self) -> Result<(), String> {
		for s in 0..SLOTS {
			self.slots[s] = None;
			self.model[s] = None;
		}
		self.check()
	}
}

/// runs one history from an empty set of handles; Err(step index, message) on the first broken invariant
pub fn run_history(ops: &[Op]) -> Result<MState, (usize, String)> {
	let mut sys = Sys::new();
	for (i, op) in ops.iter().enumerate() {
		sys.step(*op).map_err(|e| (i, e))?;
	}
	let m = sys.model;
	sys.finish().map_err(|e| (ops.len(), format!("after dropping every handle: {e}")))?;
	Ok(m)
}

/// every history of length 1..=depth, in order; calls `f(index, history)`
pub fn for_each_history(depth: usize, mut f: impl FnMut(u64, &[Op])) -> u64 {
	let ops = all_ops();
	let mut idx = 0u64;
	for len in 1..=depth {
		let mut c = vec![0usize; len];
		loop {
			let h: Vec<Op> = c.iter().map(|i| ops[*i]).collect();
			f(idx, &h);
			idx += 1;
			let mut k = len;
			let mut done = false;
			loop {
				if k == 0 {
					done = true;
					break;
				}
				k -= 1;
				c[k] += 1;
				if c[k] < ops.len() {
					break;
				}
				c[k] = 0;
			}
			if done {
				break;
			}
		}
	}
	idx
}
