//! C12 — std.format and the % operator implement printf-style formatting.
//!
//! Cases are enumerated in Rust; the expected text (or error) of each case comes from Python's
//! %-formatting restricted to the cells where Python 3 and Jsonnet coincide by definition
//! (/verif/oracles/format_oracle.py, run once per worker over the worker's whole share).

use std::{io::Write as _, process::{Command, Stdio}};

use serde_json::{json, Value};

use crate::{
	ast::quote,
	common::{fnv, panic_class, verif_root, CheckSpec, Journal, PartSpec, Report, Shard, Tier, Violation},
	enumr::for_each_seq,
	imp::{Imp, Out},
	Check,
};

pub const CHECK: Check = Check {
	id: "C12",
	spec,
	work,
	replay,
};

fn spec(tier: Tier) -> CheckSpec {
	let n = crate::common::ncpu();
	CheckSpec {
		property: "C12",
		level: "exploration",
		rule: "exhaustive: (grid) every format code from 32 flag subsets x width {none,0,1,5,*} x precision {none,.0,.1,.3,.*} x 17 conversions (d i u o x X e E f F g G c s and %%), applied to 23 values (0, -0, 1, -1, 7, 255, -255, 0.5, -0.5, 1.25, 1234.5678, 1e10, 1e-5, 123456789012, 2^53, 1e19, \"s\", \"\", \"é\", [1], {a:1}, null, true), in array mode, embedded in literal text, in %(key) object mode with plain and dotted keys, through the % operator and through std.format; argument-count errors (one too few, one too many, * without value); \
			(malformed) every string of length <= 5 (thorough 6) over {%, (, ), a, d, s, 0, 1, ., *, -, space, #, +} as format with an array and with an object argument. \
			Oracle: Python %-formatting on the cells where Python and Jsonnet coincide by definition (integral values under d i u o x X c, strings under s, e f g on values away from half-way rounding points); elsewhere only 'a text or an error, no crash'. non-trivial = distinct (format, values) pair with a Python verdict"
			.into(),
		assumptions: vec![
			"Python 3.11 %-formatting is the reference on the shared sub-grid; cells excluded as not shared: #o (0o prefix), precision on %s/%c, %s of non-strings/non-integers, o/x/X of non-integers, half-way rounding points, %.0g, negative * width".into(),
		],
		parts: vec![PartSpec::new("grid", n, tier.q(900, 7200)), PartSpec::new("malformed", n, tier.q(900, 14400))],
		totality: true,
		exhaustive: true,
		min_outcomes: 20,
	}
}

#[derive(Clone)]
pub struct Case {
	pub fmt: String,
	/// JSON text of the values (array or object), also valid Jsonnet
	pub vals: String,
	pub via_std_format: bool,
	pub family: String,
}
impl Case {
	pub fn code(&self) -> String {
		if self.via_std_format {
			format!("std.format({}, {})", quote(&self.fmt), self.vals)
		} else {
			format!("{} % {}", quote(&self.fmt), self.vals)
		}
	}
}

pub fn values() -> Vec<(&'static str, &'static str)> {
	vec![
		("zero", "0"),
		("negzero", "-0.0"),
		("one", "1"),
		("minus-one", "-1"),
		("seven", "7"),
		("255", "255"),
		("-255", "-255"),
		("half", "0.5"),
		("neg-half", "-0.5"),
		("1.25", "1.25"),
		("1234.5678", "1234.5678"),
		("1e10", "10000000000"),
		("1e-5", "0.00001"),
		("123456789012", "123456789012"),
		("2^53", "9007199254740992"),
		("1e19", "10000000000000000000"),
		("string", "\"s\""),
		("empty-string", "\"\""),
		("non-ascii-string", "\"é\""),
		("array", "[1]"),
		("object", "{\"a\":1}"),
		("null", "null"),
		("true", "true"),
	]
}

fn python_oracle(cases: &[Case]) -> Option<Vec<Value>> {
	let script = format!("{}/oracles/format_oracle.py", verif_root());
	let mut child = Command::new(crate::common::python()).arg(&script).stdin(Stdio::piped()).stdout(Stdio::piped()).spawn().ok()?;
	let mut stdin = child.stdin.take()?;
	let payload: String = cases.iter().map(|c| format!("{{\"fmt\":{},\"vals\":{}}}\n", serde_json::to_string(&c.fmt).unwrap(), c.vals)).collect();
	let writer = std::thread::spawn(move || {
		let _ = stdin.write_all(payload.as_bytes());
	});
	let out = child.wait_with_output().ok()?;
	let _ = writer.join();
	if !out.status.success() {
		return None;
	}
	let text = String::from_utf8(out.stdout).ok()?;
	let v: Vec<Value> = text.lines().filter_map(|l| serde_json::from_str(l).ok()).collect();
	(v.len() == cases.len()).then_some(v)
}

fn conv_of(fmt: &str) -> String {
	// conversion letter of the first code that is not a literal `%%`, for class keys
	let fmt = fmt.replace("%%", "");
	let mut it = fmt.chars().skip_while(|c| *c != '%').skip(1);
	let mut in_key = false;
	for c in it.by_ref() {
		if c == '(' {
			in_key = true;
			continue;
		}
		if in_key {
			if c == ')' {
				in_key = false;
			}
			continue;
		}
		if "#0- +*.123456789".contains(c) {
			continue;
		}
		return c.to_string();
	}
	"?".into()
}

fn judge_all(rep: &mut Report, journal: &Journal, cases: Vec<(u64, Case)>) {
	if cases.is_empty() {
		return;
	}
	let owned: Vec<Case> = cases.iter().map(|c| c.1.clone()).collect();
	let Some(verdicts) = python_oracle(&owned) else {
		rep.notes.push("MACHINERY: python format oracle failed".into());
		rep.capped = true;
		return;
	};
	let imp = Imp::new();
	for ((idx, c), v) in cases.iter().zip(&verdicts) {
		let code = c.code();
		journal.note(*idx, "format", &code);
		let o = imp.run(&code);
		let judged = v.get("s").is_none();
		rep.case(judged.then(|| fnv(code.as_bytes())), fnv(v.to_string().chars().take(40).collect::<String>().as_bytes()));
		if !judged {
			rep.count("not_judged_cells", 1);
		}
		if idx % 20_011 == 0 {
			rep.sample(|| json!({"expr": code, "python": v, "implementation": o.short()}));
		}
		let bad: Option<String> = match (&o, v.get("v").and_then(Value::as_str), v.get("e").is_some()) {
			(Out::Panic(p), _, _) => Some(panic_class(p)),
			(_, None, false) => None,
			(Out::Json(got), Some(exp), _) => {
				let got_text: Option<String> = serde_json::from_str(got).ok();
				(got_text.as_deref() != Some(exp)).then(|| "wrong text".to_owned())
			}
			(Out::Err(k, _), Some(_), _) => Some(format!("expected text, got error {k}")),
			(Out::Json(_), None, true) => Some("expected an error, got text".to_owned()),
			(Out::Err(..), None, true) => None,
		};
		if let Some(kind) = bad {
			rep.violation(Violation {
				class: format!("{}: {kind} [conversion {}]", c.family, conv_of(&c.fmt)),
				witness: code.clone(),
				detail: format!("python: {v}\nimplementation: {}", o.short()),
				cost: code.len() as u32,
				replay: json!({"kind": "format", "fmt": c.fmt, "vals": c.vals, "std": c.via_std_format, "family": c.family}),
			});
		}
	}
}

fn work(shard: &Shard, journal: &Journal, rep: &mut Report) {
	crate::common::limit_memory(6 << 30);
	let mut cases: Vec<(u64, Case)> = Vec::new();
	let mut idx = 0u64;
	let mut push = |c: Case| {
		if shard.mine(idx) {
			cases.push((idx, c));
		}
		idx += 1;
	};
	match shard.part.as_str() {
		"grid" => {
			let flag_chars = ['#', '0', '-', ' ', '+'];
			let widths = ["", "0", "1", "5", "*"];
			let precs = ["", ".0", ".1", ".3", ".*"];
			let convs = ["d", "i", "u", "o", "x", "X", "e", "E", "f", "F", "g", "G", "c", "s"];
			for fm in 0u32..32 {
				let flags: String = flag_chars.iter().enumerate().filter(|(i, _)| fm >> i & 1 == 1).map(|(_, c)| *c).collect();
				for w in widths {
					for p in precs {
						for cv in convs {
							let code = format!("%{flags}{w}{p}{cv}");
							for (vn, v) in values() {
								let mut args: Vec<&str> = Vec::new();
								if w == "*" {
									args.push("6");
								}
								if p == ".*" {
									args.push("2");
								}
								args.push(v);
								let vals = format!("[{}]", args.join(","));
								let _ = vn;
								push(Case { fmt: code.clone(), vals: vals.clone(), via_std_format: false, family: "grid".into() });
								// embedded in literal text and through std.format on a sub-grid
								if fm % 5 == 0 && (w == "5" || w.is_empty()) {
									push(Case { fmt: format!("é<{code}>%%"), vals: vals.clone(), via_std_format: true, family: "embedded".into() });
								}
								// object mode
								if w != "*" && p != ".*" && (fm % 3 == 0) {
									push(Case { fmt: format!("%(k){flags}{w}{p}{cv}"), vals: format!("{{\"k\":{v}}}"), via_std_format: false, family: "object-mode".into() });
								}
							}
							// argument count errors
							if fm == 0 {
								push(Case { fmt: code.clone(), vals: "[]".into(), via_std_format: false, family: "too-few".into() });
								let mut many: Vec<&str> = Vec::new();
								if w == "*" {
									many.push("6");
								}
								if p == ".*" {
									many.push("2");
								}
								many.push("7");
								many.push("8");
								push(Case { fmt: code.clone(), vals: format!("[{}]", many.join(",")), via_std_format: false, family: "too-many".into() });
								if w == "*" || p == ".*" {
									push(Case { fmt: code.clone(), vals: "[7]".into(), via_std_format: false, family: "star-without-value".into() });
								}
							}
						}
					}
				}
			}
			// several codes consuming values left to right, dotted keys, %% handling
			for (f, v) in [
				("%d-%s-%x", "[1,\"b\",255]"),
				("%s%s%s", "[\"a\",\"b\",\"c\"]"),
				("%*d|%-*d|%.*f", "[4,1,4,2,2,3.14159]"),
				("%(a.b)s %(c d)d", "{\"a.b\":\"x\",\"c d\":3}"),
				("%(a)s%(a)s", "{\"a\":\"x\"}"),
				("%(missing)s", "{\"a\":1}"),
				("100%% %d%%", "[5]"),
				("%%", "[]"),
				("%%", "[1]"),
				("no codes", "[]"),
				("no codes", "[1]"),
				("%5%", "[]"),
				("%c%c", "[65,\"é\"]"),
				("%c", "[\"ab\"]"),
				("%c", "[1114112]"),
				("%c", "[55296]"),
				("%99999d", "[1]"),
				("%.99999f", "[1]"),
				("%65536d", "[1]"),
				("%.0g", "[1234]"),
				("%.0g", "[0.0001234]"),
				("%#.0g", "[5]"),
				("%g", "[100000]"),
				("%g", "[1000000]"),
				("%g", "[0.0001]"),
				("%g", "[0.00001]"),
				("%.3g", "[999.5]"),
				("%.3g", "[0.00099951]"),
				("%e", "[9.9999995]"),
				("%.2f", "[0.999]"),
				("%.1f", "[0.96]"),
				("%.0f", "[9.6]"),
				("%05d", "[-3]"),
				("%+05d", "[3]"),
				("% 05d", "[3]"),
				("%-05d|", "[3]"),
				("%x", "[-255]"),
				("%#X", "[255]"),
				("%#x", "[0]"),
				("%#o", "[0]"),
				("%o", "[8]"),
				("%5s|%-5s|", "[\"é\",\"é\"]"),
			] {
				push(Case { fmt: f.into(), vals: v.into(), via_std_format: false, family: "mixed".into() });
				push(Case { fmt: f.into(), vals: v.into(), via_std_format: true, family: "mixed".into() });
			}
		}
		"malformed" => {
			let alpha = ["%", "(", ")", "a", "d", "s", "0", "1", ".", "*", "-", " ", "#", "+"];
			let maxlen = shard.tier.q(5, 6);
			let mut strings: Vec<String> = Vec::new();
			for_each_seq(alpha.len(), 0, maxlen, |_, seq| {
				// strings without a % are literal text: keep one in 50 of them
				let t: String = seq.iter().map(|k| alpha[*k]).collect();
				strings.push(t);
			});
			for (k, t) in strings.into_iter().enumerate() {
				if !t.contains('%') && k % 50 != 0 {
					continue;
				}
				if t.contains('(') {
					push(Case { fmt: t.clone(), vals: "{\"a\":7,\"d\":7,\"\":7,\"s\":\"z\"}".into(), via_std_format: false, family: "malformed-object".into() });
				}
				push(Case { fmt: t, vals: "[7,8]".into(), via_std_format: false, family: "malformed-array".into() });
			}
		}
		p => panic!("unknown part {p}"),
	}
	let total = idx;
	// process in batches to bound the oracle's memory
	for chunk in cases.chunks(40_000).map(<[(u64, Case)]>::to_vec) {
		judge_all(rep, journal, chunk);
	}
	rep.count("cases_indexed", total / shard.n);
}

fn replay(v: &Value) -> (bool, String) {
	let c = Case { fmt: v["fmt"].as_str().unwrap_or("").into(), vals: v["vals"].as_str().unwrap_or("[]").into(), via_std_format: v["std"].as_bool().unwrap_or(false), family: v["family"].as_str().unwrap_or("replay").into() };
	let mut rep = Report::new();
	let journal = Journal::open(None);
	let code = c.code();
	judge_all(&mut rep, &journal, vec![(1, c)]);
	let detail: Vec<String> = rep.violations.values().flat_map(|x| x.1.iter().map(|w| format!("{}\n{}", w.class, w.detail))).collect();
	(!rep.violations.is_empty(), format!("{code}\n{}", detail.join("\n")))
}
