//! C20 — formatting is idempotent and never crashes (E3 over arbitrary text, E1 over generated programs).

use serde_json::{json, Value};

use crate::{
	ast::print,
	c04::src_spaces,
	c06::{parse_default, repo_inputs, P},
	common::{fnv, panic_class, CheckSpec, Journal, PartSpec, Report, Shard, Tier, Violation},
	enumr::{explore, for_each_seq},
	fmtx::{decorate_all, decorations, fmt, indent_name, kind_group, tokens, F, INDENTS},
	gen::{gen_expr, GenCfg, Scope},
	Check,
};

pub const CHECK: Check = Check {
	id: "C20",
	spec,
	work,
	replay,
};

fn spec(tier: Tier) -> CheckSpec {
	let n = crate::common::ncpu();
	CheckSpec {
		property: "C20",
		level: "exploration",
		rule: format!(
			"exhaustive: (crash) every token sequence, character string, number-like and text-block-like string of the C06 sequence spaces (same bounds) given to the jrsonnet-fmt pipeline (format, trim, final newline) with {}: no panic, no hang (10 s per case watchdog), a diagnostic (declined) whenever the evaluator's parser rejects the text, and a fixed point whenever it formats; \
			(fixpoint) every program of the whole-grammar generator with <= {} non-literal constructs x indentation {{tabs, 2, 4}} (thorough: the programs with exactly 4 constructs and the decorations of those with 3 under indentation 2 only), and every program with <= {} constructs additionally with every single insertion of {{newline, blank line, block comment, line comment on its own line, trailing line comment, hash comment, empty / blank / doc / multi-line block comment}} at every token boundary, and with one token per line, plus the repository's parser/formatter test inputs: format(format(x)) = format(x), i.e. `jrsonnet-fmt --test` accepts what `jrsonnet-fmt` printed. (cli) the real dev-profile jrsonnet-fmt executable on every text block of <= 2 lines over {{a, empty, tab+b, spaces+c, spaces only}} x block indentation {{space, tab}} x {{|||, |||-}}, multi-line string literals, every generated program with <= {} constructs and the repository inputs, x {{--indent 2, --indent 4, --hard-tabs}}: no panic (exit 101), stdout equal to the pipeline function used by the other parts, and `jrsonnet-fmt --test` exits 0 on that output. non-trivial = distinct (text, indentation) that the formatter formats",
			tier.q("indentation 2", "every indentation setting for sequences of length <= 3, indentation 2 above"),
			tier.q(3, 4),
			tier.q(2, 3),
			tier.q(1, 2)
		),
		assumptions: vec!["the pipeline function mirrors cmds/jrsonnet-fmt/src/main.rs (conv_limit 0): output = format(input).trim() + newline; `--test` compares that with the input".into()],
		parts: vec![PartSpec::new("crash", n, tier.q(900, 14400)), PartSpec::new("fixpoint", n, tier.q(900, 14400)), PartSpec::new("cli", n, tier.q(900, 3600))],
		totality: true,
		exhaustive: true,
		min_outcomes: 3,
	}
}

fn work(shard: &Shard, journal: &Journal, rep: &mut Report) {
	crate::common::limit_memory(6 << 30);
	crate::common::start_watchdog(if shard.part == "cli" { 60 } else { 10 });
	match shard.part.as_str() {
		"crash" => part_crash(shard, journal, rep),
		"fixpoint" => part_fixpoint(shard, journal, rep),
		"cli" => part_cli(shard, journal, rep),
		p => panic!("unknown part {p}"),
	}
}

fn kinds_of_line(line: &str) -> String {
	let ks: Vec<String> = tokens(line).into_iter().take(8).map(|t| t.kind).collect();
	if ks.is_empty() {
		"<blank>".into()
	} else {
		ks.join(" ")
	}
}
/// class key of a non-fixed point: token kinds of the first differing line, before and after
pub fn diff_key(f1: &str, f2: &str) -> String {
	let (a, b): (Vec<&str>, Vec<&str>) = (f1.lines().collect(), f2.lines().collect());
	let i = (0..a.len().max(b.len())).find(|i| a.get(*i) != b.get(*i)).unwrap_or(0);
	format!("`{}` becomes `{}`", a.get(i).map_or("<end>".into(), |l| kinds_of_line(l)), b.get(i).map_or("<end>".into(), |l| kinds_of_line(l)))
}

pub struct Ctx<'r> {
	pub rep: &'r mut Report,
}

/// all C20 oracles on one text; `deco` describes the decoration (for the class key) if the text is a decorated program
pub fn check_text(rep: &mut Report, text: &str, indent: u8, deco: Option<(&str, &str, &str)>, cost: u32, check_validity: bool) {
	let f1 = fmt(text, indent);
	let replay = json!({"kind": "fmt", "text": text, "indent": indent, "validity": check_validity});
	// decorated programs are keyed by the decoration and the coarse groups of the neighbouring tokens
	let ctx = deco.map_or(String::new(), |(what, prev, next)| format!(" [{what} between {} and {}]", kind_group(prev), kind_group(next)));
	let mut outcome = f1.tag().to_owned();
	match &f1 {
		F::Panic(p) => rep.violation(Violation {
			class: format!("formatter panic: {}", panic_class(p)),
			witness: text.to_owned(),
			detail: format!("indentation {}: panic {p}", indent_name(indent)),
			cost,
			replay: replay.clone(),
		}),
		F::Declined => {}
		F::Ok(o1) => {
			if check_validity {
				if let P::Rej(msg, off) = parse_default(text) {
					let kind = tokens(text).into_iter().find(|t| t.end > off).map_or("<end>".to_owned(), |t| t.kind);
					rep.violation(Violation {
						class: format!("invalid input is formatted without a diagnostic: evaluator's parser says `{}` at {kind}", crate::c06::norm_msg_pub(&msg)),
						witness: text.to_owned(),
						detail: format!("the evaluator's parser rejects this text ({msg} at offset {off}); the formatter printed {o1:?}"),
						cost,
						replay: replay.clone(),
					});
				}
			}
			match fmt(o1, indent) {
				F::Ok(o2) if o2 == *o1 => {}
				F::Ok(o2) => {
					outcome = "not-fixed".into();
					rep.violation(Violation {
						class: if deco.is_some() { format!("not a fixed point{ctx}") } else { format!("not a fixed point: {}", diff_key(o1, &o2)) },
						witness: text.to_owned(),
						detail: format!("indentation {}\nfirst pass:\n{o1}second pass:\n{o2}", indent_name(indent)),
						cost,
						replay: replay.clone(),
					});
				}
				F::Declined => {
					outcome = "own-output-declined".into();
					rep.violation(Violation {
						// undecorated text: keyed by the token kinds of the first line the formatter printed
						class: if deco.is_some() { format!("the formatter declines its own output{ctx}") } else { match tokens(o1).into_iter().find(|t| t.kind.starts_with("ERROR")) {
							Some(t) => format!("the formatter declines its own output: first malformed token {}", t.kind),
							None => format!("the formatter declines its own output: `{}`", kinds_of_line(o1.lines().next().unwrap_or(""))),
						} },
						witness: text.to_owned(),
						detail: format!("indentation {}\nfirst pass:\n{o1}", indent_name(indent)),
						cost,
						replay: replay.clone(),
					});
				}
				F::Panic(p) => rep.violation(Violation {
					class: format!("formatter panic on its own output: {}", panic_class(&p)),
					witness: text.to_owned(),
					detail: format!("indentation {}\nfirst pass:\n{o1}panic {p}", indent_name(indent)),
					cost,
					replay: replay.clone(),
				}),
			}
		}
	}
	let nontrivial = matches!(f1, F::Ok(_)).then(|| fnv(format!("{indent}\x01{text}").as_bytes()));
	rep.case(nontrivial, fnv(outcome.as_bytes()));
}

fn part_crash(shard: &Shard, journal: &Journal, rep: &mut Report) {
	let mut spaces: Vec<(&str, Vec<&str>, &str, usize, &str)> = src_spaces(shard.tier).into_iter().map(|(n, a, j, l)| (n, a, j, l, "")).collect();
	spaces.push(("numbers", vec!["0", "1", "9", "_", ".", "e", "E", "+", "-", "x"], "", shard.tier.q(5, 6), ""));
	spaces.push(("textblock", vec!["|", "\n", " ", "\t", "a", "-"], "", shard.tier.q(6, 8), "|||"));
	let indents: &[u8] = if shard.tier == Tier::Quick { &[2] } else { &INDENTS };
	let mut base = 0u64;
	for (name, alpha, join, maxlen, prefix) in spaces {
		let n = for_each_seq(alpha.len(), 0, maxlen, |i, seq| {
			let idx = base + i;
			if !shard.mine(idx) {
				return;
			}
			let mut text: String = prefix.to_owned();
			text.push_str(&seq.iter().map(|s| alpha[*s]).collect::<Vec<_>>().join(join));
			journal.note(idx, "crash", &text);
			// thorough: the longest sequences with one indentation setting (layout options play no part in crashes on
			// malformed input; the fixpoint part crosses them with every valid program)
			let indents: &[u8] = if shard.tier == Tier::Thorough && seq.len() > 3 { &[2] } else { indents };
			for indent in indents {
				check_text(rep, &text, *indent, None, seq.len() as u32, true);
			}
			if idx % 100_003 == 0 {
				rep.sample(|| json!({"space": name, "text": text, "formatter": fmt(&text, 2).tag()}));
			}
		});
		base += n;
	}
	rep.count("crash_indexed", base / shard.n);
}

fn part_fixpoint(shard: &Shard, journal: &Journal, rep: &mut Report) {
	let cfg = GenCfg { syntax_only: true, objects: true };
	let k = shard.tier.q(3, 4);
	let kdeco = shard.tier.q(2, 3);
	let total = explore(k, |c, idx| {
		let e = gen_expr(c, &Scope::default(), cfg);
		if !shard.mine(idx) {
			return;
		}
		let text = print(&e);
		journal.note(idx, "fixpoint", &text);
		// the largest programs of the thorough tier with one indentation setting, everything below with all three
		let big = shard.tier == Tier::Thorough && c.used() >= k;
		let ind: &[u8] = if big { &[2] } else { &INDENTS };
		for indent in ind {
			check_text(rep, &text, *indent, None, c.used(), false);
		}
		if c.used() <= kdeco {
			let ind: &[u8] = if shard.tier == Tier::Thorough && c.used() >= kdeco { &[2] } else { &INDENTS };
			for d in decorations(&text, true) {
				journal.note(idx, "fixpoint", &d.text);
				for indent in ind.iter().copied() {
					check_text(rep, &d.text, indent, Some((d.what, &d.prev, &d.next)), c.used() + 1, false);
				}
			}
			// (the comment-at-every-boundary layouts are left to C19: here they would only merge the single-insertion classes)
			for (what, t) in decorate_all(&text).into_iter().take(1) {
				journal.note(idx, "fixpoint", &t);
				for indent in ind.iter().copied() {
					check_text(rep, &t, indent, Some((what, "<all>", "<all>")), c.used() + 2, false);
				}
			}
		}
		if idx % 20_011 == 0 {
			rep.sample(|| json!({"program": text, "formatted(2)": match fmt(&text, 2) { F::Ok(s) => s, o => o.tag().to_owned() }}));
		}
	});
	rep.count("generated_programs", total / shard.n);
	// the repository's own inputs
	let mut idx = total;
	for (name, text) in repo_inputs() {
		idx += 1;
		if !shard.mine(idx) {
			continue;
		}
		journal.note(idx, "fixpoint", &name);
		for indent in INDENTS {
			check_text(rep, &text, indent, None, 0, false);
		}
		rep.count("repo_inputs", 1);
	}
}

// --- the real executable ---------------------------------------------------------------------------

pub fn text_blocks() -> Vec<String> {
	let lines = ["a", "", "\tb", "  c", "  "];
	let mut out = Vec::new();
	for ind in [" ", "\t"] {
		for term in ["|||", "|||-"] {
			for n in 1..=2usize {
				crate::enumr::for_each_product(&vec![lines.len(); n], |_, c| {
					// the first line must carry text for the block to be valid
					if lines[c[0]].trim().is_empty() {
						return;
					}
					let mut t = format!("{term}\n");
					for i in c {
						if lines[*i].is_empty() {
							t.push('\n');
						} else {
							t.push_str(&format!("{ind}{}\n", lines[*i]));
						}
					}
					t.push_str("|||");
					out.push(t.clone());
					out.push(format!("{{ t: {t}, u: 1 }}"));
				});
			}
		}
	}
	out
}

fn fmt_bin() -> std::path::PathBuf {
	std::path::PathBuf::from(format!("{}/target/repo/debug/jrsonnet-fmt", crate::common::verif_root()))
}
const CLI_OPTS: [(&[&str], u8); 3] = [(&["--indent", "2"], 2), (&["--indent", "4"], 4), (&["--hard-tabs"], 0)];

fn cli_case(rep: &mut Report, dir: &std::path::Path, text: &str, what: &str) {
	use std::process::Command;
	let f1 = dir.join("in.jsonnet");
	let f2 = dir.join("out.jsonnet");
	std::fs::write(&f1, text).expect("write input");
	for (opts, indent) in CLI_OPTS {
		let replay = json!({"kind": "cli", "text": text, "what": what});
		let o = Command::new(fmt_bin()).env("RUST_BACKTRACE", "0").args(opts).arg(&f1).output().expect("spawn jrsonnet-fmt (built by ./check)");
		let stderr = String::from_utf8_lossy(&o.stderr).to_string();
		let code = o.status.code();
		let lib = fmt(text, indent);
		let mut outcome = format!("exit {code:?}");
		if code == Some(101) || code.is_none() || stderr.contains("panicked at") {
			let at = stderr.lines().find(|l| l.contains("panicked at")).unwrap_or("").to_owned();
			let msg = stderr.lines().skip_while(|l| !l.contains("panicked at")).nth(1).unwrap_or("").to_owned();
			rep.violation(Violation {
				class: format!("jrsonnet-fmt (dev profile) panics [{what}]: {}", panic_class(&format!("{}: {}", at.split("panicked at ").nth(1).unwrap_or("").rsplit('/').next().unwrap_or(""), msg))),
				witness: text.to_owned(),
				detail: format!("jrsonnet-fmt {} exits with {code:?}\n{}", opts.join(" "), stderr.lines().filter(|l| !l.starts_with("jrsonnet-fmt is a prototype") && !l.starts_with("It is not expected") && !l.trim().is_empty()).map(|l| if l.starts_with("thread '") { l.split(" panicked at ").nth(1).unwrap_or(l) } else { l }).take(4).collect::<Vec<_>>().join("\n")),
				cost: 1,
				replay: replay.clone(),
			});
			outcome = "panic".into();
		} else if code == Some(0) {
			let stdout = String::from_utf8_lossy(&o.stdout).to_string();
			match &lib {
				F::Ok(l) if *l == stdout => {}
				other => rep.violation(Violation {
					class: format!("MODEL: the pipeline function of the harness disagrees with the executable [{what}]"),
					witness: text.to_owned(),
					detail: format!("jrsonnet-fmt {} printed {stdout:?}, the harness pipeline gives {other:?}", opts.join(" ")),
					cost: 1,
					replay: replay.clone(),
				}),
			}
			std::fs::write(&f2, &stdout).expect("write output");
			let t = Command::new(fmt_bin()).env("RUST_BACKTRACE", "0").args(opts).arg("--test").arg(&f2).output().expect("spawn jrsonnet-fmt --test");
			if t.status.code() != Some(0) {
				outcome = "test-rejects".into();
				// the in-process fixed-point parts classify these; here only the agreement of the two is checked
				let lib_fixed = matches!(&lib, F::Ok(l) if fmt(l, indent) == F::Ok(l.clone()));
				if lib_fixed {
					rep.violation(Violation {
						class: format!("MODEL: `jrsonnet-fmt --test` rejects an output that the harness pipeline holds for a fixed point [{what}]"),
						witness: text.to_owned(),
						detail: format!("jrsonnet-fmt {} --test exits with {:?} on {stdout:?}", opts.join(" "), t.status.code()),
						cost: 1,
						replay: replay.clone(),
					});
				} else {
					check_text(rep, text, indent, None, 1, false);
				}
			}
		} else if matches!(lib, F::Ok(_)) {
			rep.violation(Violation {
				class: format!("MODEL: the executable declines what the harness pipeline formats [{what}]"),
				witness: text.to_owned(),
				detail: format!("jrsonnet-fmt {} exits with {code:?}: {stderr}", opts.join(" ")),
				cost: 1,
				replay,
			});
		}
		rep.case((code == Some(0)).then(|| fnv(format!("cli{indent}\x01{text}").as_bytes())), fnv(outcome.as_bytes()));
	}
}

fn part_cli(shard: &Shard, journal: &Journal, rep: &mut Report) {
	let dir = crate::common::scratch_dir().join(format!("c20-{}", shard.idx));
	std::fs::create_dir_all(&dir).expect("scratch");
	let mut inputs: Vec<(String, &'static str)> = text_blocks().into_iter().map(|t| (t, "text block")).collect();
	for s in ["\"a\nb\"", "'a\n\tb'", "@\"a\nb\"", "[\"a\nb\", 1]", "/* a\n\tb */ 1", "1 // a\tb\n", "{\n\ta: 1, // x\ty\n}"] {
		inputs.push((s.to_owned(), "token with a newline or tab inside"));
	}
	let cfg = GenCfg { syntax_only: true, objects: true };
	explore(shard.tier.q(1, 2), |c, _| {
		let e = gen_expr(c, &Scope::default(), cfg);
		inputs.push((print(&e), "generated program"));
	});
	for (_, text) in repo_inputs() {
		inputs.push((text, "repository input"));
	}
	for (idx, (text, what)) in inputs.iter().enumerate() {
		if !shard.mine(idx as u64) {
			continue;
		}
		journal.note(idx as u64, "cli", text);
		cli_case(rep, &dir, text, what);
	}
	rep.count("cli_inputs", inputs.len() as u64 / shard.n.max(1));
	let _ = std::fs::remove_dir_all(&dir);
	let _ = std::fs::remove_dir(crate::common::scratch_dir());
}

fn replay(v: &Value) -> (bool, String) {
	if v["kind"] == "cli" {
		let dir = crate::common::scratch_dir().join("c20-replay");
		std::fs::create_dir_all(&dir).expect("scratch");
		let mut rep = Report::new();
		cli_case(&mut rep, &dir, v["text"].as_str().unwrap_or(""), v["what"].as_str().unwrap_or("replay"));
		let _ = std::fs::remove_dir_all(&dir);
		let _ = std::fs::remove_dir(crate::common::scratch_dir());
		let mut out = format!("text: {:?}\n", v["text"].as_str().unwrap_or(""));
		for (c, (_, ws)) in &rep.violations {
			out.push_str(&format!("class: {c}\n{}\n", ws[0].detail));
		}
		return (!rep.violations.is_empty(), out);
	}
	let text = v["text"].as_str().or_else(|| v["case"].as_str()).unwrap_or("");
	let mut rep = Report::new();
	let indents: Vec<u8> = match v["indent"].as_u64() {
		Some(i) => vec![i as u8],
		None => INDENTS.to_vec(),
	};
	for i in indents {
		check_text(&mut rep, text, i, None, 0, v["validity"].as_bool().unwrap_or(true));
	}
	let mut out = format!("text: {text:?}\n");
	for (c, (_, ws)) in &rep.violations {
		out.push_str(&format!("class: {c}\n{}\n", ws[0].detail));
	}
	(!rep.violations.is_empty(), out)
}
