//! C01 — evaluation agrees with the language semantics (E1 generators + reference interpreter R1/R2),
//! crossed with parser selection and embedding position.

use jrsonnet_evaluator::tla::TlaArg;
use serde_json::{json, Value};

use crate::{
	ast::*,
	common::{fnv, CheckSpec, Journal, PartSpec, Report, Shard, Tier, Violation},
	enumr::{explore, for_each_product},
	gen::{gen_expr, GenCfg, Scope},
	imp::{Imp, Out, Parser},
	judge::{compare, shrink, skeleton, Mismatch},
	refi::{run_program, Verdict},
	Check,
};

pub const CHECK: Check = Check {
	id: "C01",
	spec,
	work,
	replay,
};

fn spec(tier: Tier) -> CheckSpec {
	let n = crate::common::ncpu();
	CheckSpec {
		property: "C01",
		level: "exploration",
		rule: "exhaustive differential against the reference interpreter R1/R2 (harness/src/refi.rs): \
			(ops) every unary operator x 23 operand values, every binary operator x 23^2 operand pairs, every operator pair `a op1 b op2 c` and `un a op b` over a 4-value operand set; \
			(gen) every program of the whole-grammar generator with <= k non-literal constructs (k=3 quick, 4 thorough); \
			(call) every signature of <= 3 parameters (no default / constant default / default referring to another parameter) x every call shape (positional prefix, named rest in both orders, missing, unknown, duplicate, too many) x tailstrict; \
			(arr) every base array/string/other x every index and slice from the boundary sets; (err) error/assert/if/short-circuit forms over every value type; (obj) every 3-layer inheritance chain on one field and every 2-layer chain on two fields over all 12 member kinds, as whole programs; (static) statically invalid programs with the offending construct in dead code. \
			Every program is run in 6 configurations: default parser, legacy parser, imported file, external-code variable, body of a top-level-argument function, top-level code argument. \
			non-trivial = distinct program text whose reference verdict is a value or an error (not Unsure)"
			.into(),
		assumptions: vec![
			"the reference interpreter is the trusted statement of the Jsonnet semantics; zones where the specification is silent or implementations legitimately differ textually (number-to-text of non-integers, bitwise operators outside the safe-integer range, string formatting, unmodelled std functions) are excluded from the value oracle by returning Unsure, and counted".into(),
			"programs with more than k constructs are not explored".into(),
		],
		parts: vec![
			PartSpec::new("ops", n, tier.q(900, 7200)),
			PartSpec::new("gen", n, tier.q(900, 14400)),
			PartSpec::new("call", n, tier.q(900, 7200)),
			PartSpec::new("misc", n.min(4), tier.q(900, 7200)),
		],
		// a dying worker (abort, native stack overflow) is attributed to the journalled program and the shard re-run without it
		totality: true,
		exhaustive: true,
		min_outcomes: 20,
	}
}

fn work(shard: &Shard, journal: &Journal, rep: &mut Report) {
	crate::common::limit_memory(6 << 30);
	match shard.part.as_str() {
		"ops" => part_ops(shard, journal, rep),
		"gen" => part_gen(shard, journal, rep),
		"call" => part_call(shard, journal, rep),
		"misc" => part_misc(shard, journal, rep),
		p => panic!("unknown part {p}"),
	}
}

pub const EMBEDDINGS: &[&str] = &["snippet", "legacy-parser", "import", "ext-code", "tla-body", "tla-code"];

/// holds an implementation instance that is renewed periodically (file/ext caches grow per State)
pub struct Runner {
	imp: Imp,
	uses: u32,
	serial: u64,
}
impl Runner {
	pub fn new() -> Self {
		Self { imp: Imp::new(), uses: 0, serial: 0 }
	}
	fn fresh(&mut self) -> &Imp {
		self.uses += 1;
		if self.uses > 2000 {
			self.imp = Imp::new();
			self.uses = 0;
		}
		&self.imp
	}
	pub fn run(&mut self, emb: &str, text: &str) -> Out {
		self.serial += 1;
		let serial = self.serial;
		let imp = self.fresh();
		let _ = imp.take_traces();
		match emb {
			"snippet" => imp.run_with(Parser::Default, text),
			"legacy-parser" => imp.run_with(Parser::Legacy, text),
			"import" => {
				let name = format!("f{serial}.jsonnet");
				imp.add_file(&name, text.as_bytes());
				let o = imp.run(&format!("import {}", quote(&name)));
				imp.files.borrow_mut().remove(&name);
				o
			}
			"ext-code" => {
				imp.ci.add_ext_code("v", text).expect("add ext code");
				imp.run("std.extVar(\"v\")")
			}
			"tla-body" => {
				let code = format!("function() {text}");
				imp.run_val(|| {
					let f = imp.eval(&code)?;
					imp.apply_tla(f, &[])
				})
			}
			"tla-code" => imp.run_val(|| {
				let f = imp.eval("function(a) a")?;
				imp.apply_tla(f, &[("a", TlaArg::InlineCode(text.to_owned()))])
			}),
			_ => panic!("embedding"),
		}
	}
	pub fn traces(&self) -> Vec<String> {
		self.imp.take_traces()
	}
}

fn verdict_key(v: &Verdict) -> u64 {
	match v {
		Verdict::Value(s) => fnv(format!("v{}", s.chars().take(24).collect::<String>()).as_bytes()),
		Verdict::Error(c, _) => fnv(format!("e{c}").as_bytes()),
		Verdict::Unsure(_) => 1,
	}
}

/// in dead-code embeddings `self`/`$` outside of an object stay errors, nothing else changes
pub fn judge_program(rep: &mut Report, runner: &mut Runner, family: &str, e: &Ex, cost: u32, key_hint: Option<String>) {
	let text = print(e);
	let (v, _) = run_program(e);
	let sure = !matches!(v, Verdict::Unsure(_));
	rep.case(sure.then(|| fnv(text.as_bytes())), verdict_key(&v));
	if !sure {
		rep.count("reference_unsure", 1);
	}
	let mut first: Option<(usize, Mismatch)> = None;
	let mut outs: Vec<Out> = Vec::new();
	for (i, emb) in EMBEDDINGS.iter().enumerate() {
		let o = runner.run(emb, &text);
		if let Some(m) = compare(&v, &o) {
			if first.is_none() {
				first = Some((i, m));
			}
		}
		outs.push(o);
	}
	// configurations must agree with each other even where the reference is unsure
	if first.is_none() {
		for (i, o) in outs.iter().enumerate().skip(1) {
			let same = match (&outs[0], o) {
				(Out::Json(a), Out::Json(b)) => crate::judge::json_eq(a, b),
				(Out::Err(a, _), Out::Err(b, _)) => a == b || (a == "ImportSyntaxError") == (b == "ImportSyntaxError"),
				(Out::Panic(_), Out::Panic(_)) => true,
				_ => false,
			};
			if !same {
				rep.violation(Violation {
					class: format!("{family} configurations disagree: snippet vs {} [{} vs {}]{}", EMBEDDINGS[i], kind(&outs[0]), kind(o), crate::judge::trigger(e).map(|t| format!(" [{t}]")).unwrap_or_default()),
					witness: text.clone(),
					detail: format!("snippet: {}\n{}: {}", outs[0].short(), EMBEDDINGS[i], o.short()),
					cost,
					replay: json!({"kind": "config", "text": text, "emb": EMBEDDINGS[i]}),
				});
				return;
			}
		}
		return;
	}
	let (ei, m) = first.unwrap();
	if m.is_weak() {
		rep.count(&format!("weak error-class difference: {}", m.key()), 1);
		return;
	}
	// shrink to a minimal program failing the same way in the same configuration
	let emb = EMBEDDINGS[ei];
	let mkey = m.key();
	let minimal = shrink(e, &mut |cand: &Ex| {
		let (cv, _) = run_program(cand);
		let o = runner.run(emb, &print(cand));
		matches!(compare(&cv, &o), Some(m2) if m2.key() == mkey)
	});
	let mtext = print(&minimal);
	let (mv, _) = run_program(&minimal);
	let mo = runner.run(emb, &mtext);
	let sk = match crate::judge::trigger_for(&mkey, &minimal) {
		Some(t) => t.to_owned(),
		None => key_hint.unwrap_or_else(|| skeleton(&minimal)),
	};
	rep.violation(Violation {
		class: format!("{mkey} [{sk}]"),
		witness: mtext.clone(),
		detail: format!("reference: {v:?} -> minimal {mv:?}\nimplementation ({emb}): {}\noriginal program: {text}", mo.short()),
		cost,
		replay: json!({"kind": "program", "text": mtext, "emb": emb, "ref": verdict_json(&mv), "expect_mismatch": mkey}),
	});
}
fn kind(o: &Out) -> String {
	match o {
		Out::Json(_) => "value".into(),
		Out::Err(c, _) => format!("error {c}"),
		Out::Panic(_) => "panic".into(),
	}
}

// --- operator matrix ---------------------------------------------------------------------------

pub fn operand_values() -> Vec<(&'static str, Ex)> {
	let o = |fs: Vec<Field>| obj(fs);
	vec![
		("null", Ex::Null),
		("true", Ex::True),
		("false", Ex::False),
		("zero", Ex::Num(0.0)),
		("negzero", num(-0.0)),
		("one", Ex::Num(1.0)),
		("two", Ex::Num(2.0)),
		("half", Ex::Num(0.5)),
		("neg3", num(-3.0)),
		("2^53", Ex::Num(9007199254740992.0)),
		("emptystr", s("")),
		("str-a", s("a")),
		("str-b", s("b")),
		("str-fmt", s("%d")),
		("emptyarr", Ex::Arr(vec![])),
		("arr1", Ex::Arr(vec![Ex::Num(1.0)])),
		("arr12", Ex::Arr(vec![Ex::Num(1.0), Ex::Num(2.0)])),
		("arr-a", Ex::Arr(vec![s("a")])),
		("emptyobj", o(vec![])),
		("obj-a", o(vec![field("a", Vis::Normal, false, Ex::Num(1.0))])),
		("obj-ab", o(vec![field("a", Vis::Normal, false, Ex::Num(1.0)), field("b", Vis::Hidden, false, Ex::Num(2.0))])),
		// same number of visible fields as obj-a, another visible name, and a hidden field named like obj-a's
		("obj-hidden-a-visible-b", o(vec![field("a", Vis::Hidden, false, Ex::Num(1.0)), field("b", Vis::Normal, false, Ex::Num(1.0))])),
		("arr-of-that", Ex::Arr(vec![o(vec![field("a", Vis::Hidden, false, Ex::Num(1.0)), field("b", Vis::Normal, false, Ex::Num(1.0))])])),
		("arr-obj-a", Ex::Arr(vec![o(vec![field("a", Vis::Normal, false, Ex::Num(1.0))])])),
		("func", func(&["x"], var("x"))),
		("error", Ex::Error(Box::new(s("e")))),
	]
}
fn ty(name: &str) -> &'static str {
	match name {
		"null" => "null",
		"true" | "false" => "boolean",
		"zero" | "negzero" | "one" | "two" | "half" | "neg3" | "2^53" => "number",
		"emptystr" | "str-a" | "str-b" | "str-fmt" => "string",
		"emptyarr" | "arr1" | "arr12" | "arr-a" => "array",
		"emptyobj" | "obj-a" | "obj-ab" => "object",
		"func" => "function",
		_ => "error",
	}
}

fn part_ops(shard: &Shard, journal: &Journal, rep: &mut Report) {
	let vals = operand_values();
	let mut runner = Runner::new();
	let mut idx = 0u64;
	// unary
	for op in UnOp::ALL {
		for (n, v) in &vals {
			if shard.mine(idx) {
				let e = un(op, v.clone());
				journal.note(idx, "ops", &print(&e));
				judge_program(rep, &mut runner, "ops", &e, 1, Some(format!("unary {} {}", op.sym(), ty(n))));
			}
			idx += 1;
		}
	}
	// binary
	for op in BinOp::ALL {
		for (ln, l) in &vals {
			for (rn, r) in &vals {
				if shard.mine(idx) {
					let e = bin(l.clone(), op, r.clone());
					journal.note(idx, "ops", &print(&e));
					judge_program(rep, &mut runner, "ops", &e, 2, Some(format!("binary {} {} {}", ty(ln), op.sym(), ty(rn))));
					if idx % 2003 == 0 {
						rep.sample(|| json!({"program": print(&e), "reference": format!("{:?}", run_program(&e).0)}));
					}
				}
				idx += 1;
			}
		}
	}
	// operator pairs: precedence and associativity end to end
	let small: Vec<Ex> = vec![Ex::Num(1.0), Ex::Num(2.0), Ex::Num(3.0), Ex::True];
	for op1 in BinOp::ALL {
		for op2 in BinOp::ALL {
			for_each_product(&[4, 4, 4], |_, c| {
				if shard.mine(idx) {
					// both groupings are generated; the printer must add parentheses only for the non-default one
					for left_first in [true, false] {
						let e = if left_first {
							bin(bin(small[c[0]].clone(), op1, small[c[1]].clone()), op2, small[c[2]].clone())
						} else {
							bin(small[c[0]].clone(), op1, bin(small[c[1]].clone(), op2, small[c[2]].clone()))
						};
						judge_program(rep, &mut runner, "ops", &e, 3, Some(format!("operator pair prec({}) prec({})", op1.prec(), op2.prec())));
					}
				}
				idx += 1;
			});
		}
	}
	for uop in UnOp::ALL {
		for op in BinOp::ALL {
			for_each_product(&[4, 4], |_, c| {
				if shard.mine(idx) {
					let e1 = bin(un(uop, small[c[0]].clone()), op, small[c[1]].clone());
					let e2 = un(uop, bin(small[c[0]].clone(), op, small[c[1]].clone()));
					for e in [e1, e2] {
						judge_program(rep, &mut runner, "ops", &e, 3, Some(format!("unary {} with binary prec({})", uop.sym(), op.prec())));
					}
				}
				idx += 1;
			});
		}
	}
	rep.count("ops_indexed", idx / shard.n);
}

// --- whole grammar -----------------------------------------------------------------------------

fn part_gen(shard: &Shard, journal: &Journal, rep: &mut Report) {
	let cfg = GenCfg { syntax_only: false, objects: true };
	let mut runner = Runner::new();
	let budget = shard.tier.q(3, 4);
	let total = explore(budget, |c, idx| {
		let e = gen_expr(c, &Scope::default(), cfg);
		if !shard.mine(idx) {
			return;
		}
		journal.note(idx, "gen", &print(&e));
		judge_program(rep, &mut runner, "gen", &e, c.used(), None);
		if idx % 30_011 == 0 {
			rep.sample(|| json!({"program": print(&e), "reference": format!("{:?}", run_program(&e).0)}));
		}
	});
	rep.count("gen_programs", total / shard.n);
}

// --- call binding -------------------------------------------------------------------------------

fn part_call(shard: &Shard, journal: &Journal, rep: &mut Report) {
	let mut runner = Runner::new();
	let mut idx = 0u64;
	let names = ["p0", "p1", "p2"];
	for n in 0..=3usize {
		// parameter kinds: 0 none, 1 constant default, 2 default referring to the next parameter (cyclically)
		let kinds_dims = vec![3usize; n];
		let mut kind_sets: Vec<Vec<usize>> = Vec::new();
		if n == 0 {
			kind_sets.push(vec![]);
		} else {
			for_each_product(&kinds_dims, |_, k| kind_sets.push(k.to_vec()));
		}
		for kinds in &kind_sets {
			let params: Vec<Param> = (0..n)
				.map(|i| Param {
					name: names[i].into(),
					default: match kinds[i] {
						0 => None,
						1 => Some(Ex::Num(10.0 + i as f64)),
						_ => Some(bin(var(names[(i + 1) % n.max(1)]), BinOp::Add, Ex::Num(100.0))),
					},
				})
				.collect();
			let body = Ex::Arr((0..n).map(|i| var(names[i])).collect());
			// call shapes
			for k in 0..=n + 1 {
				// k positional arguments; each remaining parameter: 0 missing, 1 named
				let rest = n.saturating_sub(k);
				let dims = vec![2usize; rest];
				let mut subsets: Vec<Vec<usize>> = Vec::new();
				if rest == 0 {
					subsets.push(vec![]);
				} else {
					for_each_product(&dims, |_, s| subsets.push(s.to_vec()));
				}
				for sub in &subsets {
					for reversed in [false, true] {
						for extra in 0..3 {
							for ts in [false, true] {
								if shard.mine(idx) {
									let pos: Vec<Ex> = (0..k).map(|i| Ex::Num(1.0 + i as f64)).collect();
									let mut named: Vec<(String, Ex)> = Vec::new();
									for (j, s) in sub.iter().enumerate() {
										if *s == 1 {
											named.push((names[k + j].into(), Ex::Num(1.0 + (k + j) as f64)));
										}
									}
									if reversed {
										named.reverse();
									}
									match extra {
										1 => named.push(("z".into(), Ex::Num(9.0))),
										2 if n > 0 => named.push((names[0].into(), Ex::Num(9.0))),
										_ => {}
									}
									let f = Ex::Fn(params.clone(), Box::new(body.clone()));
									let e1 = Ex::Apply(Box::new(f), pos.clone(), named.clone(), ts);
									// the same through a local function binding
									let e2 = Ex::Local(vec![Bind::Func("f".into(), params.clone(), body.clone())], Box::new(Ex::Apply(Box::new(var("f")), pos, named, ts)));
									journal.note(idx, "call", &print(&e1));
									for e in [e1, e2] {
										judge_program(rep, &mut runner, "call", &e, (n + k) as u32, None);
									}
									if idx % 701 == 0 {
										rep.sample(|| json!({"call_program": print(&Ex::Null)}));
									}
								}
								idx += 1;
							}
						}
					}
				}
			}
		}
	}
	rep.count("call_indexed", idx / shard.n);
}

// --- arrays / errors / static -------------------------------------------------------------------

fn part_misc(shard: &Shard, journal: &Journal, rep: &mut Report) {
	let mut runner = Runner::new();
	let mut case_no = 0u64;
	let mut run = |rep: &mut Report, fam: &str, e: Ex, cost: u32| {
		if shard.mine(case_no) {
			journal.note(case_no, fam, &print(&e));
			judge_program(rep, &mut runner, fam, &e, cost, None);
			if case_no % 499 == 0 {
				rep.sample(|| json!({"family": fam, "program": print(&e)}));
			}
		}
		case_no += 1;
	};
	let n = |x: f64| num(x);
	let xv = || var("x");
	// (arr) bases
	let bases: Vec<Ex> = vec![
		Ex::Arr(vec![n(10.0), n(20.0), n(30.0)]),
		Ex::Arr(vec![]),
		s("aé😀"),
		s(""),
		Ex::ArrComp(Box::new(bin(xv(), BinOp::Mul, n(2.0))), vec![Comp::For("x".into(), Ex::Arr(vec![n(1.0), n(2.0), n(3.0)]))]),
		Ex::ArrComp(Box::new(xv()), vec![Comp::For("x".into(), Ex::Arr(vec![n(1.0), n(2.0), n(3.0)])), Comp::If(bin(xv(), BinOp::Ne, n(2.0)))]),
		Ex::ArrComp(Box::new(Ex::Arr(vec![xv(), var("y")])), vec![Comp::For("x".into(), Ex::Arr(vec![n(1.0), n(2.0)])), Comp::For("y".into(), Ex::Arr(vec![s("a"), s("b")]))]),
		Ex::ArrComp(Box::new(xv()), vec![Comp::For("x".into(), s("ab"))]),
		Ex::ArrComp(Box::new(Ex::Error(Box::new(s("lazy")))), vec![Comp::For("x".into(), Ex::Arr(vec![n(1.0), n(2.0)]))]),
		Ex::ArrComp(Box::new(xv()), vec![Comp::For("x".into(), Ex::Arr(vec![n(1.0), n(2.0)])), Comp::If(n(1.0))]),
		obj(vec![field("a", Vis::Normal, false, n(1.0))]),
		Ex::Null,
		n(5.0),
		Ex::Arr(vec![Ex::Error(Box::new(s("e0"))), n(1.0)]),
	];
	let indices: Vec<Ex> = vec![n(-1.0), n(0.0), n(1.0), n(2.0), n(3.0), n(0.5), s("a"), Ex::Null, Ex::True, Ex::Arr(vec![n(0.0)]), n(1e10)];
	for b in &bases {
		for i in &indices {
			run(rep, "arr", idx_local(b.clone(), |bv| idx(bv, i.clone())), 2);
		}
		run(rep, "arr", stdcall("length", vec![b.clone()]), 1);
		let bounds: Vec<Option<Ex>> = vec![None, Some(n(-1.0)), Some(n(0.0)), Some(n(1.0)), Some(n(2.0)), Some(n(9.0))];
		let steps: Vec<Option<Ex>> = vec![None, Some(n(1.0)), Some(n(2.0)), Some(n(0.0)), Some(n(-1.0)), Some(s("s"))];
		for s0 in &bounds {
			for s1 in &bounds {
				for s2 in &steps {
					let e = Ex::Slice(Box::new(b.clone()), s0.clone().map(Box::new), s1.clone().map(Box::new), s2.clone().map(Box::new));
					run(rep, "arr", e, 3);
				}
			}
		}
	}
	// (err)
	let vals = operand_values();
	for (_, v) in &vals {
		run(rep, "err", Ex::Error(Box::new(v.clone())), 1);
		run(rep, "err", ife(v.clone(), n(1.0), n(2.0)), 1);
		run(rep, "err", Ex::If(Box::new(v.clone()), Box::new(n(1.0)), None), 1);
		run(rep, "err", Ex::Assert(Box::new(v.clone()), None, Box::new(n(1.0))), 1);
		run(rep, "err", Ex::Assert(Box::new(Ex::False), Some(Box::new(v.clone())), Box::new(n(1.0))), 1);
		run(rep, "err", Ex::Assert(Box::new(Ex::True), Some(Box::new(v.clone())), Box::new(n(1.0))), 1);
		run(rep, "err", Ex::Arr(vec![n(1.0), v.clone()]), 1);
		run(rep, "err", obj(vec![field("a", Vis::Normal, false, v.clone())]), 1);
		run(rep, "err", obj(vec![field("a", Vis::Hidden, false, v.clone())]), 1);
		run(rep, "err", obj(vec![Field { name: FName::Dyn(v.clone()), plus: false, params: None, vis: Vis::Normal, value: n(1.0) }]), 1);
		run(rep, "err", call(v.clone(), vec![n(1.0)]), 1);
		run(rep, "err", Ex::ArrComp(Box::new(var("x")), vec![Comp::For("x".into(), v.clone())]), 1);
		run(rep, "err", Ex::ObjExt(Box::new(v.clone()), ObjBody::Members { locals: vec![], asserts: vec![], fields: vec![field("a", Vis::Normal, false, n(1.0))] }), 1);
		for (_, w) in &vals {
			// dead sides of short-circuit operators and conditionals
			run(rep, "err", bin(v.clone(), BinOp::And, w.clone()), 2);
			run(rep, "err", bin(v.clone(), BinOp::Or, w.clone()), 2);
		}
		// unused bindings / arguments / elements holding the value
		run(rep, "err", local1("x", v.clone(), n(1.0)), 1);
		run(rep, "err", call(func(&["x"], n(1.0)), vec![v.clone()]), 1);
		run(rep, "err", Ex::Apply(Box::new(func(&["x"], n(1.0))), vec![v.clone()], vec![], true), 1);
		run(rep, "err", idx(Ex::Arr(vec![v.clone(), n(7.0)]), n(1.0)), 1);
		run(rep, "err", dot(obj(vec![field("a", Vis::Normal, false, v.clone()), field("b", Vis::Normal, false, n(7.0))]), "b"), 1);
	}
	// (obj) inheritance chains of 3 layers on one field name and of 2 layers on two names (delegated to the C02 chain
	// builder), judged as whole programs: manifestation and a read of `a`
	{
		use crate::c02::{build, Chain, LayerD, KINDS_ALL};
		let k = KINDS_ALL.len();
		let mut chains: Vec<Chain> = Vec::new();
		crate::enumr::for_each_product(&[k, k, k, 2], |_, c| {
			chains.push(Chain {
				nnames: 2,
				dup_last: 0,
				mask_after: None,
				layers: (0..3).map(|li| LayerD { kinds: vec![KINDS_ALL[c[li]], 0], assert_kind: 0, ext: li > 0 && c[3] == 1, mask_before: None, mask_self: None }).collect(),
			});
		});
		crate::enumr::for_each_product(&[k, k, k, k], |_, c| {
			chains.push(Chain {
				nnames: 2,
				dup_last: 0,
				mask_after: None,
				layers: (0..2).map(|li| LayerD { kinds: vec![KINDS_ALL[c[li * 2]], KINDS_ALL[c[li * 2 + 1]]], assert_kind: 0, ext: false, mask_before: None, mask_self: None }).collect(),
			});
		});
		for ch in chains {
			let e = build(&ch);
			run(rep, "obj", e.clone(), 3);
			run(rep, "obj", dot(e, "a"), 3);
		}
	}
	// (static) statically invalid programs: the specification rejects them even when the offending construct is dead
	let dead = |bad: Ex| local1("unused", bad, n(1.0));
	for (what, e) in [
		("unbound variable", dead(var("nope"))),
		("unbound variable in function body", dead(func(&["a"], var("nope")))),
		("self outside object", dead(Ex::SelfE)),
		("$ outside object", dead(Ex::Dollar)),
		("super outside object", dead(dot(Ex::Super, "a"))),
		("duplicate local", Ex::Local(vec![Bind::Val("a".into(), n(1.0)), Bind::Val("a".into(), n(2.0))], Box::new(n(1.0)))),
		("duplicate parameter", dead(Ex::Fn(vec![Param { name: "a".into(), default: None }, Param { name: "a".into(), default: None }], Box::new(n(1.0))))),
		("duplicate field", dead(obj(vec![field("a", Vis::Normal, false, n(1.0)), field("a", Vis::Normal, false, n(2.0))]))),
		("duplicate object local", dead(Ex::Obj(ObjBody::Members { locals: vec![Bind::Val("a".into(), n(1.0)), Bind::Val("a".into(), n(2.0))], asserts: vec![], fields: vec![] }))),
	] {
		if shard.mine(case_no) {
			let text = print(&e);
			journal.note(case_no, "static", &text);
			let mut outs = Vec::new();
			for emb in EMBEDDINGS {
				outs.push(runner.run(emb, &text));
			}
			rep.case(Some(fnv(text.as_bytes())), fnv(what.as_bytes()));
			if let Some(o) = outs.iter().find(|o| !o.is_err()) {
				rep.violation(Violation {
					class: format!("static error not reported: {what}"),
					witness: text.clone(),
					detail: format!("the language rejects this program statically ({what}); implementation: {}", o.short()),
					cost: 1,
					replay: json!({"kind": "static", "text": text, "what": what}),
				});
			}
		}
		case_no += 1;
	}
	rep.count("misc_indexed", case_no / shard.n);
}

fn idx_local(base: Ex, f: impl FnOnce(Ex) -> Ex) -> Ex {
	// bind the base once so that it is a variable in the indexing expression
	local1("b", base, f(var("b")))
}

pub fn verdict_json(v: &Verdict) -> Value {
	match v {
		Verdict::Value(s) => json!({"kind": "value", "value": s}),
		Verdict::Error(c, m) => json!({"kind": "error", "class": c, "msg": m}),
		Verdict::Unsure(m) => json!({"kind": "unsure", "msg": m}),
	}
}
pub fn verdict_from_json(v: &Value) -> Verdict {
	match v["kind"].as_str().unwrap_or("") {
		"value" => Verdict::Value(v["value"].as_str().unwrap_or("").to_owned()),
		"error" => {
			let c = v["class"].as_str().unwrap_or("");
			// map back to the static class names
			let classes = ["runtime", "assert", "type", "bounds", "lookup", "div", "overflow", "recursion", "call", "unbound", "static", "manifest", "import"];
			let cs = classes.iter().find(|x| **x == c).copied().unwrap_or("runtime");
			Verdict::Error(cs, v["msg"].as_str().unwrap_or("").to_owned())
		}
		_ => Verdict::Unsure(v["msg"].as_str().unwrap_or("").to_owned()),
	}
}

fn replay(v: &Value) -> (bool, String) {
	let text = v["text"].as_str().unwrap_or("");
	let emb = v["emb"].as_str().unwrap_or("snippet");
	let mut runner = Runner::new();
	match v["kind"].as_str().unwrap_or("") {
		"static" => {
			let outs: Vec<Out> = EMBEDDINGS.iter().map(|e| runner.run(e, text)).collect();
			let bad = outs.iter().any(|o| !o.is_err());
			(bad, format!("program: {text}\nspecification: static error ({})\nimplementation: {}", v["what"], outs[0].short()))
		}
		"config" => {
			let o0 = runner.run("snippet", text);
			let o = runner.run(emb, text);
			let same = match (&o0, &o) {
				(Out::Json(a), Out::Json(b)) => crate::judge::json_eq(a, b),
				(Out::Err(a, _), Out::Err(b, _)) => a == b || (a == "ImportSyntaxError") == (b == "ImportSyntaxError"),
				_ => false,
			};
			(!same, format!("program: {text}\nsnippet: {}\n{emb}: {}", o0.short(), o.short()))
		}
		_ => {
			let reference = verdict_from_json(&v["ref"]);
			let o = runner.run(emb, text);
			let m = compare(&reference, &o);
			(matches!(&m, Some(x) if !x.is_weak()), format!("program: {text}\nreference (harness/src/refi.rs): {reference:?}\nimplementation ({emb}): {}\nmismatch: {:?}", o.short(), m.map(|x| x.key())))
		}
	}
}
