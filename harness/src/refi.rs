//! R1/R2 — the reference interpreter: a deliberately boring big-step, call-by-need evaluator of the
//! harness AST following the Jsonnet specification.  Shares no code with /repo.
//!
//! Outcomes: a value, an error with a coarse class, or *Unsure* (the reference declines to judge: the
//! specification is silent / implementations are known to differ textually / the step budget ran out).

use std::{
	cell::{Cell, RefCell},
	collections::{BTreeMap, HashMap},
	rc::Rc,
};

use crate::ast::*;

#[derive(Clone, Debug, PartialEq)]
pub struct RErr {
	pub class: &'static str,
	pub msg: String,
}
pub type R<T> = Result<T, RErr>;
pub fn err<T>(class: &'static str, msg: impl Into<String>) -> R<T> {
	Err(RErr { class, msg: msg.into() })
}
/// classes: runtime (explicit `error`), assert, type, bounds, lookup (no such field), div, recursion,
/// call (argument binding), unbound, manifest, import, budget, unsure

pub type Th<'a> = Rc<Thunk<'a>>;

pub enum ThState<'a> {
	Lazy(Env<'a>, &'a Ex),
	/// field body bound to an object context
	Native(Box<dyn FnOnce(&mut Interp<'a>) -> R<Val<'a>> + 'a>),
	Running,
	Done(Val<'a>),
	Failed(RErr),
}
pub struct Thunk<'a> {
	pub st: RefCell<ThState<'a>>,
}
pub fn done<'a>(v: Val<'a>) -> Th<'a> {
	Rc::new(Thunk { st: RefCell::new(ThState::Done(v)) })
}
pub fn lazy<'a>(env: &Env<'a>, e: &'a Ex) -> Th<'a> {
	// literals need no thunk
	Rc::new(Thunk { st: RefCell::new(ThState::Lazy(env.clone(), e)) })
}
pub fn native<'a>(f: impl FnOnce(&mut Interp<'a>) -> R<Val<'a>> + 'a) -> Th<'a> {
	Rc::new(Thunk { st: RefCell::new(ThState::Native(Box::new(f))) })
}

#[derive(Clone)]
pub enum Val<'a> {
	Null,
	Bool(bool),
	Num(f64),
	Str(Rc<str>),
	Arr(Rc<Vec<Th<'a>>>),
	Obj(Rc<ObjVal<'a>>),
	Fn(Rc<Func<'a>>),
}
impl<'a> Val<'a> {
	pub fn type_name(&self) -> &'static str {
		match self {
			Val::Null => "null",
			Val::Bool(_) => "boolean",
			Val::Num(_) => "number",
			Val::Str(_) => "string",
			Val::Arr(_) => "array",
			Val::Obj(_) => "object",
			Val::Fn(_) => "function",
		}
	}
	pub fn str(s: impl AsRef<str>) -> Self {
		Val::Str(Rc::from(s.as_ref()))
	}
	pub fn arr(items: Vec<Val<'a>>) -> Self {
		Val::Arr(Rc::new(items.into_iter().map(done).collect()))
	}
}

pub enum Func<'a> {
	Closure { env: Env<'a>, params: &'a [Param], body: &'a Ex },
	/// `std.<name>`
	Builtin(&'static str),
	/// harness-provided native function (used by reference definitions of higher-order std functions)
	Native(Box<dyn Fn(&mut Interp<'a>, Vec<Th<'a>>) -> R<Val<'a>> + 'a>, usize),
}

#[derive(Clone)]
pub struct ObjCtx<'a> {
	pub this: Rc<ObjVal<'a>>,
	/// index of the layer the running member belongs to (super = layers below it)
	pub layer: usize,
	pub dollar: Rc<ObjVal<'a>>,
}

pub enum EnvNode<'a> {
	Nil,
	Var(&'a str, Th<'a>, Env<'a>),
	Obj(ObjCtx<'a>, Env<'a>),
}
pub type Env<'a> = Rc<EnvNode<'a>>;
pub fn env_nil<'a>() -> Env<'a> {
	Rc::new(EnvNode::Nil)
}
pub fn env_bind<'a>(env: &Env<'a>, name: &'a str, th: Th<'a>) -> Env<'a> {
	Rc::new(EnvNode::Var(name, th, env.clone()))
}
fn env_lookup<'a>(env: &Env<'a>, name: &str) -> Option<Th<'a>> {
	let mut cur = env;
	loop {
		match &**cur {
			EnvNode::Nil => return None,
			EnvNode::Var(n, th, next) => {
				if *n == name {
					return Some(th.clone());
				}
				cur = next;
			}
			EnvNode::Obj(_, next) => cur = next,
		}
	}
}
fn env_objctx<'a>(env: &Env<'a>) -> Option<ObjCtx<'a>> {
	let mut cur = env;
	loop {
		match &**cur {
			EnvNode::Nil => return None,
			EnvNode::Var(_, _, next) => cur = next,
			EnvNode::Obj(c, _) => return Some(c.clone()),
		}
	}
}

pub struct FieldDef<'a> {
	pub name: String,
	pub vis: Vis,
	pub plus: bool,
	pub body: FieldBody<'a>,
}
pub enum FieldBody<'a> {
	Expr(&'a Ex),
	Method(&'a [Param], &'a Ex),
	/// value independent of self (objects built by reference std functions)
	Value(Th<'a>),
}
pub enum Layer<'a> {
	Fields {
		fields: Vec<FieldDef<'a>>,
		env: Env<'a>,
		locals: &'a [Bind],
		asserts: &'a [(Ex, Option<Ex>)],
		/// per-object cache of the layer's local environment (keyed by object address)
		id: usize,
	},
	/// std.objectRemoveKey(below, name): hides `name` as defined by the `span` layers directly below (the removed
	/// object's own layers), not by whatever the result is later added on top of
	Mask(String, usize),
}
pub struct ObjVal<'a> {
	pub layers: Vec<Rc<Layer<'a>>>,
	pub cache: RefCell<HashMap<(String, usize), Th<'a>>>,
	pub local_envs: RefCell<HashMap<usize, Env<'a>>>,
	/// 0 not run, 1 running, 2 done
	pub asserts: Cell<u8>,
}
impl<'a> ObjVal<'a> {
	pub fn new(layers: Vec<Rc<Layer<'a>>>) -> Rc<Self> {
		Rc::new(Self { layers, cache: RefCell::new(HashMap::new()), local_envs: RefCell::new(HashMap::new()), asserts: Cell::new(0) })
	}
	/// (visible?, defining top layer) per field name, ascending
	pub fn field_table(&self, upto: usize) -> BTreeMap<String, bool> {
		// walk bottom-up: masks delete, definitions merge visibility
		let mut t: BTreeMap<String, bool> = BTreeMap::new();
		for (i, l) in self.layers[..upto].iter().enumerate() {
			match &**l {
				Layer::Mask(n, span) => {
					// state of the field as given by the layers under the removed object
					match self.field_table(i.saturating_sub(*span)).get(n).copied() {
						Some(v) => t.insert(n.clone(), v),
						None => t.remove(n),
					};
				}
				Layer::Fields { fields, .. } => {
					for f in fields {
						let prev = t.get(&f.name).copied();
						let v = match f.vis {
							Vis::Normal => prev.unwrap_or(true),
							Vis::Hidden => false,
							Vis::Unhide => true,
						};
						t.insert(f.name.clone(), v);
					}
				}
			}
		}
		t
	}
	pub fn has(&self, name: &str, include_hidden: bool) -> bool {
		match self.field_table(self.layers.len()).get(name) {
			Some(v) => include_hidden || *v,
			None => false,
		}
	}
	pub fn visible_fields(&self) -> Vec<String> {
		self.field_table(self.layers.len()).into_iter().filter(|(_, v)| *v).map(|(k, _)| k).collect()
	}
	pub fn all_fields(&self) -> Vec<String> {
		self.field_table(self.layers.len()).into_keys().collect()
	}
}

pub struct Interp<'a> {
	pub steps: u64,
	pub budget: u64,
	pub depth: u32,
	pub max_depth: u32,
	pub traces: Vec<String>,
	pub files: HashMap<String, &'a Ex>,
	pub file_strs: HashMap<String, Vec<u8>>,
	pub file_cache: HashMap<String, Th<'a>>,
	/// import path spelling -> canonical file name (several spellings / symlinks of one file)
	pub file_alias: HashMap<String, String>,
	pub ext: HashMap<String, Th<'a>>,
	next_layer_id: usize,
	/// strict mode flags for zones where implementations legitimately differ -> Unsure
	pub unsure_on_float_tostring: bool,
}

pub fn is_safe_int(n: f64) -> bool {
	n == n.trunc() && n.abs() <= 9007199254740991.0
}

impl<'a> Interp<'a> {
	pub fn new() -> Self {
		Self {
			steps: 0,
			budget: 200_000,
			depth: 0,
			max_depth: 120,
			traces: Vec::new(),
			files: HashMap::new(),
			file_strs: HashMap::new(),
			file_cache: HashMap::new(),
			file_alias: HashMap::new(),
			ext: HashMap::new(),
			next_layer_id: 1,
			unsure_on_float_tostring: true,
		}
	}

	fn tick(&mut self) -> R<()> {
		self.steps += 1;
		if self.steps > self.budget {
			return err("budget", "step budget exhausted");
		}
		Ok(())
	}

	pub fn force(&mut self, th: &Th<'a>) -> R<Val<'a>> {
		let st = std::mem::replace(&mut *th.st.borrow_mut(), ThState::Running);
		let r = match st {
			ThState::Done(v) => {
				*th.st.borrow_mut() = ThState::Done(v.clone());
				return Ok(v);
			}
			ThState::Failed(e) => {
				*th.st.borrow_mut() = ThState::Failed(e.clone());
				return Err(e);
			}
			ThState::Running => {
				return err("recursion", "value depends on itself");
			}
			ThState::Lazy(env, e) => self.eval(&env, e),
			ThState::Native(f) => f(self),
		};
		match &r {
			Ok(v) => *th.st.borrow_mut() = ThState::Done(v.clone()),
			// budget exhaustion / unsure are not facts about the program: do not memoise as failures of the language
			Err(e) => *th.st.borrow_mut() = ThState::Failed(e.clone()),
		}
		r
	}

	pub fn eval(&mut self, env: &Env<'a>, e: &'a Ex) -> R<Val<'a>> {
		self.tick()?;
		self.depth += 1;
		if self.depth > self.max_depth {
			self.depth -= 1;
			return err("budget", "reference recursion depth exceeded");
		}
		let r = self.eval_inner(env, e);
		self.depth -= 1;
		r
	}

	fn eval_inner(&mut self, env: &Env<'a>, e: &'a Ex) -> R<Val<'a>> {
		match e {
			Ex::Null => Ok(Val::Null),
			Ex::True => Ok(Val::Bool(true)),
			Ex::False => Ok(Val::Bool(false)),
			Ex::Num(n) => Ok(Val::Num(*n)),
			Ex::Str(s) => Ok(Val::str(s)),
			Ex::SelfE => match env_objctx(env) {
				Some(c) => Ok(Val::Obj(c.this)),
				None => err("unbound", "self outside of object"),
			},
			Ex::Dollar => match env_objctx(env) {
				Some(c) => Ok(Val::Obj(c.dollar)),
				None => err("unbound", "$ outside of object"),
			},
			Ex::Super => err("unbound", "standalone super"),
			Ex::Var(v) => match env_lookup(env, v) {
				Some(th) => self.force(&th),
				None if v == "std" => Ok(Val::Fn(Rc::new(Func::Builtin("<std>")))),
				None => err("unbound", format!("unknown variable {v}")),
			},
			Ex::Arr(xs) => Ok(Val::Arr(Rc::new(xs.iter().map(|x| lazy(env, x)).collect()))),
			Ex::ArrComp(body, specs) => {
				let mut out = Vec::new();
				self.comp(env, specs, &mut |_me, env2| {
					out.push(lazy(&env2, body));
					Ok(())
				})?;
				Ok(Val::Arr(Rc::new(out)))
			}
			Ex::Obj(b) => {
				let layer = self.make_layer(env, b)?;
				Ok(Val::Obj(ObjVal::new(vec![layer])))
			}
			Ex::ObjExt(base, b) => {
				let bv = self.eval(env, base)?;
				let Val::Obj(bo) = bv else {
					return err("type", format!("object extension of {}", bv.type_name()));
				};
				let layer = self.make_layer(env, b)?;
				let mut layers = bo.layers.clone();
				layers.push(layer);
				Ok(Val::Obj(ObjVal::new(layers)))
			}
			Ex::Un(op, x) => {
				let v = self.eval(env, x)?;
				self.unary(*op, v)
			}
			Ex::Bin(l, op, r) => self.binary(env, l, *op, r),
			Ex::Assert(c, m, rest) => {
				self.check_assert(env, c, m.as_deref())?;
				self.eval(env, rest)
			}
			Ex::Local(bs, body) => {
				let env2 = self.bind_locals(env, bs)?;
				self.eval(&env2, body)
			}
			Ex::Import(kind, path) => self.import(*kind, path),
			Ex::Error(x) => {
				let v = self.eval(env, x)?;
				let msg = match &v {
					Val::Str(s) => s.to_string(),
					other => self.to_string(other)?,
				};
				err("runtime", msg)
			}
			Ex::Apply(f, pos, named, ts) => {
				let fv = self.eval(env, f)?;
				let pos_th: Vec<Th<'a>> = pos.iter().map(|a| lazy(env, a)).collect();
				let named_th: Vec<(&'a str, Th<'a>)> = named.iter().map(|(n, a)| (n.as_str(), lazy(env, a))).collect();
				if *ts {
					for t in pos_th.iter().chain(named_th.iter().map(|x| &x.1)) {
						self.force(t)?;
					}
				}
				self.call(&fv, pos_th, named_th)
			}
			Ex::Index(a, i) => {
				if let Ex::Super = &**a {
					let Some(c) = env_objctx(env) else {
						return err("unbound", "super outside of object");
					};
					let iv = self.eval(env, i)?;
					let Val::Str(name) = iv else {
						return err("type", "super index must be a string");
					};
					return self.obj_get_from(&c.this, &name, c.layer)?.ok_or_else(|| RErr { class: "lookup", msg: format!("no such field in super: {name}") });
				}
				let av = self.eval(env, a)?;
				let iv = self.eval(env, i)?;
				self.index(&av, &iv)
			}
			Ex::Fn(params, body) => Ok(Val::Fn(Rc::new(Func::Closure { env: env.clone(), params, body }))),
			Ex::If(c, t, el) => {
				let cv = self.eval(env, c)?;
				match cv {
					Val::Bool(true) => self.eval(env, t),
					Val::Bool(false) => match el {
						Some(el) => self.eval(env, el),
						None => Ok(Val::Null),
					},
					other => err("type", format!("if condition is {}", other.type_name())),
				}
			}
			Ex::Slice(a, s0, s1, s2) => {
				let av = self.eval(env, a)?;
				let mut parts = Vec::new();
				for p in [s0, s1, s2] {
					parts.push(match p {
						Some(x) => self.eval(env, x)?,
						None => Val::Null,
					});
				}
				self.slice(&av, &parts[0], &parts[1], &parts[2])
			}
		}
	}

	fn check_assert(&mut self, env: &Env<'a>, c: &'a Ex, m: Option<&'a Ex>) -> R<()> {
		let cv = self.eval(env, c)?;
		match cv {
			Val::Bool(true) => Ok(()),
			Val::Bool(false) => {
				let msg = match m {
					Some(m) => {
						let mv = self.eval(env, m)?;
						match &mv {
							Val::Str(s) => s.to_string(),
							other => self.to_string(other)?,
						}
					}
					None => "assertion failed".into(),
				};
				err("assert", msg)
			}
			other => err("type", format!("assert condition is {}", other.type_name())),
		}
	}

	fn comp(&mut self, env: &Env<'a>, specs: &'a [Comp], f: &mut dyn FnMut(&mut Self, Env<'a>) -> R<()>) -> R<()> {
		match specs.split_first() {
			None => f(self, env.clone()),
			Some((Comp::For(v, over), rest)) => {
				let ov = self.eval(env, over)?;
				let Val::Arr(items) = ov else {
					return err("type", format!("for over {}", ov.type_name()));
				};
				for it in items.iter() {
					let env2 = env_bind(env, v, it.clone());
					self.comp(&env2, rest, f)?;
				}
				Ok(())
			}
			Some((Comp::If(c), rest)) => {
				let cv = self.eval(env, c)?;
				match cv {
					Val::Bool(true) => self.comp(env, rest, f),
					Val::Bool(false) => Ok(()),
					other => err("type", format!("comprehension condition is {}", other.type_name())),
				}
			}
		}
	}

	pub fn bind_locals(&mut self, env: &Env<'a>, bs: &'a [Bind]) -> R<Env<'a>> {
		// duplicate names are a static error
		for (i, b) in bs.iter().enumerate() {
			if bs[..i].iter().any(|o| o.name() == b.name()) {
				return err("static", format!("duplicate local {}", b.name()));
			}
		}
		// recursive let: create placeholders, then tie the knot
		let mut env2 = env.clone();
		let mut cells: Vec<Th<'a>> = Vec::new();
		for b in bs {
			let th = Rc::new(Thunk { st: RefCell::new(ThState::Running) });
			env2 = env_bind(&env2, b.name(), th.clone());
			cells.push(th);
		}
		for (b, th) in bs.iter().zip(&cells) {
			match b {
				Bind::Val(_, v) => *th.st.borrow_mut() = ThState::Lazy(env2.clone(), v),
				Bind::Func(_, ps, body) => *th.st.borrow_mut() = ThState::Done(Val::Fn(Rc::new(Func::Closure { env: env2.clone(), params: ps, body }))),
			}
		}
		Ok(env2)
	}

	// --- objects ---------------------------------------------------------------------------------

	fn make_layer(&mut self, env: &Env<'a>, b: &'a ObjBody) -> R<Rc<Layer<'a>>> {
		let id = self.next_layer_id;
		self.next_layer_id += 1;
		match b {
			ObjBody::Members { locals, asserts, fields } => {
				let mut defs: Vec<FieldDef<'a>> = Vec::new();
				for f in fields {
					let name = match &f.name {
						FName::Fixed(n) => n.clone(),
						FName::Dyn(e) => match self.eval(env, e)? {
							Val::Str(s) => s.to_string(),
							Val::Null => continue,
							other => return err("type", format!("field name is {}", other.type_name())),
						},
					};
					if defs.iter().any(|d| d.name == name) {
						return err("static", format!("duplicate field {name}"));
					}
					let body = match &f.params {
						Some(ps) => FieldBody::Method(ps, &f.value),
						None => FieldBody::Expr(&f.value),
					};
					defs.push(FieldDef { name, vis: f.vis, plus: f.plus, body });
				}
				Ok(Rc::new(Layer::Fields { fields: defs, env: env.clone(), locals, asserts, id }))
			}
			ObjBody::Comp { locals, field, specs } => {
				// each iteration has its own environment: one single-field layer cannot express that, so build
				// one Fields layer whose members carry their own env through FieldBody::Value thunks bound lazily
				// to self.  Comprehension fields may refer to self, so evaluate bodies through a native thunk.
				let mut items: Vec<(String, Env<'a>)> = Vec::new();
				let FName::Dyn(kexpr) = &field.name else {
					return err("static", "object comprehension needs a computed field name");
				};
				self.comp(env, specs, &mut |me, env2| {
					match me.eval(&env2, kexpr)? {
						Val::Str(s) => {
							if items.iter().any(|(n, _)| *n == *s) {
								return err("static", format!("duplicate field {s}"));
							}
							items.push((s.to_string(), env2));
						}
						Val::Null => {}
						other => return err("type", format!("field name is {}", other.type_name())),
					}
					Ok(())
				})?;
				// represent as a stack of micro layers is wrong (super semantics); instead one layer with per-field envs
				let defs = items
					.into_iter()
					.map(|(name, fenv)| FieldDef { name, vis: field.vis, plus: field.plus, body: FieldBody::Value(Rc::new(Thunk { st: RefCell::new(ThState::Lazy(fenv, &field.value)) })) })
					.collect();
				Ok(Rc::new(Layer::Fields { fields: defs, env: env.clone(), locals, asserts: &[], id }))
			}
		}
	}

	/// environment for members of layer `li` of `this`: creation env + object context + object locals
	fn member_env(&mut self, this: &Rc<ObjVal<'a>>, li: usize) -> R<Env<'a>> {
		let Layer::Fields { env, locals, .. } = &*this.layers[li] else {
			unreachable!()
		};
		// keyed by the *position* of the layer in this object: one layer value may occur at several positions
		if let Some(e) = this.local_envs.borrow().get(&li) {
			return Ok(e.clone());
		}
		let dollar = env_objctx(env).map_or_else(|| this.clone(), |c| c.dollar);
		let e1: Env<'a> = Rc::new(EnvNode::Obj(ObjCtx { this: this.clone(), layer: li, dollar }, env.clone()));
		let e2 = self.bind_locals(&e1, locals)?;
		this.local_envs.borrow_mut().insert(li, e2.clone());
		Ok(e2)
	}

	pub fn run_asserts(&mut self, this: &Rc<ObjVal<'a>>) -> R<()> {
		if this.asserts.get() != 0 {
			return Ok(());
		}
		this.asserts.set(1);
		for li in 0..this.layers.len() {
			if let Layer::Fields { asserts, .. } = &*this.layers[li] {
				if asserts.is_empty() {
					continue;
				}
				let env = match self.member_env(this, li) {
					Ok(e) => e,
					Err(e) => {
						this.asserts.set(0);
						return Err(e);
					}
				};
				for (c, m) in asserts.iter() {
					if let Err(e) = self.check_assert(&env, c, m.as_ref()) {
						this.asserts.set(0);
						return Err(e);
					}
				}
			}
		}
		this.asserts.set(2);
		Ok(())
	}

	/// read field `name` looking at layers below `upto` (upto = layers.len() for a normal read)
	pub fn obj_get_from(&mut self, this: &Rc<ObjVal<'a>>, name: &str, upto: usize) -> R<Option<Val<'a>>> {
		self.run_asserts(this)?;
		let key = (name.to_owned(), upto);
		if let Some(th) = this.cache.borrow().get(&key).cloned() {
			return self.force(&th).map(Some);
		}
		// find the defining layer
		let mut li = upto;
		let mut found: Option<usize> = None;
		while li > 0 {
			li -= 1;
			match &*this.layers[li] {
				Layer::Mask(n, span) if n == name => {
					// skip the removed object's layers, go on below them
					li = li.saturating_sub(*span);
				}
				Layer::Mask(..) => {}
				Layer::Fields { fields, .. } => {
					if fields.iter().any(|f| f.name == name) {
						found = Some(li);
						break;
					}
				}
			}
		}
		let Some(li) = found else {
			return Ok(None);
		};
		let this2 = this.clone();
		let name2 = name.to_owned();
		let th = native(move |me: &mut Interp<'a>| me.eval_field(&this2, &name2, li));
		this.cache.borrow_mut().insert(key, th.clone());
		self.force(&th).map(Some)
	}

	fn eval_field(&mut self, this: &Rc<ObjVal<'a>>, name: &str, li: usize) -> R<Val<'a>> {
		let Layer::Fields { fields, .. } = &*this.layers[li] else {
			unreachable!()
		};
		let fd = fields.iter().find(|f| f.name == name).expect("field exists");
		let plus = fd.plus;
		let value = match &fd.body {
			FieldBody::Expr(e) => {
				let env = self.member_env(this, li)?;
				self.eval(&env, e)?
			}
			FieldBody::Method(ps, body) => {
				let env = self.member_env(this, li)?;
				Val::Fn(Rc::new(Func::Closure { env, params: ps, body }))
			}
			FieldBody::Value(th) => {
				// comprehension member: its own env, extended with the object context
				let st = std::mem::replace(&mut *th.st.borrow_mut(), ThState::Running);
				match st {
					ThState::Lazy(fenv, e) => {
						let dollar = env_objctx(&fenv).map_or_else(|| this.clone(), |c| c.dollar);
						let e1: Env<'a> = Rc::new(EnvNode::Obj(ObjCtx { this: this.clone(), layer: li, dollar }, fenv.clone()));
						*th.st.borrow_mut() = ThState::Lazy(fenv, e);
						let Layer::Fields { locals, .. } = &*this.layers[li] else { unreachable!() };
						let e2 = self.bind_locals(&e1, locals)?;
						self.eval(&e2, e)?
					}
					other => {
						*th.st.borrow_mut() = other;
						self.force(th)?
					}
				}
			}
		};
		if plus {
			// combine with the inherited value, if any
			match self.obj_get_from(this, name, li)? {
				Some(sup) => self.add(sup, value),
				None => Ok(value),
			}
		} else {
			Ok(value)
		}
	}

	pub fn obj_get(&mut self, o: &Rc<ObjVal<'a>>, name: &str) -> R<Option<Val<'a>>> {
		self.obj_get_from(o, name, o.layers.len())
	}

	// --- operators --------------------------------------------------------------------------------

	pub fn num(&self, n: f64) -> R<Val<'a>> {
		if n.is_finite() {
			Ok(Val::Num(n))
		} else {
			err("overflow", "result is not finite")
		}
	}

	fn unary(&mut self, op: UnOp, v: Val<'a>) -> R<Val<'a>> {
		match (op, &v) {
			(UnOp::Plus, Val::Num(n)) => Ok(Val::Num(*n)),
			(UnOp::Minus, Val::Num(n)) => Ok(Val::Num(-*n)),
			(UnOp::Not, Val::Bool(b)) => Ok(Val::Bool(!*b)),
			(UnOp::BitNot, Val::Num(n)) => {
				if !is_safe_int(*n) {
					return err("unsure", "bitwise not of a non-safe-integer");
				}
				Ok(Val::Num(!(*n as i64) as f64))
			}
			_ => err("type", format!("unary {} on {}", op.sym(), v.type_name())),
		}
	}

	pub fn add(&mut self, l: Val<'a>, r: Val<'a>) -> R<Val<'a>> {
		match (&l, &r) {
			(Val::Num(a), Val::Num(b)) => self.num(a + b),
			(Val::Str(a), Val::Str(b)) => Ok(Val::str(format!("{a}{b}"))),
			(Val::Str(a), other) => {
				let s = self.to_string(other)?;
				Ok(Val::str(format!("{a}{s}")))
			}
			(other, Val::Str(b)) => {
				let s = self.to_string(other)?;
				Ok(Val::str(format!("{s}{b}")))
			}
			(Val::Arr(a), Val::Arr(b)) => {
				let mut v = (**a).clone();
				v.extend(b.iter().cloned());
				Ok(Val::Arr(Rc::new(v)))
			}
			(Val::Obj(a), Val::Obj(b)) => {
				let mut layers = a.layers.clone();
				layers.extend(b.layers.iter().cloned());
				Ok(Val::Obj(ObjVal::new(layers)))
			}
			_ => err("type", format!("{} + {}", l.type_name(), r.type_name())),
		}
	}

	fn binary(&mut self, env: &Env<'a>, l: &'a Ex, op: BinOp, r: &'a Ex) -> R<Val<'a>> {
		// short-circuit forms
		match op {
			BinOp::And | BinOp::Or => {
				let lv = self.eval(env, l)?;
				let Val::Bool(lb) = lv else {
					return err("type", format!("{} on {}", op.sym(), lv.type_name()));
				};
				if (op == BinOp::And && !lb) || (op == BinOp::Or && lb) {
					return Ok(Val::Bool(lb));
				}
				let rv = self.eval(env, r)?;
				return match rv {
					Val::Bool(b) => Ok(Val::Bool(b)),
					other => err("type", format!("{} on {}", op.sym(), other.type_name())),
				};
			}
			BinOp::In => {
				if let Ex::Super = r {
					let lv = self.eval(env, l)?;
					let Val::Str(name) = lv else {
						return err("type", "in super needs a string");
					};
					let Some(c) = env_objctx(env) else {
						return err("unbound", "super outside of object");
					};
					return Ok(Val::Bool(c.this.field_table(c.layer).contains_key(&*name)));
				}
			}
			_ => {}
		}
		let lv = self.eval(env, l)?;
		let rv = self.eval(env, r)?;
		self.binary_vals(lv, op, rv)
	}

	pub fn binary_vals(&mut self, lv: Val<'a>, op: BinOp, rv: Val<'a>) -> R<Val<'a>> {
		use BinOp::*;
		match op {
			Add => self.add(lv, rv),
			Sub | Mul | Div => match (&lv, &rv) {
				(Val::Num(a), Val::Num(b)) => match op {
					Sub => self.num(a - b),
					Mul => self.num(a * b),
					_ => {
						if *b == 0.0 {
							err("div", "division by zero")
						} else {
							self.num(a / b)
						}
					}
				},
				_ => err("type", format!("{} {} {}", lv.type_name(), op.sym(), rv.type_name())),
			},
			Mod => match (&lv, &rv) {
				(Val::Num(a), Val::Num(b)) => {
					if *b == 0.0 {
						err("div", "modulo by zero")
					} else {
						self.num(a % b)
					}
				}
				(Val::Str(_), _) => err("unsure", "string formatting is checked by C12"),
				_ => err("type", format!("{} % {}", lv.type_name(), rv.type_name())),
			},
			Shl | Shr | BitAnd | BitOr | BitXor => match (&lv, &rv) {
				(Val::Num(a), Val::Num(b)) => {
					if !is_safe_int(*a) || !is_safe_int(*b) {
						return err("unsure", "bitwise operator on a non-safe-integer");
					}
					let (a, b) = (*a as i64, *b as i64);
					match op {
						BitAnd => Ok(Val::Num((a & b) as f64)),
						BitOr => Ok(Val::Num((a | b) as f64)),
						BitXor => Ok(Val::Num((a ^ b) as f64)),
						Shl | Shr => {
							if b < 0 {
								return err("type", "negative shift");
							}
							if b >= 64 {
								return err("unsure", "shift by >= 64");
							}
							if op == Shr {
								Ok(Val::Num((a >> b) as f64))
							} else {
								let r = (a as i128) << b;
								if r.abs() > (1i128 << 53) {
									return err("unsure", "left shift beyond the safe range");
								}
								Ok(Val::Num(r as f64))
							}
						}
						_ => unreachable!(),
					}
				}
				_ => err("type", format!("{} {} {}", lv.type_name(), op.sym(), rv.type_name())),
			},
			Lt | Gt | Le | Ge => {
				let o = self.compare(&lv, &rv)?;
				Ok(Val::Bool(match op {
					Lt => o == std::cmp::Ordering::Less,
					Gt => o == std::cmp::Ordering::Greater,
					Le => o != std::cmp::Ordering::Greater,
					_ => o != std::cmp::Ordering::Less,
				}))
			}
			Eq => Ok(Val::Bool(self.equals(&lv, &rv)?)),
			Ne => Ok(Val::Bool(!self.equals(&lv, &rv)?)),
			In => match (&lv, &rv) {
				(Val::Str(name), Val::Obj(o)) => Ok(Val::Bool(o.has(name, true))),
				_ => err("type", format!("{} in {}", lv.type_name(), rv.type_name())),
			},
			And | Or => unreachable!(),
		}
	}

	pub fn compare(&mut self, a: &Val<'a>, b: &Val<'a>) -> R<std::cmp::Ordering> {
		self.tick()?;
		self.depth += 1;
		if self.depth > self.max_depth {
			self.depth -= 1;
			return err("budget", "reference comparison depth exceeded");
		}
		let r = self.compare_inner(a, b);
		self.depth -= 1;
		r
	}
	fn compare_inner(&mut self, a: &Val<'a>, b: &Val<'a>) -> R<std::cmp::Ordering> {
		match (a, b) {
			(Val::Num(x), Val::Num(y)) => Ok(x.partial_cmp(y).expect("finite")),
			(Val::Str(x), Val::Str(y)) => Ok(x.chars().cmp(y.chars())),
			(Val::Arr(x), Val::Arr(y)) => {
				for (p, q) in x.iter().zip(y.iter()) {
					let pv = self.force(p)?;
					let qv = self.force(q)?;
					let o = self.compare(&pv, &qv)?;
					if o != std::cmp::Ordering::Equal {
						return Ok(o);
					}
				}
				Ok(x.len().cmp(&y.len()))
			}
			_ => err("type", format!("cannot compare {} with {}", a.type_name(), b.type_name())),
		}
	}

	pub fn equals(&mut self, a: &Val<'a>, b: &Val<'a>) -> R<bool> {
		self.tick()?;
		self.depth += 1;
		if self.depth > self.max_depth {
			self.depth -= 1;
			return err("budget", "reference comparison depth exceeded");
		}
		let r = self.equals_inner(a, b);
		self.depth -= 1;
		r
	}
	fn equals_inner(&mut self, a: &Val<'a>, b: &Val<'a>) -> R<bool> {
		match (a, b) {
			(Val::Null, Val::Null) => Ok(true),
			(Val::Bool(x), Val::Bool(y)) => Ok(x == y),
			(Val::Num(x), Val::Num(y)) => Ok(x == y),
			(Val::Str(x), Val::Str(y)) => Ok(x == y),
			(Val::Arr(x), Val::Arr(y)) => {
				if x.len() != y.len() {
					return Ok(false);
				}
				for (p, q) in x.iter().zip(y.iter()) {
					let pv = self.force(p)?;
					let qv = self.force(q)?;
					if !self.equals(&pv, &qv)? {
						return Ok(false);
					}
				}
				Ok(true)
			}
			(Val::Obj(x), Val::Obj(y)) => {
				// equality is not manifestation: assertions only run through the field reads below
				let fx = x.visible_fields();
				if fx != y.visible_fields() {
					return Ok(false);
				}
				for f in fx {
					let p = self.obj_get(x, &f)?.expect("listed");
					let q = self.obj_get(y, &f)?.expect("listed");
					if !self.equals(&p, &q)? {
						return Ok(false);
					}
				}
				Ok(true)
			}
			(Val::Fn(_), Val::Fn(_)) => err("type", "cannot test equality of functions"),
			_ => Ok(false),
		}
	}

	pub fn index(&mut self, a: &Val<'a>, i: &Val<'a>) -> R<Val<'a>> {
		match (a, i) {
			(Val::Arr(xs), Val::Num(n)) => {
				if *n != n.trunc() {
					return err("type", "fractional array index");
				}
				if *n < 0.0 || *n >= xs.len() as f64 {
					return err("bounds", format!("index {n} out of bounds for length {}", xs.len()));
				}
				let th = xs[*n as usize].clone();
				self.force(&th)
			}
			(Val::Str(s), Val::Num(n)) => {
				if *n != n.trunc() {
					return err("type", "fractional string index");
				}
				let len = s.chars().count();
				if *n < 0.0 || *n >= len as f64 {
					return err("bounds", format!("string index {n} out of bounds for length {len}"));
				}
				Ok(Val::str(s.chars().nth(*n as usize).unwrap().to_string()))
			}
			(Val::Obj(o), Val::Str(name)) => match self.obj_get(o, name)? {
				Some(v) => Ok(v),
				None => err("lookup", format!("no such field {name}")),
			},
			(Val::Fn(f), Val::Str(name)) if matches!(&**f, Func::Builtin("<std>")) => match crate::refstd::lookup(name) {
				Some(n) => Ok(Val::Fn(Rc::new(Func::Builtin(n)))),
				None => err("unsure", format!("std.{name} is not modelled")),
			},
			_ => err("type", format!("cannot index {} with {}", a.type_name(), i.type_name())),
		}
	}

	pub fn slice(&mut self, a: &Val<'a>, s0: &Val<'a>, s1: &Val<'a>, s2: &Val<'a>) -> R<Val<'a>> {
		let len = match a {
			Val::Arr(x) => x.len(),
			Val::Str(s) => s.chars().count(),
			_ => return err("type", format!("cannot slice {}", a.type_name())),
		} as f64;
		let getn = |v: &Val<'a>, what: &str| -> R<Option<f64>> {
			match v {
				Val::Null => Ok(None),
				Val::Num(n) => {
					if *n != n.trunc() {
						Err(RErr { class: "unsure", msg: format!("fractional slice {what}") })
					} else {
						Ok(Some(*n))
					}
				}
				other => Err(RErr { class: "type", msg: format!("slice {what} is {}", other.type_name()) }),
			}
		};
		let from = match getn(s0, "index")? {
			None => 0.0,
			Some(n) if n < 0.0 => (len + n).max(0.0),
			Some(n) => n,
		};
		let to = match getn(s1, "end")? {
			None => len,
			Some(n) if n < 0.0 => len + n,
			Some(n) => n,
		};
		let step = match getn(s2, "step")? {
			None => 1.0,
			Some(n) if n <= 0.0 => return err("type", "slice step must be positive"),
			Some(n) => n,
		};
		let to = to.min(len);
		let mut idxs = Vec::new();
		let mut cur = from;
		while cur < to {
			idxs.push(cur as usize);
			cur += step;
		}
		match a {
			Val::Arr(x) => Ok(Val::Arr(Rc::new(idxs.into_iter().map(|i| x[i].clone()).collect()))),
			Val::Str(s) => {
				let cs: Vec<char> = s.chars().collect();
				Ok(Val::str(idxs.into_iter().map(|i| cs[i]).collect::<String>()))
			}
			_ => unreachable!(),
		}
	}

	// --- calls ------------------------------------------------------------------------------------

	pub fn call(&mut self, f: &Val<'a>, pos: Vec<Th<'a>>, named: Vec<(&'a str, Th<'a>)>) -> R<Val<'a>> {
		self.tick()?;
		let Val::Fn(func) = f else {
			return err("type", format!("calling {}", f.type_name()));
		};
		match &**func {
			Func::Closure { env, params, body } => {
				if pos.len() > params.len() {
					return err("call", "too many arguments");
				}
				let mut slots: Vec<Option<Th<'a>>> = vec![None; params.len()];
				for (i, a) in pos.into_iter().enumerate() {
					slots[i] = Some(a);
				}
				for (n, a) in named {
					let Some(pi) = params.iter().position(|p| p.name == n) else {
						return err("call", format!("unknown parameter {n}"));
					};
					if slots[pi].is_some() {
						return err("call", format!("parameter {n} bound twice"));
					}
					slots[pi] = Some(a);
				}
				// callee scope: all parameters visible to the defaults
				let mut env2 = env.clone();
				let mut cells: Vec<(usize, Th<'a>)> = Vec::new();
				for (i, p) in params.iter().enumerate() {
					let th = match &slots[i] {
						Some(a) => a.clone(),
						None => {
							if p.default.is_none() {
								return err("call", format!("missing argument {}", p.name));
							}
							let th = Rc::new(Thunk { st: RefCell::new(ThState::Running) });
							cells.push((i, th.clone()));
							th
						}
					};
					env2 = env_bind(&env2, &p.name, th);
				}
				for (i, th) in cells {
					*th.st.borrow_mut() = ThState::Lazy(env2.clone(), params[i].default.as_ref().unwrap());
				}
				self.eval(&env2, body)
			}
			Func::Builtin(name) => crate::refstd::call(self, name, pos, named),
			Func::Native(f, arity) => {
				if pos.len() != *arity || !named.is_empty() {
					return err("call", "native arity");
				}
				f(self, pos)
			}
		}
	}
	pub fn call_vals(&mut self, f: &Val<'a>, args: Vec<Val<'a>>) -> R<Val<'a>> {
		self.call(f, args.into_iter().map(done).collect(), vec![])
	}

	// --- imports ----------------------------------------------------------------------------------

	fn import(&mut self, kind: ImportKind, path: &str) -> R<Val<'a>> {
		let canon = self.file_alias.get(path).cloned();
		let path = canon.as_deref().unwrap_or(path);
		match kind {
			ImportKind::Code => {
				if let Some(th) = self.file_cache.get(path).cloned() {
					return self.force(&th);
				}
				let Some(e) = self.files.get(path).copied() else {
					return err("import", format!("no file {path}"));
				};
				let th = lazy(&env_nil(), e);
				self.file_cache.insert(path.to_owned(), th.clone());
				self.force(&th)
			}
			ImportKind::Str => match self.file_strs.get(path) {
				Some(b) => match std::str::from_utf8(b) {
					Ok(s) => Ok(Val::str(s)),
					Err(_) => err("import", "not utf-8"),
				},
				None => err("import", format!("no file {path}")),
			},
			ImportKind::Bin => match self.file_strs.get(path) {
				Some(b) => Ok(Val::arr(b.iter().map(|x| Val::Num(f64::from(*x))).collect())),
				None => err("import", format!("no file {path}")),
			},
		}
	}

	// --- text -------------------------------------------------------------------------------------

	pub fn num_to_string(&self, n: f64) -> R<String> {
		if n == n.trunc() && n.abs() < 1e15 {
			Ok(format!("{n:.0}"))
		} else if self.unsure_on_float_tostring {
			err("unsure", "textual form of non-integral or huge numbers differs between implementations")
		} else {
			Ok(format!("{n}"))
		}
	}

	/// std.toString
	pub fn to_string(&mut self, v: &Val<'a>) -> R<String> {
		match v {
			Val::Str(s) => Ok(s.to_string()),
			other => {
				let mut out = String::new();
				self.manifest_to(other, &mut out, true)?;
				Ok(out)
			}
		}
	}

	/// JSON text: `tostring` style = single line with ", " / ": " separators
	pub fn manifest_to(&mut self, v: &Val<'a>, out: &mut String, tostring: bool) -> R<()> {
		self.tick()?;
		self.depth += 1;
		if self.depth > self.max_depth {
			self.depth -= 1;
			// cyclic or very deep value: the reference declines (implementations report a stack limit error)
			return err("budget", "reference manifestation depth exceeded");
		}
		let r = self.manifest_inner(v, out, tostring);
		self.depth -= 1;
		r
	}
	fn manifest_inner(&mut self, v: &Val<'a>, out: &mut String, tostring: bool) -> R<()> {
		match v {
			Val::Null => out.push_str("null"),
			Val::Bool(b) => out.push_str(if *b { "true" } else { "false" }),
			Val::Num(n) => {
				if tostring {
					out.push_str(&self.num_to_string(*n)?);
				} else if *n == n.trunc() && n.abs() < 1e15 {
					out.push_str(&format!("{n:.0}"));
				} else {
					out.push_str(&format!("{n:?}"));
				}
			}
			Val::Str(s) => out.push_str(&json_quote(s)),
			Val::Arr(xs) => {
				out.push('[');
				for (i, x) in xs.iter().enumerate() {
					if i > 0 {
						out.push_str(if tostring { ", " } else { "," });
					}
					let xv = self.force(x)?;
					self.manifest_to(&xv, out, tostring)?;
				}
				if xs.is_empty() && tostring {
					out.push(' ');
				}
				out.push(']');
			}
			Val::Obj(o) => {
				self.run_asserts(o)?;
				out.push('{');
				let fs = o.visible_fields();
				for (i, f) in fs.iter().enumerate() {
					if i > 0 {
						out.push_str(if tostring { ", " } else { "," });
					}
					out.push_str(&json_quote(f));
					out.push_str(if tostring { ": " } else { ":" });
					let fv = self.obj_get(o, f)?.expect("listed");
					self.manifest_to(&fv, out, tostring)?;
				}
				if fs.is_empty() && tostring {
					out.push(' ');
				}
				out.push('}');
			}
			Val::Fn(_) => return err("manifest", "cannot manifest a function"),
		}
		Ok(())
	}

	/// evaluate and manifest to minified JSON
	pub fn run(&mut self, e: &'a Ex) -> R<String> {
		let v = self.eval(&env_nil(), e)?;
		let mut out = String::new();
		self.manifest_to(&v, &mut out, false)?;
		Ok(out)
	}
}

pub fn json_quote(x: &str) -> String {
	let mut o = String::with_capacity(x.len() + 2);
	o.push('"');
	for c in x.chars() {
		match c {
			'"' => o.push_str("\\\""),
			'\\' => o.push_str("\\\\"),
			'\n' => o.push_str("\\n"),
			'\r' => o.push_str("\\r"),
			'\t' => o.push_str("\\t"),
			'\u{8}' => o.push_str("\\b"),
			'\u{c}' => o.push_str("\\f"),
			c if (c as u32) < 0x20 => {
				o.push_str(&format!("\\u{:04x}", c as u32));
			}
			c => o.push(c),
		}
	}
	o.push('"');
	o
}

/// Reference verdict in comparable form
#[derive(Clone, Debug, PartialEq)]
pub enum Verdict {
	Value(String),
	Error(&'static str, String),
	Unsure(String),
}
pub fn verdict(r: R<String>) -> Verdict {
	match r {
		Ok(s) => Verdict::Value(s),
		Err(e) if e.class == "unsure" || e.class == "budget" => Verdict::Unsure(format!("{}: {}", e.class, e.msg)),
		Err(e) => Verdict::Error(e.class, e.msg),
	}
}
pub fn run_program(e: &Ex) -> (Verdict, Vec<String>) {
	let mut it = Interp::new();
	let r = it.run(e);
	(verdict(r), std::mem::take(&mut it.traces))
}
