//! Enumeration engines: E1 choice-sequence explorer (deviation bounded) and E3 sequence enumerator.

/// E1: a generator asks for decisions; the explorer enumerates every complete choice sequence with at
/// most `budget` non-zero (non-default) choices, in depth-first order.
pub struct Chooser {
	choices: Vec<u32>,
	arity: Vec<u32>,
	pos: usize,
	budget: u32,
	used: u32,
}
impl Chooser {
	fn new(budget: u32) -> Self {
		Self {
			choices: Vec::new(),
			arity: Vec::new(),
			pos: 0,
			budget,
			used: 0,
		}
	}
	/// returns a value in 0..n; 0 is the default (free), any other value costs one deviation
	pub fn choose(&mut self, n: u32) -> u32 {
		self.choose_cost(n, 1)
	}
	/// non-zero alternatives cost `cost` deviations each
	pub fn choose_cost(&mut self, n: u32, cost: u32) -> u32 {
		assert!(n >= 1);
		let n_eff = if self.used + cost > self.budget { 1 } else { n };
		let c = if self.pos < self.choices.len() {
			let c = self.choices[self.pos];
			// replaying a prefix: the generator must be deterministic
			assert!(c < n_eff && self.arity[self.pos] == n_eff, "E1: generator diverged while replaying a prefix (machinery error)");
			c
		} else {
			self.choices.push(0);
			self.arity.push(n_eff);
			0
		};
		self.pos += 1;
		if c != 0 {
			self.used += cost;
		}
		c
	}
	/// free choice: does not consume budget (used for dimensions that are not "deviations", e.g. which operator)
	pub fn pick(&mut self, n: u32) -> u32 {
		self.choose_cost(n, 0)
	}
	pub fn flag(&mut self) -> bool {
		self.choose(2) == 1
	}
	pub fn used(&self) -> u32 {
		self.used
	}
	pub fn remaining(&self) -> u32 {
		self.budget - self.used
	}
	pub fn sequence(&self) -> &[u32] {
		&self.choices[..self.pos]
	}
	fn advance(&mut self) -> bool {
		// drop unused tail (cannot happen in a deterministic generator, but keep it sound)
		self.choices.truncate(self.pos);
		self.arity.truncate(self.pos);
		while let Some(last) = self.choices.last_mut() {
			let ar = *self.arity.last().unwrap();
			if *last + 1 < ar {
				*last += 1;
				self.pos = 0;
				self.used = 0;
				return true;
			}
			self.choices.pop();
			self.arity.pop();
		}
		false
	}
}

/// Runs `f` once per complete choice sequence. `f` receives the chooser and the running case index.
pub fn explore(budget: u32, mut f: impl FnMut(&mut Chooser, u64)) -> u64 {
	let mut c = Chooser::new(budget);
	let mut idx = 0u64;
	loop {
		c.pos = 0;
		c.used = 0;
		f(&mut c, idx);
		idx += 1;
		if !c.advance() {
			break;
		}
	}
	idx
}

/// E3: all sequences of length 0..=maxlen over an alphabet of k symbols, as an odometer.
/// Calls `f(index, symbols)`; indexes are dense and stable (shorter sequences first).
pub fn for_each_seq(k: usize, minlen: usize, maxlen: usize, mut f: impl FnMut(u64, &[usize])) -> u64 {
	let mut idx = 0u64;
	for len in minlen..=maxlen {
		let mut cur = vec![0usize; len];
		loop {
			f(idx, &cur);
			idx += 1;
			// increment
			let mut p = len;
			loop {
				if p == 0 {
					break;
				}
				p -= 1;
				cur[p] += 1;
				if cur[p] < k {
					break;
				}
				cur[p] = 0;
				if p == 0 {
					p = usize::MAX;
					break;
				}
			}
			if len == 0 || p == usize::MAX {
				break;
			}
		}
	}
	idx
}

/// Cartesian product over per-dimension sizes; `f(index, coords)`
pub fn for_each_product(dims: &[usize], mut f: impl FnMut(u64, &[usize])) -> u64 {
	if dims.iter().any(|d| *d == 0) {
		return 0;
	}
	let mut cur = vec![0usize; dims.len()];
	let mut idx = 0u64;
	loop {
		f(idx, &cur);
		idx += 1;
		let mut p = dims.len();
		loop {
			if p == 0 {
				return idx;
			}
			p -= 1;
			cur[p] += 1;
			if cur[p] < dims[p] {
				break;
			}
			cur[p] = 0;
		}
	}
}

#[cfg(test)]
mod tests {
	use super::*;
	#[test]
	fn seqs() {
		let mut n = 0;
		for_each_seq(3, 0, 3, |_, _| n += 1);
		assert_eq!(n, 1 + 3 + 9 + 27);
		let mut m = 0;
		for_each_product(&[2, 3, 4], |_, _| m += 1);
		assert_eq!(m, 24);
		// all binary strings of 4 choices with <= 2 ones
		let mut seen = std::collections::HashSet::new();
		explore(2, |c, _| {
			let v: Vec<u32> = (0..4).map(|_| c.choose(2)).collect();
			assert!(seen.insert(v));
		});
		assert_eq!(seen.len(), 1 + 4 + 6);
	}
}
