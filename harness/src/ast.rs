//! The harness's own Jsonnet AST, its source printer (minimal parentheses per the *specified*
//! precedence table) and its canonical span-free S-expression form.  Shares no code with /repo.

use std::fmt::Write;

#[derive(Clone, Copy, PartialEq, Eq, Debug, Hash)]
pub enum UnOp {
	Plus,
	Minus,
	BitNot,
	Not,
}
impl UnOp {
	pub const ALL: [UnOp; 4] = [UnOp::Plus, UnOp::Minus, UnOp::BitNot, UnOp::Not];
	pub fn sym(self) -> &'static str {
		match self {
			UnOp::Plus => "+",
			UnOp::Minus => "-",
			UnOp::BitNot => "~",
			UnOp::Not => "!",
		}
	}
}

#[derive(Clone, Copy, PartialEq, Eq, Debug, Hash)]
pub enum BinOp {
	Mul,
	Div,
	Mod,
	Add,
	Sub,
	Shl,
	Shr,
	Lt,
	Gt,
	Le,
	Ge,
	In,
	Eq,
	Ne,
	BitAnd,
	BitXor,
	BitOr,
	And,
	Or,
}
impl BinOp {
	pub const ALL: [BinOp; 19] = [
		BinOp::Mul,
		BinOp::Div,
		BinOp::Mod,
		BinOp::Add,
		BinOp::Sub,
		BinOp::Shl,
		BinOp::Shr,
		BinOp::Lt,
		BinOp::Gt,
		BinOp::Le,
		BinOp::Ge,
		BinOp::In,
		BinOp::Eq,
		BinOp::Ne,
		BinOp::BitAnd,
		BinOp::BitXor,
		BinOp::BitOr,
		BinOp::And,
		BinOp::Or,
	];
	pub fn sym(self) -> &'static str {
		use BinOp::*;
		match self {
			Mul => "*",
			Div => "/",
			Mod => "%",
			Add => "+",
			Sub => "-",
			Shl => "<<",
			Shr => ">>",
			Lt => "<",
			Gt => ">",
			Le => "<=",
			Ge => ">=",
			In => "in",
			Eq => "==",
			Ne => "!=",
			BitAnd => "&",
			BitXor => "^",
			BitOr => "|",
			And => "&&",
			Or => "||",
		}
	}
	/// precedence per the Jsonnet specification: larger binds tighter. Unary = 12, postfix = 13.
	pub fn prec(self) -> u8 {
		use BinOp::*;
		match self {
			Mul | Div | Mod => 11,
			Add | Sub => 10,
			Shl | Shr => 9,
			Lt | Gt | Le | Ge | In => 8,
			Eq | Ne => 7,
			BitAnd => 6,
			BitXor => 5,
			BitOr => 4,
			And => 3,
			Or => 2,
		}
	}
}
pub const PREC_UNARY: u8 = 12;
pub const PREC_POSTFIX: u8 = 13;

#[derive(Clone, Copy, PartialEq, Eq, Debug, Hash)]
pub enum Vis {
	Normal,
	Hidden,
	Unhide,
}
impl Vis {
	pub fn sym(self) -> &'static str {
		match self {
			Vis::Normal => ":",
			Vis::Hidden => "::",
			Vis::Unhide => ":::",
		}
	}
}

#[derive(Clone, PartialEq, Debug)]
pub struct Param {
	pub name: String,
	pub default: Option<Ex>,
}
#[derive(Clone, PartialEq, Debug)]
pub enum Bind {
	Val(String, Ex),
	Func(String, Vec<Param>, Ex),
}
impl Bind {
	pub fn name(&self) -> &str {
		match self {
			Bind::Val(n, _) | Bind::Func(n, _, _) => n,
		}
	}
}
#[derive(Clone, PartialEq, Debug)]
pub enum FName {
	Fixed(String),
	Dyn(Ex),
}
#[derive(Clone, PartialEq, Debug)]
pub struct Field {
	pub name: FName,
	pub plus: bool,
	pub params: Option<Vec<Param>>,
	pub vis: Vis,
	pub value: Ex,
}
#[derive(Clone, PartialEq, Debug)]
pub enum Comp {
	For(String, Ex),
	If(Ex),
}
#[derive(Clone, PartialEq, Debug)]
pub enum ObjBody {
	Members { locals: Vec<Bind>, asserts: Vec<(Ex, Option<Ex>)>, fields: Vec<Field> },
	Comp { locals: Vec<Bind>, field: Box<Field>, specs: Vec<Comp> },
}
#[derive(Clone, Copy, PartialEq, Eq, Debug)]
pub enum ImportKind {
	Code,
	Str,
	Bin,
}

#[derive(Clone, PartialEq, Debug)]
pub enum Ex {
	Null,
	True,
	False,
	SelfE,
	Dollar,
	/// only valid as the object of an index or the right operand of `in`
	Super,
	Num(f64),
	Str(String),
	Var(String),
	Arr(Vec<Ex>),
	ArrComp(Box<Ex>, Vec<Comp>),
	Obj(ObjBody),
	ObjExt(Box<Ex>, ObjBody),
	Un(UnOp, Box<Ex>),
	Bin(Box<Ex>, BinOp, Box<Ex>),
	Assert(Box<Ex>, Option<Box<Ex>>, Box<Ex>),
	Local(Vec<Bind>, Box<Ex>),
	Import(ImportKind, String),
	Error(Box<Ex>),
	/// callee, positional, named, tailstrict
	Apply(Box<Ex>, Vec<Ex>, Vec<(String, Ex)>, bool),
	Index(Box<Ex>, Box<Ex>),
	Fn(Vec<Param>, Box<Ex>),
	If(Box<Ex>, Box<Ex>, Option<Box<Ex>>),
	Slice(Box<Ex>, Option<Box<Ex>>, Option<Box<Ex>>, Option<Box<Ex>>),
}

// convenience constructors
pub fn num(n: f64) -> Ex {
	if n < 0.0 || (n == 0.0 && n.is_sign_negative()) {
		Ex::Un(UnOp::Minus, Box::new(Ex::Num(-n)))
	} else {
		Ex::Num(n)
	}
}
pub fn s(x: &str) -> Ex {
	Ex::Str(x.to_owned())
}
pub fn var(x: &str) -> Ex {
	Ex::Var(x.to_owned())
}
pub fn bin(l: Ex, op: BinOp, r: Ex) -> Ex {
	Ex::Bin(Box::new(l), op, Box::new(r))
}
pub fn un(op: UnOp, e: Ex) -> Ex {
	Ex::Un(op, Box::new(e))
}
pub fn idx(a: Ex, i: Ex) -> Ex {
	Ex::Index(Box::new(a), Box::new(i))
}
pub fn dot(a: Ex, f: &str) -> Ex {
	Ex::Index(Box::new(a), Box::new(s(f)))
}
pub fn call(f: Ex, args: Vec<Ex>) -> Ex {
	Ex::Apply(Box::new(f), args, vec![], false)
}
pub fn stdcall(name: &str, args: Vec<Ex>) -> Ex {
	call(dot(var("std"), name), args)
}
pub fn local1(name: &str, v: Ex, body: Ex) -> Ex {
	Ex::Local(vec![Bind::Val(name.to_owned(), v)], Box::new(body))
}
pub fn func(params: &[&str], body: Ex) -> Ex {
	Ex::Fn(params.iter().map(|p| Param { name: (*p).to_owned(), default: None }).collect(), Box::new(body))
}
pub fn ife(c: Ex, t: Ex, e: Ex) -> Ex {
	Ex::If(Box::new(c), Box::new(t), Some(Box::new(e)))
}
pub fn obj(fields: Vec<Field>) -> Ex {
	Ex::Obj(ObjBody::Members { locals: vec![], asserts: vec![], fields })
}
pub fn field(name: &str, vis: Vis, plus: bool, value: Ex) -> Field {
	Field { name: FName::Fixed(name.to_owned()), plus, params: None, vis, value }
}

pub const KEYWORDS: &[&str] = &[
	"assert", "else", "error", "false", "for", "function", "if", "import", "importstr", "importbin", "in", "local", "null", "tailstrict", "then", "self", "super", "true",
];
pub fn is_ident(x: &str) -> bool {
	let mut cs = x.chars();
	match cs.next() {
		Some(c) if c.is_ascii_alphabetic() || c == '_' => {}
		_ => return false,
	}
	cs.all(|c| c.is_ascii_alphanumeric() || c == '_') && !KEYWORDS.contains(&x)
}

pub fn quote(x: &str) -> String {
	let mut o = String::with_capacity(x.len() + 2);
	o.push('"');
	for c in x.chars() {
		match c {
			'"' => o.push_str("\\\""),
			'\\' => o.push_str("\\\\"),
			'\n' => o.push_str("\\n"),
			'\r' => o.push_str("\\r"),
			'\t' => o.push_str("\\t"),
			c if (c as u32) < 0x20 || c as u32 == 0x7f => {
				let _ = write!(o, "\\u{:04x}", c as u32);
			}
			c => o.push(c),
		}
	}
	o.push('"');
	o
}
pub fn fmt_num(n: f64) -> String {
	debug_assert!(n.is_finite() && !(n < 0.0));
	if n == n.trunc() && n < 1e21 {
		format!("{n:.0}")
	} else {
		// shortest round-trip; Rust prints no exponent, which is valid Jsonnet
		let t = format!("{n:e}");
		// `1.5e-7` style is valid jsonnet
		t
	}
}

/// Printing options: dotted vs bracketed field access, named-argument rewriting handled by callers
#[derive(Clone, Copy)]
pub struct PrintOpts {
	pub dot_index: bool,
}
impl Default for PrintOpts {
	fn default() -> Self {
		Self { dot_index: true }
	}
}

/// does the expression end with a construct that extends as far to the right as possible?
fn open_ended(e: &Ex) -> bool {
	match e {
		Ex::If(..) | Ex::Local(..) | Ex::Fn(..) | Ex::Error(..) | Ex::Assert(..) | Ex::Import(..) => true,
		Ex::Bin(_, _, r) => open_ended(r),
		Ex::Un(_, x) => open_ended(x),
		_ => false,
	}
}
fn ends_with_open_if(e: &Ex) -> bool {
	match e {
		Ex::If(_, t, None) => {
			let _ = t;
			true
		}
		Ex::If(_, _, Some(el)) => ends_with_open_if(el),
		Ex::Local(_, b) | Ex::Fn(_, b) | Ex::Error(b) | Ex::Assert(_, _, b) => ends_with_open_if(b),
		Ex::Bin(_, _, r) => ends_with_open_if(r),
		Ex::Un(_, x) => ends_with_open_if(x),
		_ => false,
	}
}
fn prec_of(e: &Ex) -> u8 {
	match e {
		Ex::Bin(_, op, _) => op.prec(),
		Ex::Un(..) => PREC_UNARY,
		Ex::If(..) | Ex::Local(..) | Ex::Fn(..) | Ex::Error(..) | Ex::Assert(..) | Ex::Import(..) => 0,
		_ => 14,
	}
}

pub fn print(e: &Ex) -> String {
	print_with(e, PrintOpts::default())
}
pub fn print_with(e: &Ex, o: PrintOpts) -> String {
	let mut out = String::new();
	p_expr(e, 0, false, o, &mut out);
	out
}

/// `min_prec`: the child must bind at least this tight, `followed`: more tokens of the parent follow the child
fn p_expr(e: &Ex, min_prec: u8, followed: bool, o: PrintOpts, out: &mut String) {
	let pr = prec_of(e);
	let greedy = pr == 0;
	let need = if greedy { followed } else { pr < min_prec || (followed && open_ended(e)) };
	// a greedy construct in a non-followed operand position (right operand, unary operand) needs no parentheses
	if need {
		out.push('(');
		p_raw(e, o, out);
		out.push(')');
	} else {
		p_raw(e, o, out);
	}
}

fn p_params(ps: &[Param], o: PrintOpts, out: &mut String) {
	out.push('(');
	for (i, p) in ps.iter().enumerate() {
		if i > 0 {
			out.push_str(", ");
		}
		out.push_str(&p.name);
		if let Some(d) = &p.default {
			out.push_str(" = ");
			p_expr(d, 0, false, o, out);
		}
	}
	out.push(')');
}
fn p_bind(b: &Bind, o: PrintOpts, out: &mut String) {
	match b {
		Bind::Val(n, v) => {
			out.push_str(n);
			out.push_str(" = ");
			p_expr(v, 0, false, o, out);
		}
		Bind::Func(n, ps, v) => {
			out.push_str(n);
			p_params(ps, o, out);
			out.push_str(" = ");
			p_expr(v, 0, false, o, out);
		}
	}
}
fn p_field(f: &Field, o: PrintOpts, out: &mut String) {
	match &f.name {
		FName::Fixed(n) if is_ident(n) => out.push_str(n),
		FName::Fixed(n) => out.push_str(&quote(n)),
		FName::Dyn(e) => {
			out.push('[');
			p_expr(e, 0, false, o, out);
			out.push(']');
		}
	}
	if let Some(ps) = &f.params {
		p_params(ps, o, out);
	}
	if f.plus {
		out.push('+');
	}
	out.push_str(f.vis.sym());
	out.push(' ');
	p_expr(&f.value, 0, false, o, out);
}
fn p_comps(specs: &[Comp], o: PrintOpts, out: &mut String) {
	for c in specs {
		match c {
			Comp::For(v, e) => {
				out.push_str(" for ");
				out.push_str(v);
				out.push_str(" in ");
				p_expr(e, 0, true, o, out);
			}
			Comp::If(e) => {
				out.push_str(" if ");
				p_expr(e, 0, true, o, out);
			}
		}
	}
}
fn p_objbody(b: &ObjBody, o: PrintOpts, out: &mut String) {
	out.push('{');
	match b {
		ObjBody::Members { locals, asserts, fields } => {
			let mut first = true;
			let mut sep = |out: &mut String| {
				if first {
					out.push(' ');
					first = false;
				} else {
					out.push_str(", ");
				}
			};
			for l in locals {
				sep(out);
				out.push_str("local ");
				p_bind(l, o, out);
			}
			for (c, m) in asserts {
				sep(out);
				out.push_str("assert ");
				p_expr(c, 0, m.is_some(), o, out);
				if let Some(m) = m {
					out.push_str(" : ");
					p_expr(m, 0, false, o, out);
				}
			}
			for f in fields {
				sep(out);
				p_field(f, o, out);
			}
			if !first {
				out.push(' ');
			}
		}
		ObjBody::Comp { locals, field, specs } => {
			out.push(' ');
			for l in locals {
				out.push_str("local ");
				p_bind(l, o, out);
				out.push_str(", ");
			}
			// value of a comprehension field is followed by `for`
			let mut tmp = String::new();
			p_field(field, o, &mut tmp);
			if open_ended(&field.value) {
				// re-print with the value parenthesised
				let mut f2 = (**field).clone();
				tmp.clear();
				let v = std::mem::replace(&mut f2.value, Ex::Null);
				p_field(&f2, o, &mut tmp);
				tmp.truncate(tmp.len() - "null".len());
				tmp.push('(');
				p_raw(&v, o, &mut tmp);
				tmp.push(')');
			}
			out.push_str(&tmp);
			p_comps(specs, o, out);
			out.push(' ');
		}
	}
	out.push('}');
}

fn p_raw(e: &Ex, o: PrintOpts, out: &mut String) {
	match e {
		Ex::Null => out.push_str("null"),
		Ex::True => out.push_str("true"),
		Ex::False => out.push_str("false"),
		Ex::SelfE => out.push_str("self"),
		Ex::Dollar => out.push('$'),
		Ex::Super => out.push_str("super"),
		Ex::Num(n) => out.push_str(&fmt_num(*n)),
		Ex::Str(x) => out.push_str(&quote(x)),
		Ex::Var(v) => out.push_str(v),
		Ex::Arr(xs) => {
			out.push('[');
			for (i, x) in xs.iter().enumerate() {
				if i > 0 {
					out.push_str(", ");
				}
				p_expr(x, 0, false, o, out);
			}
			out.push(']');
		}
		Ex::ArrComp(x, specs) => {
			out.push('[');
			p_expr(x, 0, true, o, out);
			p_comps(specs, o, out);
			out.push(']');
		}
		Ex::Obj(b) => p_objbody(b, o, out),
		Ex::ObjExt(x, b) => {
			p_expr(x, PREC_POSTFIX, true, o, out);
			out.push(' ');
			p_objbody(b, o, out);
		}
		Ex::Un(op, x) => {
			out.push_str(op.sym());
			// `- -x` must not become `--x`; jsonnet has no `--` token but keep a space for + and - chains
			if let Ex::Un(op2, _) = &**x {
				if op2.sym() == op.sym() || matches!((op, op2), (UnOp::Plus | UnOp::Minus, UnOp::Plus | UnOp::Minus)) {
					out.push(' ');
				}
			}
			p_expr(x, PREC_UNARY, false, o, out);
		}
		Ex::Bin(l, op, r) => {
			p_expr(l, op.prec(), true, o, out);
			out.push(' ');
			out.push_str(op.sym());
			out.push(' ');
			p_expr(r, op.prec() + 1, false, o, out);
		}
		Ex::Assert(c, m, rest) => {
			out.push_str("assert ");
			p_expr(c, 0, true, o, out);
			if let Some(m) = m {
				out.push_str(" : ");
				p_expr(m, 0, true, o, out);
			}
			out.push_str("; ");
			p_expr(rest, 0, false, o, out);
		}
		Ex::Local(bs, body) => {
			out.push_str("local ");
			for (i, b) in bs.iter().enumerate() {
				if i > 0 {
					out.push_str(", ");
				}
				p_bind(b, o, out);
			}
			out.push_str("; ");
			p_expr(body, 0, false, o, out);
		}
		Ex::Import(k, path) => {
			out.push_str(match k {
				ImportKind::Code => "import ",
				ImportKind::Str => "importstr ",
				ImportKind::Bin => "importbin ",
			});
			out.push_str(&quote(path));
		}
		Ex::Error(x) => {
			out.push_str("error ");
			p_expr(x, 0, false, o, out);
		}
		Ex::Apply(f, pos, named, ts) => {
			p_expr(f, PREC_POSTFIX, true, o, out);
			out.push('(');
			let mut first = true;
			for a in pos {
				if !first {
					out.push_str(", ");
				}
				first = false;
				p_expr(a, 0, false, o, out);
			}
			for (n, a) in named {
				if !first {
					out.push_str(", ");
				}
				first = false;
				out.push_str(n);
				out.push_str(" = ");
				p_expr(a, 0, false, o, out);
			}
			out.push(')');
			if *ts {
				out.push_str(" tailstrict");
			}
		}
		Ex::Index(a, i) => {
			let dotted = matches!(&**i, Ex::Str(name) if o.dot_index && is_ident(name));
			if dotted && matches!(&**a, Ex::Num(_)) {
				// `1.a` would lex as a malformed number
				out.push('(');
				p_raw(a, o, out);
				out.push(')');
			} else {
				p_expr(a, PREC_POSTFIX, true, o, out);
			}
			match &**i {
				Ex::Str(name) if o.dot_index && is_ident(name) => {
					out.push('.');
					out.push_str(name);
				}
				_ => {
					out.push('[');
					p_expr(i, 0, false, o, out);
					out.push(']');
				}
			}
		}
		Ex::Fn(ps, body) => {
			out.push_str("function");
			p_params(ps, o, out);
			out.push(' ');
			p_expr(body, 0, false, o, out);
		}
		Ex::If(c, t, el) => {
			out.push_str("if ");
			p_expr(c, 0, true, o, out);
			out.push_str(" then ");
			if el.is_some() && ends_with_open_if(t) {
				out.push('(');
				p_raw(t, o, out);
				out.push(')');
			} else {
				p_expr(t, 0, false, o, out);
			}
			if let Some(el) = el {
				out.push_str(" else ");
				p_expr(el, 0, false, o, out);
			}
		}
		Ex::Slice(a, s0, s1, s2) => {
			p_expr(a, PREC_POSTFIX, true, o, out);
			out.push('[');
			if let Some(x) = s0 {
				p_expr(x, 0, true, o, out);
			}
			out.push(':');
			if let Some(x) = s1 {
				p_expr(x, 0, true, o, out);
			}
			if let Some(x) = s2 {
				out.push(':');
				p_expr(x, 0, false, o, out);
			}
			out.push(']');
		}
	}
}

// ---------------------------------------------------------------------------------------------
// canonical form (must match canon.rs's rendering of the implementation's Expr)

pub fn canon(e: &Ex) -> String {
	let mut o = String::new();
	c_expr(e, &mut o);
	o
}
pub fn canon_num(n: f64) -> String {
	format!("{:016x}", n.to_bits())
}
fn c_params(ps: &[Param], o: &mut String) {
	o.push_str("(params");
	for p in ps {
		o.push_str(" (");
		o.push_str(&p.name);
		if let Some(d) = &p.default {
			o.push(' ');
			c_expr(d, o);
		}
		o.push(')');
	}
	o.push(')');
}
fn c_bind(b: &Bind, o: &mut String) {
	match b {
		Bind::Val(n, v) => {
			let _ = write!(o, "(bind {n} ");
			c_expr(v, o);
			o.push(')');
		}
		Bind::Func(n, ps, v) => {
			let _ = write!(o, "(bindfn {n} ");
			c_params(ps, o);
			o.push(' ');
			c_expr(v, o);
			o.push(')');
		}
	}
}
fn c_field(f: &Field, o: &mut String) {
	o.push_str("(field ");
	match &f.name {
		FName::Fixed(n) => {
			let _ = write!(o, "(fixed {})", quote(n));
		}
		FName::Dyn(e) => {
			o.push_str("(dyn ");
			c_expr(e, o);
			o.push(')');
		}
	}
	let _ = write!(o, " {} {}", if f.plus { "+" } else { "-" }, f.vis.sym());
	if let Some(ps) = &f.params {
		o.push(' ');
		c_params(ps, o);
	}
	o.push(' ');
	c_expr(&f.value, o);
	o.push(')');
}
fn c_comps(specs: &[Comp], o: &mut String) {
	for c in specs {
		match c {
			Comp::For(v, e) => {
				let _ = write!(o, " (for {v} ");
				c_expr(e, o);
				o.push(')');
			}
			Comp::If(e) => {
				o.push_str(" (if ");
				c_expr(e, o);
				o.push(')');
			}
		}
	}
}
fn c_objbody(b: &ObjBody, o: &mut String) {
	match b {
		ObjBody::Members { locals, asserts, fields } => {
			o.push_str("(members (locals");
			for l in locals {
				o.push(' ');
				c_bind(l, o);
			}
			o.push_str(") (asserts");
			for (c, m) in asserts {
				o.push_str(" (assert ");
				c_expr(c, o);
				if let Some(m) = m {
					o.push(' ');
					c_expr(m, o);
				}
				o.push(')');
			}
			o.push_str(") (fields");
			for f in fields {
				o.push(' ');
				c_field(f, o);
			}
			o.push_str("))");
		}
		ObjBody::Comp { locals, field, specs } => {
			o.push_str("(objcomp (locals");
			for l in locals {
				o.push(' ');
				c_bind(l, o);
			}
			o.push_str(") ");
			c_field(field, o);
			c_comps(specs, o);
			o.push(')');
		}
	}
}
fn c_expr(e: &Ex, o: &mut String) {
	match e {
		Ex::Null => o.push_str("null"),
		Ex::True => o.push_str("true"),
		Ex::False => o.push_str("false"),
		Ex::SelfE => o.push_str("self"),
		Ex::Dollar => o.push_str("$"),
		Ex::Super => o.push_str("super"),
		Ex::Num(n) => {
			let _ = write!(o, "(num {})", canon_num(*n));
		}
		Ex::Str(x) => {
			let _ = write!(o, "(str {})", quote(x));
		}
		Ex::Var(v) => {
			let _ = write!(o, "(var {v})");
		}
		Ex::Arr(xs) => {
			o.push_str("(arr");
			for x in xs {
				o.push(' ');
				c_expr(x, o);
			}
			o.push(')');
		}
		Ex::ArrComp(x, specs) => {
			o.push_str("(arrcomp ");
			c_expr(x, o);
			c_comps(specs, o);
			o.push(')');
		}
		Ex::Obj(b) => {
			o.push_str("(obj ");
			c_objbody(b, o);
			o.push(')');
		}
		Ex::ObjExt(x, b) => {
			o.push_str("(objext ");
			c_expr(x, o);
			o.push(' ');
			c_objbody(b, o);
			o.push(')');
		}
		Ex::Un(op, x) => {
			let _ = write!(o, "(un {} ", op.sym());
			c_expr(x, o);
			o.push(')');
		}
		Ex::Bin(l, op, r) => {
			let _ = write!(o, "(bin {} ", op.sym());
			c_expr(l, o);
			o.push(' ');
			c_expr(r, o);
			o.push(')');
		}
		Ex::Assert(c, m, rest) => {
			o.push_str("(assertexpr ");
			c_expr(c, o);
			if let Some(m) = m {
				o.push_str(" (msg ");
				c_expr(m, o);
				o.push(')');
			}
			o.push(' ');
			c_expr(rest, o);
			o.push(')');
		}
		Ex::Local(bs, body) => {
			o.push_str("(local (");
			for (i, b) in bs.iter().enumerate() {
				if i > 0 {
					o.push(' ');
				}
				c_bind(b, o);
			}
			o.push_str(") ");
			c_expr(body, o);
			o.push(')');
		}
		Ex::Import(k, p) => {
			let _ = write!(o, "(import {k:?} (str {}))", quote(p));
		}
		Ex::Error(x) => {
			o.push_str("(error ");
			c_expr(x, o);
			o.push(')');
		}
		Ex::Apply(f, pos, named, ts) => {
			o.push_str("(apply ");
			c_expr(f, o);
			o.push_str(" (pos");
			for a in pos {
				o.push(' ');
				c_expr(a, o);
			}
			o.push_str(") (named");
			for (n, a) in named {
				let _ = write!(o, " ({n} ");
				c_expr(a, o);
				o.push(')');
			}
			let _ = write!(o, ") {})", if *ts { "tailstrict" } else { "lazy" });
		}
		Ex::Index(..) => {
			// flatten left-nested index chains: a.b.c == (index a b c)
			let mut parts = Vec::new();
			let mut cur = e;
			while let Ex::Index(a, i) = cur {
				parts.push(&**i);
				cur = a;
			}
			o.push_str("(index ");
			c_expr(cur, o);
			for p in parts.iter().rev() {
				o.push(' ');
				c_expr(p, o);
			}
			o.push(')');
		}
		Ex::Fn(ps, body) => {
			o.push_str("(fn ");
			c_params(ps, o);
			o.push(' ');
			c_expr(body, o);
			o.push(')');
		}
		Ex::If(c, t, el) => {
			o.push_str("(if ");
			c_expr(c, o);
			o.push(' ');
			c_expr(t, o);
			if let Some(el) = el {
				o.push(' ');
				c_expr(el, o);
			}
			o.push(')');
		}
		Ex::Slice(a, s0, s1, s2) => {
			o.push_str("(slice ");
			c_expr(a, o);
			for x in [s0, s1, s2] {
				o.push(' ');
				match x {
					Some(x) => c_expr(x, o),
					None => o.push('_'),
				}
			}
			o.push(')');
		}
	}
}
