//! C18 — garbage cycles are reclaimed; interned strings stay canonical (E1 over programs + E2 over interner histories).

use std::collections::{BTreeMap, BTreeSet, VecDeque};

use serde_json::{json, Value};

use crate::{
	ast::print,
	c02::{build, Chain, LayerD, KINDS_ALL},
	common::{fnv, guarded, panic_class, CheckSpec, Journal, PartSpec, Report, Shard, Tier, Violation},
	enumr::{explore, for_each_product},
	gen::{gen_expr, GenCfg, Scope},
	imp::{Imp, Out},
	interner_model::{all_ops, for_each_history, run_history, MState, Op},
	Check,
};

pub const CHECK: Check = Check {
	id: "C18",
	spec,
	work,
	replay,
};

fn spec(tier: Tier) -> CheckSpec {
	let n = crate::common::ncpu();
	CheckSpec {
		property: "C18",
		level: "model_checking",
		rule: format!(
			"exhaustive: (collector) every evaluable program of the whole-language generator with <= {} constructs, every 2-layer inheritance chain (all 12 member kinds, both composition syntaxes) manifested and listed, and a list of cyclic structures (self-referential objects, $-cycles, recursive and mutually recursive closures, lazy cyclic arrays, object-local caches, cycles through super, imports, std.trace, comprehensions) ending in a value, a runtime error, an assertion failure and the frame limit: after dropping the result and the State and running collect_thread_cycles() on the worker thread, count_thread_tracked() is back at the value measured before the State was built; \
			(interner) every history of length <= {} over {} operations on 3 handle slots and contents {{\"\", a, é, invalid UTF-8 0xff}} (intern_str, intern_bytes, From<char>, clone, drop, cast_bytes, cast_str, pool hand-over to the same and to a new OS thread), unmerged, plus a breadth-first search over all model states (slot kind and content) to its fixed point with every operation tried from every state: after every step two handles are equal exactly when their contents are, contents are intact, cast_str fails exactly on invalid UTF-8, the pool (hook) holds exactly the distinct live contents, and it is empty when every handle is dropped. non-trivial = distinct program / history",
			tier.q(3, 4),
			tier.q(3, 4),
			all_ops().len()
		),
		assumptions: vec![
			"count_thread_tracked() of jrsonnet-gcmodule is the observation of 'no interpreter object remains tracked'; memory that is leaked without being tracked is outside this check (the thorough tier runs the interner histories under Miri for that)".into(),
			"the interner model (harness/src/interner_model.rs: slot kind + content) is trusted; merging histories by model state is sound because every operation is tried from every model state and the invariants compare the implementation's pool with the model after every step".into(),
		],
		parts: vec![PartSpec::new("collector", n, tier.q(900, 14400)), PartSpec::new("interner", n, tier.q(900, 7200))],
		totality: true,
		exhaustive: true,
		min_outcomes: 3,
	}
}

fn work(shard: &Shard, journal: &Journal, rep: &mut Report) {
	crate::common::limit_memory(8 << 30);
	match shard.part.as_str() {
		"collector" => part_collector(shard, journal, rep),
		"interner" => part_interner(shard, journal, rep),
		p => panic!("unknown part {p}"),
	}
}

// ---------------------------------------------------------------------------------------------
// collector

const CYCLIC: &[&str] = &[
	"local o = { a: self, b: 1 }; o.b",
	"local o = { a: self, b: 1 }; o.a.a.b",
	"{ a: $, b: { c: $.b } }.b.c == null",
	"local o = { a: 1, b: self.a, c: $.b }; o",
	"local a = { x: b }, b = { y: a }; std.length(a) + std.length(b.y)",
	"local a = [b], b = [a]; std.length(a[0][0])",
	"local f(x) = if x == 0 then 0 else g(x - 1), g(x) = f(x); f(10)",
	"local f = function(x) if x == 0 then [] else [f] + f(x - 1); std.length(f(5))",
	"local mk(n) = { n: n, next: if n == 0 then null else mk(n - 1), me: self }; mk(5).next.next.me.n",
	"local o = { local c = self.a + 1, a: 1, b: c, d: c }; o",
	"local base = { a: 1, b: self.a }; (base + { a: 2, c: super.b }) ",
	"local base = { f(x): x + self.k, k: 1 }; local d = base { k: 10, g: super.f(1), h: self.f(1) }; [d.g, d.h]",
	"{ [k]: self for k in ['a', 'b'] }.a.b.a == null",
	"[{ a: x, me: self } for x in [1, 2, 3]][1].me.me.a",
	"std.map(function(x) { v: x, s: self }, [1, 2])[0].s.v",
	"local o = { a: std.trace('t', self), b: 1 }; o.a.b",
	"local o = { assert self.b == 1, a: self, b: 1 }; o.a.b",
	"local arr = std.makeArray(3, function(i) { i: i, all: arr }); arr[1].all[2].i",
	"local o = { f: function() self, g: self.f() }; o.g.g.f().g == null",
	"local t = { a: t2.b }, t2 = { b: t.c, c: 0 } + { c: 1 }; 1",
	"std.foldl(function(acc, x) acc { [x]: self }, ['a', 'b', 'c'], {}).c.b.a == null",
	"std.mapWithKey(function(k, v) { k: k, up: self }, { a: 1, b: 2 }).a.up.k",
	"std.objectValues({ a: self, b: 1 })[0].b",
	"std.prune({ a: { b: null, c: [] }, d: 1 })",
	// ending in errors
	"local o = { a: self, b: error 'boom' }; o.a.b",
	"local o = { a: self, b: 1 }; o.a.nope",
	"local o = { assert self.b == 2 : 'bad', a: self, b: 1 }; o.a.b",
	"local a = { x: b }, b = { y: a, z: error 'z' }; a.x.z",
	"local f(x) = { me: self, deeper: f(x + 1) }; f(0).deeper.deeper.nope",
	"local a = [b], b = [a, error 'e']; a[0][1]",
	"{ a: $ }",
	"local a = [a]; a",
	// object-level assertions that fail, raise, or hit the frame limit
	"local o = { assert self.a == 2 : 'bad a', a: 1, me: o }; o.a",
	"{ assert false : 'top', a: { b: $ } }",
	"{ a: { assert false : 'nested', b: 1 }, c: self.a.b }",
	"{ assert error 'in condition', a: 1 }.a",
	"{ assert false : error 'in message', a: 1 }.a",
	"local f(x) = { assert f(x + 1).a == 1, a: 1 }; f(0).a",
	"{ assert true, a: 1 } + { assert self.a == 2 : 'second layer', b: self }",
	// cut off by the frame limit
	"local f(x) = f(x + 1) + 1; f(0)",
	"local o = { a: self.b, b: self.a }; o.a",
	"local f(x) = { me: self, v: f(x + 1).v }; f(0).v",
	"local o = { a: { b: o.a.b } }; o.a.b",
	"local a = { x: b.y }, b = { y: a.x }; a",
	"local g(o) = g(o { n: self }) ; g({})",
];

fn tracked() -> usize {
	jrsonnet_gcmodule::collect_thread_cycles();
	jrsonnet_gcmodule::count_thread_tracked()
}

/// evaluates + manifests on a fresh State, drops everything, collects; returns (outcome tag, tracked objects left)
fn leak_case(code: &str) -> (String, i64) {
	let before = tracked();
	let tag = {
		let imp = Imp::new();
		let o = imp.run(code);
		match o {
			Out::Json(_) => "value".to_owned(),
			Out::Err(c, _) => format!("error {c}"),
			Out::Panic(p) => format!("panic {}", panic_class(&p)),
		}
	};
	let after = tracked();
	(tag, after as i64 - before as i64)
}

/// Evaluations run on a dedicated thread (the collector's object space is per thread). After a confirmed leak the
/// thread is retired and a fresh one started: leaked objects would otherwise stay tracked there and slow every later
/// collection down (and hide further leaks of the same size).
pub struct LeakRunner {
	tx: std::sync::mpsc::Sender<String>,
	rx: std::sync::mpsc::Receiver<(String, i64, i64)>,
}
impl LeakRunner {
	pub fn new() -> Self {
		let (tx, crx) = std::sync::mpsc::channel::<String>();
		let (ctx, rx) = std::sync::mpsc::channel::<(String, i64, i64)>();
		std::thread::Builder::new()
			.stack_size(64 << 20)
			.spawn(move || {
				// warm-up: thread-local caches of the evaluator/stdlib are built once
				let _ = leak_case("std.length(std.objectFields({ a: 1 }))");
				let _ = leak_case("error 'warm-up'");
				let _ = leak_case("local f(x) = f(x + 1) + 1; f(0)");
				while let Ok(code) = crx.recv() {
					let (tag, first) = leak_case(&code);
					// thread-local singletons (empty object, cached std parts) are built on first use and stay: a leak repeats
					let second = if first == 0 { 0 } else { leak_case(&code).1 };
					if ctx.send((tag, first, second)).is_err() {
						break;
					}
				}
			})
			.expect("spawn leak runner");
		Self { tx, rx }
	}
	pub fn run(&mut self, code: &str) -> (String, i64, i64) {
		self.tx.send(code.to_owned()).expect("leak runner alive");
		let r = self.rx.recv().expect("leak runner answers");
		if r.2 != 0 {
			*self = Self::new();
		}
		r
	}
}

fn check_leak(runner: &mut LeakRunner, rep: &mut Report, family: &str, code: &str, cost: u32) {
	let (tag, first, left) = runner.run(code);
	if first != 0 {
		rep.count("one-time thread-local allocations seen", 1);
	}
	rep.case(Some(fnv(code.as_bytes())), fnv(tag.as_bytes()));
	if tag.starts_with("panic") {
		rep.violation(Violation { class: format!("{family}: {tag}"), witness: code.to_owned(), detail: tag.clone(), cost, replay: json!({"kind": "leak", "code": code}) });
	}
	if left != 0 {
		rep.violation(Violation {
			class: format!("objects stay tracked after the state is dropped and cycles are collected [{family}, outcome {}]", tag.split(' ').take(2).collect::<Vec<_>>().join(" ")),
			witness: code.to_owned(),
			detail: format!("{left} tracked objects more than before the evaluation (outcome: {tag})"),
			cost,
			replay: json!({"kind": "leak", "code": code}),
		});
	}
}

fn part_collector(shard: &Shard, journal: &Journal, rep: &mut Report) {
	let mut runner = LeakRunner::new();
	let mut idx = 0u64;
	for code in CYCLIC {
		idx += 1;
		if shard.mine(idx) {
			journal.note(idx, "collector", code);
			check_leak(&mut runner, rep, "cyclic structure", code, 0);
		}
	}
	// inheritance chains
	let kinds: &[u8] = if shard.tier == Tier::Quick { &[0, 1, 2, 4, 7, 8, 10, 11] } else { &KINDS_ALL };
	let k = kinds.len();
	for_each_product(&[k, k, k, k, 2], |_, c| {
		idx += 1;
		if !shard.mine(idx) {
			return;
		}
		let chain = Chain {
			nnames: 2,
			dup_last: 0,
			mask_after: None,
			layers: (0..2).map(|li| LayerD { kinds: vec![kinds[c[li * 2]], kinds[c[li * 2 + 1]]], assert_kind: if c[4] == 1 && li == 1 { 2 } else { 0 }, ext: c[4] == 1 && li == 1, mask_before: None, mask_self: None }).collect(),
		};
		let code = format!("local o = {}; [std.objectFieldsAll(o), o]", print(&build(&chain)));
		journal.note(idx, "collector", &code);
		check_leak(&mut runner, rep, "inheritance chain", &code, 2);
	});
	// generated programs
	let cfg = GenCfg { syntax_only: false, objects: true };
	let base = idx;
	let total = explore(shard.tier.q(3, 4), |c, i| {
		let e = gen_expr(c, &Scope::default(), cfg);
		if !shard.mine(base + i) {
			return;
		}
		let code = print(&e);
		journal.note(base + i, "collector", &code);
		check_leak(&mut runner, rep, "generated program", &code, c.used());
		if i % 50_021 == 0 {
			rep.sample(|| json!({"program": code}));
		}
	});
	rep.count("generated_programs", total / shard.n);
}

// ---------------------------------------------------------------------------------------------
// interner

fn op_names(h: &[Op]) -> String {
	h.iter().map(|o| format!("{o:?}")).collect::<Vec<_>>().join(", ")
}
fn ops_json(h: &[Op]) -> Value {
	let all = all_ops();
	json!(h.iter().map(|o| all.iter().position(|x| x == o).expect("op")).collect::<Vec<_>>())
}
fn op_kind(o: &Op) -> &'static str {
	match o {
		Op::InternStr(..) => "intern_str",
		Op::InternBytes(..) => "intern_bytes",
		Op::FromChar(..) => "From<char>",
		Op::Clone(..) => "clone",
		Op::Drop(..) => "drop",
		Op::CastBytes(..) => "cast_bytes",
		Op::CastStr(..) => "cast_str",
		Op::HandOverSame => "hand-over (same thread)",
		Op::HandOverNew => "hand-over (new thread)",
	}
}

fn in_thread<T: Send + 'static>(f: impl FnOnce() -> T + Send + 'static) -> T {
	std::thread::Builder::new().stack_size(16 << 20).spawn(f).expect("spawn").join().expect("interner thread panicked")
}

/// runs a history on a fresh thread (empty pool); panics inside are reported as violations too
fn history_case(h: &[Op]) -> Result<MState, (usize, String)> {
	let h2 = h.to_vec();
	in_thread(move || match guarded(|| run_history(&h2)) {
		Ok(r) => r,
		Err(p) => Err((h2.len(), format!("panic: {p}"))),
	})
}

fn interner_violation(h: &[Op], step: usize, msg: &str) -> Violation {
	let culprit = h.get(step).or_else(|| h.last()).map_or("end", op_kind);
	let generic: String = msg.chars().map(|c| if c.is_ascii_digit() { '#' } else { c }).collect();
	Violation {
		class: format!("interner: {} [after {culprit}]", generic.split(':').next_back().unwrap_or("").trim().chars().take(90).collect::<String>()),
		witness: op_names(h),
		detail: format!("step {} of [{}]: {msg}", step + 1, op_names(h)),
		cost: h.len() as u32,
		replay: json!({"kind": "interner", "ops": ops_json(h)}),
	}
}

fn part_interner(shard: &Shard, journal: &Journal, rep: &mut Report) {
	let depth = shard.tier.q(3, 4);
	// (1) unmerged, every history up to `depth`; several histories share one fresh thread (the pool must be empty
	// after each of them, which the histories check themselves)
	let mut batch: Vec<(u64, Vec<Op>)> = Vec::new();
	let flush = |batch: &mut Vec<(u64, Vec<Op>)>, rep: &mut Report| {
		if batch.is_empty() {
			return;
		}
		let b = std::mem::take(batch);
		let b2 = b.clone();
		let results: Vec<Result<MState, (usize, String)>> = in_thread(move || {
			b2.iter()
				.map(|(_, h)| match guarded(|| run_history(h)) {
					Ok(r) => r,
					Err(p) => Err((h.len(), format!("panic: {p}"))),
				})
				.collect()
		});
		for ((_, h), r) in b.iter().zip(results) {
			rep.transitions += h.len() as u64;
			rep.traces_validated += 1;
			match r {
				Ok(m) => {
					rep.states.insert(fnv(format!("{m:?}").as_bytes()));
					rep.case(Some(fnv(format!("{h:?}").as_bytes())), fnv(format!("{m:?}").as_bytes()));
				}
				Err((step, msg)) => {
					rep.case(Some(fnv(format!("{h:?}").as_bytes())), 1);
					rep.violation(interner_violation(h, step, &msg));
				}
			}
		}
	};
	let total = for_each_history(depth, |idx, h| {
		if !shard.mine(idx) {
			return;
		}
		batch.push((idx, h.to_vec()));
		if batch.len() >= 256 {
			journal.note(idx, "interner", &op_names(h));
			flush(&mut batch, rep);
		}
	});
	flush(&mut batch, rep);
	rep.count("unmerged_histories", total / shard.n);
	// (2) merged breadth-first search to the fixed point (worker 0 only: the space is tiny)
	if shard.idx == 0 {
		let ops = all_ops();
		let mut seen: BTreeMap<MState, Vec<Op>> = BTreeMap::new();
		let mut frontier: VecDeque<(MState, Vec<Op>)> = VecDeque::new();
		seen.insert([None; crate::interner_model::SLOTS], vec![]);
		frontier.push_back(([None; crate::interner_model::SLOTS], vec![]));
		let mut transitions = 0u64;
		let mut kinds_seen: BTreeSet<&'static str> = BTreeSet::new();
		while let Some((_st, hist)) = frontier.pop_front() {
			for op in &ops {
				let mut h = hist.clone();
				h.push(*op);
				journal.note(total + transitions, "interner-bfs", &op_names(&h));
				transitions += 1;
				kinds_seen.insert(op_kind(op));
				match history_case(&h) {
					Ok(m) => {
						if !seen.contains_key(&m) {
							seen.insert(m, h.clone());
							frontier.push_back((m, h));
						}
					}
					Err((step, msg)) => rep.violation(interner_violation(&h, step, &msg)),
				}
			}
		}
		rep.transitions += transitions;
		rep.traces_validated += transitions;
		rep.count("bfs_model_states", seen.len() as u64);
		rep.count("bfs_transitions", transitions);
		let longest = seen.values().map(Vec::len).max().unwrap_or(0);
		rep.count("bfs_longest_shortest_history", longest as u64);
		rep.sample(|| json!({"bfs_states": seen.len(), "bfs_transitions": transitions, "operation_kinds": kinds_seen.iter().collect::<Vec<_>>(), "deepest_state_history": seen.values().max_by_key(|h| h.len()).map(|h| op_names(h))}));
	}
}

fn replay(v: &Value) -> (bool, String) {
	crate::common::limit_memory(8 << 30);
	match v["kind"].as_str().unwrap_or("") {
		"interner" => {
			let all = all_ops();
			let h: Vec<Op> = v["ops"].as_array().map(|a| a.iter().filter_map(|x| all.get(x.as_u64()? as usize).copied()).collect()).unwrap_or_default();
			match history_case(&h) {
				Ok(m) => (false, format!("[{}] ends in model state {m:?}, every invariant held", op_names(&h))),
				Err((step, msg)) => (true, format!("step {} of [{}]: {msg}", step + 1, op_names(&h))),
			}
		}
		_ => {
			let code = v["code"].as_str().or_else(|| v["case"].as_str()).unwrap_or("").to_owned();
			let c2 = code.clone();
			let (tag, left) = std::thread::Builder::new()
				.stack_size(64 << 20)
				.spawn(move || {
					let _ = leak_case("std.length(std.objectFields({ a: 1 }))");
					let _ = leak_case("error 'warm-up'");
					let _ = leak_case("local f(x) = f(x + 1) + 1; f(0)");
					let first = leak_case(&c2);
					// one-time thread-local initialisation is not a leak: the second run decides
					if first.1 == 0 { first } else { leak_case(&c2) }
				})
				.expect("spawn")
				.join()
				.expect("join");
			(left != 0 || tag.starts_with("panic"), format!("{code}\noutcome {tag}; tracked objects left after drop + collection: {left}"))
		}
	}
}
