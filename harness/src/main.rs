//! jv — bounded exhaustive exploration harness for jrsonnet (see /verif/DESIGN.md)
#![allow(clippy::all, clippy::pedantic, clippy::nursery)]

mod ast;
mod c01;
mod c02;
mod c03;
mod c04;
mod c05;
mod c06;
mod c07;
mod c08;
mod c09;
mod c10;
mod c11;
mod c12;
mod c13;
mod c14;
mod c15;
mod c16;
mod c17;
mod c18;
mod interner_model;
mod c19;
mod c20;
mod fmtx;
mod canon;
mod common;
mod enumr;
mod gen;
mod imp;
mod json;
mod judge;
mod refi;
mod refstd;

use std::path::PathBuf;

use common::{coordinate, CheckSpec, Journal, Report, Shard, Tier};
use serde_json::Value;

pub struct Check {
	pub id: &'static str,
	pub spec: fn(Tier) -> CheckSpec,
	pub work: fn(&Shard, &Journal, &mut Report),
	/// returns (violated, human readable text)
	pub replay: fn(&Value) -> (bool, String),
}

fn registry() -> Vec<Check> {
	vec![c01::CHECK, c02::CHECK, c03::CHECK, c04::CHECK, c05::CHECK, c06::CHECK, c07::CHECK, c08::CHECK, c09::CHECK, c10::CHECK, c11::CHECK, c12::CHECK, c13::CHECK, c14::CHECK, c15::CHECK, c16::CHECK, c17::CHECK, c18::CHECK, c19::CHECK, c20::CHECK]
}

fn usage() -> ! {
	eprintln!("usage: jv <Cxx> quick|thorough | jv replay <file> | jv list");
	std::process::exit(2)
}

fn main() {
	let args: Vec<String> = std::env::args().skip(1).collect();
	if args.is_empty() {
		usage();
	}
	common::install_panic_hook();
	let reg = registry();
	if args[0] == "list" {
		for c in &reg {
			println!("{}", c.id);
		}
		return;
	}
	if args[0] == "salt" {
		// debugging aid: one program under several hash salts
		let code = args.get(1).cloned().unwrap_or_default();
		for salt in 0..8usize {
			let c = code.clone();
			let out = std::thread::spawn(move || {
				jrsonnet_interner::verif::set_hash_salt(salt);
				format!("{:?}", imp::Imp::new().run(&c))
			})
			.join()
			.unwrap();
			println!("salt {salt}: {out}");
		}
		return;
	}
	if args[0] == "tree" {
		// debugging aid: syntax tree of the formatter's parser and the formatter output
		let text = args.get(1).cloned().unwrap_or_default();
		let (parsed, errors) = jrsonnet_rowan_parser::parse(&text);
		use jrsonnet_rowan_parser::AstNode;
		println!("{:#?}", parsed.syntax());
		for e in errors {
			println!("error: {:?} at {:?}", e.error, e.range);
		}
		println!("{:?}", fmtx::fmt(&text, 2));
		return;
	}
	if args[0] == "replay" {
		let Some(path) = args.get(1) else { usage() };
		let text = std::fs::read_to_string(path).expect("read replay file");
		let v: Value = serde_json::from_str(&text).expect("replay json");
		let prop = v["property"].as_str().expect("property");
		let Some(c) = reg.iter().find(|c| c.id == prop) else {
			eprintln!("unknown property {prop}");
			std::process::exit(2)
		};
		let (violated, text) = (c.replay)(&v["replay"]);
		println!("{text}");
		if violated {
			println!("VIOLATION property={prop} replay={path}");
			std::process::exit(1);
		}
		println!("replay: property {prop} holds on this case");
		return;
	}
	let Some(c) = reg.iter().find(|c| c.id == args[0]) else {
		eprintln!("unknown property {}", args[0]);
		std::process::exit(2)
	};
	let tier = match args.get(1).map(String::as_str) {
		Some("quick") | None => Tier::Quick,
		Some("thorough") => Tier::Thorough,
		_ => usage(),
	};
	let mut worker: Option<(u64, u64)> = None;
	let mut part = String::new();
	let mut out: Option<PathBuf> = None;
	let mut journal: Option<String> = None;
	let mut skip: Vec<u64> = Vec::new();
	let mut i = 2;
	while i < args.len() {
		match args[i].as_str() {
			"--worker" => {
				let (a, b) = args[i + 1].split_once('/').expect("i/n");
				worker = Some((a.parse().unwrap(), b.parse().unwrap()));
				i += 2;
			}
			"--part" => {
				part = args[i + 1].clone();
				i += 2;
			}
			"--out" => {
				out = Some(PathBuf::from(&args[i + 1]));
				i += 2;
			}
			"--journal" => {
				journal = Some(args[i + 1].clone());
				i += 2;
			}
			"--skip" => {
				skip = args[i + 1].split(',').filter_map(|x| x.parse().ok()).collect();
				i += 2;
			}
			_ => usage(),
		}
	}
	if let Some((idx, n)) = worker {
		let shard = Shard { idx, n, tier, part, skip };
		let journal = Journal::open(journal.as_deref());
		let mut rep = Report::new();
		(c.work)(&shard, &journal, &mut rep);
		// the per-case watchdog only covers cases, not the (possibly long) writing of the report
		common::stop_watchdog();
		journal.clear();
		if let Some(out) = out {
			let j = rep.to_json(&out.with_extension("hashes"));
			std::fs::write(&out, serde_json::to_string(&j).unwrap()).expect("write report");
		} else {
			// debugging aid: print the report
			let tmp = std::env::temp_dir().join(format!("jv-{}.hashes", std::process::id()));
			let j = rep.to_json(&tmp);
			let _ = std::fs::remove_file(tmp);
			println!("{}", serde_json::to_string_pretty(&j).unwrap());
		}
		return;
	}
	let code = coordinate((c.spec)(tier), tier);
	std::process::exit(code);
}
