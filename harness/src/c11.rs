//! C11 — stdlib string, encoding, parsing and hashing functions match their definitions.
//!
//! The reference functions below are written on Vec<char> / bytes (code-point indexed, as the definitions
//! are); digests are computed by Python's hashlib in one batch.

use std::{collections::HashMap, io::Write as _, process::Command};

use serde_json::{json, Value};

use crate::{
	ast::quote,
	common::{fnv, verif_root, CheckSpec, Journal, PartSpec, Report, Shard, Tier, Violation},
	enumr::for_each_seq,
	imp::{Imp, Out},
	json::{self, J},
	refi::json_quote,
	Check,
};

pub const CHECK: Check = Check {
	id: "C11",
	spec,
	work,
	replay,
};

fn spec(tier: Tier) -> CheckSpec {
	let n = crate::common::ncpu();
	CheckSpec {
		property: "C11",
		level: "exploration",
		rule: "exhaustive: subject strings = all strings of length <= 4 (thorough 5) over {a, b, space, comma, é, €, 😀} and all strings of length <= 12 over {a, é}; patterns/separators/char sets = all strings of length <= 2 over the same alphabet; offsets and counts -1..len+2; maxsplits in {-1,0,1,2,len}; byte arrays = all arrays of length <= 3 over {0x00,0x41,0x7f,0x80,0xc3,0xa9,0xff} and their base64 texts with padding variants; numeric strings = all strings of length <= 3 over {-,0,1,7,8,9,a,f,F,g,space} plus renderings of 2^53-1, 2^53, 2^53+1, 2^64 in bases 8/10/16; JSON documents from a tree generator for parseJson/parseYaml. \
			Every listed function x every applicable tuple; oracle: code-point-indexed reference functions (harness/src/c11.rs), inverse laws (decodeUTF8.encodeUTF8, base64Decode.base64, base64DecodeBytes.base64), digests from Python hashlib. non-trivial = distinct call text"
			.into(),
		assumptions: vec![
			"reference functions transcribe the documented definitions; Python 3.11 hashlib provides the standard digests".into(),
			"std.decodeUTF8 of invalid UTF-8, std.base64 of strings with code points above 255 and std.split with an empty separator are zones where implementations differ: only checked for absence of crashes".into(),
		],
		parts: vec![PartSpec::new("pairs", n, tier.q(900, 14400)), PartSpec::new("singles", n, tier.q(900, 7200)), PartSpec::new("codecs", n.min(8), tier.q(900, 7200))],
		totality: true,
		exhaustive: true,
		min_outcomes: 20,
	}
}

pub const SIGMA: &[&str] = &["a", "b", " ", ",", "é", "€", "😀"];

#[derive(Debug, Clone, PartialEq)]
pub enum Exp {
	/// JSON text of the expected value
	Val(String),
	Err,
	Unjudged,
}
fn js(x: &str) -> Exp {
	Exp::Val(json_quote(x))
}
fn jarr_str(v: &[String]) -> Exp {
	Exp::Val(format!("[{}]", v.iter().map(|x| json_quote(x)).collect::<Vec<_>>().join(",")))
}
fn jbool(b: bool) -> Exp {
	Exp::Val(if b { "true".into() } else { "false".into() })
}
fn jnum_list(v: &[usize]) -> Exp {
	Exp::Val(format!("[{}]", v.iter().map(|x| x.to_string()).collect::<Vec<_>>().join(",")))
}

fn chars(x: &str) -> Vec<char> {
	x.chars().collect()
}

/// Python-style split with a non-empty separator; maxsplits < 0 = unlimited
fn split_ref(st: &str, sep: &str, maxsplits: i64, from_right: bool) -> Vec<String> {
	let s = chars(st);
	let p = chars(sep);
	let mut parts: Vec<String> = Vec::new();
	if !from_right {
		let mut cur = String::new();
		let mut i = 0;
		let mut splits = 0i64;
		while i < s.len() {
			if (maxsplits < 0 || splits < maxsplits) && i + p.len() <= s.len() && s[i..i + p.len()] == p[..] {
				parts.push(std::mem::take(&mut cur));
				i += p.len();
				splits += 1;
			} else {
				cur.push(s[i]);
				i += 1;
			}
		}
		parts.push(cur);
		parts
	} else {
		let mut cur: Vec<char> = Vec::new();
		let mut i = s.len();
		let mut splits = 0i64;
		while i > 0 {
			if (maxsplits < 0 || splits < maxsplits) && i >= p.len() && s[i - p.len()..i] == p[..] {
				cur.reverse();
				parts.push(cur.iter().collect());
				cur.clear();
				i -= p.len();
				splits += 1;
			} else {
				cur.push(s[i - 1]);
				i -= 1;
			}
		}
		cur.reverse();
		parts.push(cur.iter().collect());
		parts.reverse();
		parts
	}
}

fn find_substr_ref(pat: &str, st: &str) -> Vec<usize> {
	let (p, s) = (chars(pat), chars(st));
	if p.is_empty() || s.is_empty() || p.len() > s.len() {
		return vec![];
	}
	(0..=s.len() - p.len()).filter(|i| s[*i..*i + p.len()] == p[..]).collect()
}

fn replace_ref(st: &str, from: &str, to: &str) -> String {
	let (s, f) = (chars(st), chars(from));
	let mut out = String::new();
	let mut i = 0;
	while i < s.len() {
		if i + f.len() <= s.len() && s[i..i + f.len()] == f[..] {
			out.push_str(to);
			i += f.len();
		} else {
			out.push(s[i]);
			i += 1;
		}
	}
	out
}

fn strip_ref(st: &str, set: &str, left: bool, right: bool) -> String {
	let s = chars(st);
	let set = chars(set);
	let mut a = 0;
	let mut b = s.len();
	if left {
		while a < b && set.contains(&s[a]) {
			a += 1;
		}
	}
	if right {
		while b > a && set.contains(&s[b - 1]) {
			b -= 1;
		}
	}
	s[a..b].iter().collect()
}

fn xml_escape(st: &str) -> String {
	let mut o = String::new();
	for c in st.chars() {
		match c {
			'<' => o.push_str("&lt;"),
			'>' => o.push_str("&gt;"),
			'&' => o.push_str("&amp;"),
			'"' => o.push_str("&quot;"),
			'\'' => o.push_str("&apos;"),
			c => o.push(c),
		}
	}
	o
}

fn parse_nat(st: &str, base: u32) -> Option<f64> {
	if st.is_empty() {
		return None;
	}
	let mut acc = 0f64;
	for c in st.chars() {
		let d = c.to_digit(base)?;
		// the definition folds in double arithmetic: a * base + digit
		acc = acc * f64::from(base) + f64::from(d);
	}
	Some(acc)
}

const B64: &[u8; 64] = b"ABCDEFGHIJKLMNOPQRSTUVWXYZabcdefghijklmnopqrstuvwxyz0123456789+/";
pub fn base64_ref(bytes: &[u8]) -> String {
	let mut o = String::new();
	for ch in bytes.chunks(3) {
		let b = [ch[0], *ch.get(1).unwrap_or(&0), *ch.get(2).unwrap_or(&0)];
		let n = (u32::from(b[0]) << 16) | (u32::from(b[1]) << 8) | u32::from(b[2]);
		o.push(B64[(n >> 18) as usize & 63] as char);
		o.push(B64[(n >> 12) as usize & 63] as char);
		o.push(if ch.len() > 1 { B64[(n >> 6) as usize & 63] as char } else { '=' });
		o.push(if ch.len() > 2 { B64[n as usize & 63] as char } else { '=' });
	}
	o
}
/// strict RFC 4648 decoding with padding
pub fn base64_decode_ref(text: &str) -> Option<Vec<u8>> {
	let t = text.as_bytes();
	if t.len() % 4 != 0 {
		return None;
	}
	let mut out = Vec::new();
	for (ci, ch) in t.chunks(4).enumerate() {
		let last = ci == t.len() / 4 - 1;
		let mut vals = [0u32; 4];
		let mut pad = 0;
		for (i, c) in ch.iter().enumerate() {
			if *c == b'=' {
				if !last || i < 2 {
					return None;
				}
				pad += 1;
			} else {
				if pad > 0 {
					return None;
				}
				vals[i] = B64.iter().position(|x| x == c)? as u32;
			}
		}
		let n = (vals[0] << 18) | (vals[1] << 12) | (vals[2] << 6) | vals[3];
		out.push((n >> 16) as u8);
		if pad < 2 {
			out.push((n >> 8) as u8);
		}
		if pad < 1 {
			out.push(n as u8);
		}
	}
	Some(out)
}

pub fn expect(f: &str, a: &[Arg]) -> Exp {
	use Arg::*;
	match (f, a) {
		("length", [S(x)]) => Exp::Val(chars(x).len().to_string()),
		("substr", [S(x), I(from), I(len)]) => {
			if *from < 0 || *len < 0 {
				return Exp::Err;
			}
			let c = chars(x);
			js(&c.iter().skip(*from as usize).take(*len as usize).collect::<String>())
		}
		("split", [S(x), S(c)]) => {
			if c.is_empty() {
				Exp::Unjudged
			} else {
				jarr_str(&split_ref(x, c, -1, false))
			}
		}
		("splitLimit", [S(x), S(c), I(m)]) | ("splitLimitR", [S(x), S(c), I(m)]) => {
			if c.is_empty() {
				Exp::Unjudged
			} else if *m < -1 {
				Exp::Unjudged
			} else {
				// the documented definition of splitLimitR delegates to splitLimit when maxsplits == -1
				jarr_str(&split_ref(x, c, *m, f == "splitLimitR" && *m != -1))
			}
		}
		("strReplace", [S(x), S(from), S(to)]) => {
			if from.is_empty() {
				Exp::Err
			} else {
				js(&replace_ref(x, from, to))
			}
		}
		("findSubstr", [S(p), S(x)]) => jnum_list(&find_substr_ref(p, x)),
		("startsWith", [S(x), S(p)]) => jbool(chars(x).starts_with(&chars(p))),
		("endsWith", [S(x), S(p)]) => jbool(chars(x).ends_with(&chars(p))),
		("stripChars", [S(x), S(set)]) => js(&strip_ref(x, set, true, true)),
		("lstripChars", [S(x), S(set)]) => js(&strip_ref(x, set, true, false)),
		("rstripChars", [S(x), S(set)]) => js(&strip_ref(x, set, false, true)),
		("trim", [S(x)]) => js(&strip_ref(x, " \t\n\u{c}\r\u{85}\u{a0}", true, true)),
		("asciiUpper", [S(x)]) => js(&x.chars().map(|c| c.to_ascii_uppercase()).collect::<String>()),
		("asciiLower", [S(x)]) => js(&x.chars().map(|c| c.to_ascii_lowercase()).collect::<String>()),
		("stringChars", [S(x)]) => jarr_str(&x.chars().map(|c| c.to_string()).collect::<Vec<_>>()),
		("codepoint", [S(x)]) => {
			let c = chars(x);
			if c.len() == 1 {
				Exp::Val((c[0] as u32).to_string())
			} else {
				Exp::Err
			}
		}
		("char", [I(n)]) => {
			if *n < 0 {
				return Exp::Err;
			}
			match u32::try_from(*n).ok().and_then(char::from_u32) {
				Some(c) => js(&c.to_string()),
				None => Exp::Err,
			}
		}
		("equalsIgnoreCase", [S(x), S(y)]) => jbool(x.to_ascii_lowercase() == y.to_ascii_lowercase()),
		("isEmpty", [S(x)]) => jbool(x.is_empty()),
		("escapeStringJson", [S(x)]) | ("escapeStringPython", [S(x)]) => {
			// std.jsonnet: quote, backslash and the short escapes, and \uXXXX for code points < 32 and 127..159.
			// The result is a string holding that text: its own JSON text quotes it once more; compared after parsing
			let mut t = String::from("\"");
			for c in x.chars() {
				match c {
					'"' => t.push_str("\\\""),
					'\\' => t.push_str("\\\\"),
					'\u{8}' => t.push_str("\\b"),
					'\u{c}' => t.push_str("\\f"),
					'\n' => t.push_str("\\n"),
					'\r' => t.push_str("\\r"),
					'\t' => t.push_str("\\t"),
					c if (c as u32) < 32 || (127..=159).contains(&(c as u32)) => t.push_str(&format!("\\u{:04x}", c as u32)),
					c => t.push(c),
				}
			}
			t.push('"');
			Exp::Val(json_quote(&t))
		}
		("escapeStringBash", [S(x)]) => js(&format!("'{}'", x.replace('\'', "'\"'\"'"))),
		("escapeStringDollars", [S(x)]) => js(&x.replace('$', "$$")),
		("escapeStringXML", [S(x)]) => js(&xml_escape(x)),
		("parseInt", [S(x)]) => {
			let (neg, digits) = match x.strip_prefix('-') {
				Some(r) => (true, r),
				None => (false, x.as_str()),
			};
			match parse_nat(digits, 10) {
				Some(v) if v.is_finite() => Exp::Val(num_text(if neg { -v } else { v })),
				_ => Exp::Err,
			}
		}
		("parseOctal", [S(x)]) => match parse_nat(x, 8) {
			Some(v) if v.is_finite() => Exp::Val(num_text(v)),
			_ => Exp::Err,
		},
		("parseHex", [S(x)]) => match parse_nat(x, 16) {
			Some(v) if v.is_finite() => Exp::Val(num_text(v)),
			_ => Exp::Err,
		},
		("encodeUTF8", [S(x)]) => Exp::Val(format!("[{}]", x.bytes().map(|b| b.to_string()).collect::<Vec<_>>().join(","))),
		("decodeUTF8", [B(b)]) => match std::str::from_utf8(b) {
			Ok(t) => js(t),
			Err(_) => Exp::Unjudged,
		},
		("base64", [B(b)]) => js(&base64_ref(b)),
		("base64", [S(x)]) => {
			if x.chars().all(|c| (c as u32) < 128) {
				js(&base64_ref(x.as_bytes()))
			} else {
				Exp::Unjudged
			}
		}
		("base64DecodeBytes", [S(x)]) => match base64_decode_ref(x) {
			Some(b) => Exp::Val(format!("[{}]", b.iter().map(|v| v.to_string()).collect::<Vec<_>>().join(","))),
			None => Exp::Err,
		},
		("base64Decode", [S(x)]) => match base64_decode_ref(x) {
			Some(b) => match String::from_utf8(b) {
				Ok(t) => js(&t),
				Err(_) => Exp::Unjudged,
			},
			None => Exp::Err,
		},
		("parseJson", [S(d)]) | ("parseYaml", [S(d)]) => match json::parse(d) {
			Ok(_) => Exp::Val(d.clone()),
			Err(_) => {
				if f == "parseJson" {
					Exp::Err
				} else {
					Exp::Unjudged
				}
			}
		},
		_ => Exp::Unjudged,
	}
}

fn num_text(v: f64) -> String {
	if v == v.trunc() && v.abs() < 1e15 {
		format!("{v:.0}")
	} else {
		format!("{v:?}")
	}
}

#[derive(Debug, Clone, PartialEq)]
pub enum Arg {
	S(String),
	I(i64),
	B(Vec<u8>),
}
impl Arg {
	fn render(&self) -> String {
		match self {
			Arg::S(x) => quote(x),
			Arg::I(i) => {
				if *i < 0 {
					format!("({i})")
				} else {
					i.to_string()
				}
			}
			Arg::B(b) => format!("[{}]", b.iter().map(|v| v.to_string()).collect::<Vec<_>>().join(", ")),
		}
	}
	fn shape(&self) -> String {
		match self {
			Arg::S(x) if x.is_empty() => "empty".into(),
			Arg::S(x) if x.is_ascii() => "ascii".into(),
			Arg::S(_) => "non-ascii".into(),
			Arg::I(i) if *i < 0 => "negative".into(),
			Arg::I(_) => "int".into(),
			Arg::B(b) if std::str::from_utf8(b).is_ok() => "utf8-bytes".into(),
			Arg::B(_) => "invalid-utf8-bytes".into(),
		}
	}
}

pub fn call_text(f: &str, a: &[Arg]) -> String {
	format!("std.{f}({})", a.iter().map(Arg::render).collect::<Vec<_>>().join(", "))
}

fn canon(j: J) -> J {
	match j {
		J::Obj(mut kv) => {
			kv.sort_by(|a, b| a.0.cmp(&b.0));
			J::Obj(kv.into_iter().map(|(k, v)| (k, canon(v))).collect())
		}
		J::Arr(a) => J::Arr(a.into_iter().map(canon).collect()),
		// -0 and 0 denote the same number here
		J::Num(x) if x == 0.0 => J::Num(0.0),
		other => other,
	}
}
fn values_equal(expected_json: &str, got_json: &str) -> bool {
	match (json::parse(expected_json), json::parse(got_json)) {
		(Ok(a), Ok(b)) => canon(a) == canon(b),
		_ => false,
	}
}

pub struct Cx<'r> {
	rep: &'r mut Report,
	imp: Imp,
	shard: Shard,
	idx: u64,
}
impl Cx<'_> {
	fn check(&mut self, journal: &Journal, f: &str, a: Vec<Arg>) {
		let i = self.idx;
		self.idx += 1;
		if !self.shard.mine(i) {
			return;
		}
		let code = call_text(f, &a);
		journal.note(i, f, &code);
		let exp = expect(f, &a);
		let o = self.imp.run(&code);
		judge(self.rep, f, &code, &exp, &o, &a, i);
	}
}

pub fn judge(rep: &mut Report, f: &str, code: &str, exp: &Exp, o: &Out, a: &[Arg], i: u64) {
	rep.case(Some(fnv(code.as_bytes())), fnv(format!("{exp:?}").chars().take(48).collect::<String>().as_bytes()));
	if matches!(exp, Exp::Unjudged) {
		rep.count("unjudged", 1);
	}
	if i % 50_021 == 0 {
		rep.sample(|| json!({"call": code, "expected": format!("{exp:?}"), "implementation": o.short()}));
	}
	let bad = match (exp, o) {
		(_, Out::Panic(p)) => Some(crate::common::panic_class(p)),
		(Exp::Unjudged, _) => None,
		(Exp::Val(e), Out::Json(g)) => (!values_equal(e, g)).then(|| "wrong value".to_owned()),
		(Exp::Val(_), Out::Err(c, _)) => Some(format!("expected value, got error {c}")),
		(Exp::Err, Out::Json(_)) => Some("expected error, got value".to_owned()),
		(Exp::Err, Out::Err(..)) => None,
	};
	if let Some(kind) = bad {
		let shape: Vec<String> = a.iter().map(Arg::shape).collect();
		rep.violation(Violation {
			class: format!("std.{f}: {kind} [{}]", shape.join(", ")),
			witness: code.to_owned(),
			detail: format!("expected {exp:?}\nimplementation {}", o.short()),
			cost: code.len() as u32,
			replay: json!({"kind": "call", "f": f, "args": a.iter().map(|x| match x { Arg::S(s) => json!({"s": s}), Arg::I(i) => json!({"i": i}), Arg::B(b) => json!({"b": b}) }).collect::<Vec<_>>()}),
		});
	}
}

fn strings_over(alpha: &[&str], maxlen: usize) -> Vec<String> {
	let mut out = Vec::new();
	for_each_seq(alpha.len(), 0, maxlen, |_, seq| out.push(seq.iter().map(|k| alpha[*k]).collect::<String>()));
	out
}

fn work(shard: &Shard, journal: &Journal, rep: &mut Report) {
	crate::common::limit_memory(6 << 30);
	let mut cx = Cx { rep, imp: Imp::new(), shard: shard.clone(), idx: 0 };
	match shard.part.as_str() {
		"pairs" => part_pairs(&mut cx, journal),
		"singles" => part_singles(&mut cx, journal),
		"codecs" => part_codecs(&mut cx, journal),
		p => panic!("unknown part {p}"),
	}
	let total = cx.idx;
	cx.rep.count("calls_indexed", total / shard.n);
}

fn part_pairs(cx: &mut Cx, journal: &Journal) {
	let subjects = strings_over(SIGMA, cx.shard.tier.q(4, 5));
	let pats = strings_over(SIGMA, 2);
	let s = |x: &String| Arg::S(x.clone());
	for x in &subjects {
		let len = x.chars().count() as i64;
		for p in &pats {
			for f in ["split", "findSubstr", "startsWith", "endsWith", "stripChars", "lstripChars", "rstripChars", "equalsIgnoreCase"] {
				let args = if f == "findSubstr" { vec![s(p), s(x)] } else { vec![s(x), s(p)] };
				cx.check(journal, f, args);
			}
			if x.chars().count() <= 3 {
				for m in [-1, 0, 1, 2, len] {
					cx.check(journal, "splitLimit", vec![s(x), s(p), Arg::I(m)]);
					cx.check(journal, "splitLimitR", vec![s(x), s(p), Arg::I(m)]);
				}
				for to in ["", "x", "é😀"] {
					cx.check(journal, "strReplace", vec![s(x), s(p), Arg::S(to.into())]);
				}
			}
		}
		if x.chars().count() <= 3 {
			for from in -1..=len + 2 {
				for l in -1..=len + 2 {
					cx.check(journal, "substr", vec![s(x), Arg::I(from), Arg::I(l)]);
				}
			}
		}
	}
}

fn part_singles(cx: &mut Cx, journal: &Journal) {
	let mut subjects = strings_over(SIGMA, cx.shard.tier.q(4, 5));
	subjects.extend(strings_over(&["a", "é"], 12));
	subjects.extend(["A", "aBc", "ÀÉ", "\"q\"", "a'b", "back\\slash", "tab\there", "nl\nline", "$HOME$", "<&>\"'", "\u{1}\u{7f}", " \t\n pad \r\n", "\u{a0}x\u{85}"].map(String::from));
	for x in &subjects {
		for f in ["length", "trim", "asciiUpper", "asciiLower", "stringChars", "codepoint", "isEmpty", "escapeStringJson", "escapeStringPython", "escapeStringBash", "escapeStringDollars", "escapeStringXML", "encodeUTF8"] {
			cx.check(journal, f, vec![Arg::S(x.clone())]);
		}
	}
	for n in [-1i64, 0, 65, 127, 128, 233, 0x20ac, 0xd7ff, 0xd800, 0xdfff, 0xe000, 0xffff, 0x10000, 0x1f600, 0x10ffff, 0x110000, 0xffff_ffff, 0x1_0000_0000] {
		cx.check(journal, "char", vec![Arg::I(n)]);
	}
	// numeric strings
	let mut nums = strings_over(&["-", "0", "1", "7", "8", "9", "a", "f", "F", "g", " "], 3);
	for big in [9007199254740991u128, 9007199254740992, 9007199254740993, 18446744073709551616] {
		nums.push(format!("{big}"));
		nums.push(format!("-{big}"));
		nums.push(format!("{big:o}"));
		nums.push(format!("{big:x}"));
		nums.push(format!("{big:X}"));
	}
	nums.push("9".repeat(400));
	for x in &nums {
		for f in ["parseInt", "parseOctal", "parseHex"] {
			cx.check(journal, f, vec![Arg::S(x.clone())]);
		}
	}
}

fn part_codecs(cx: &mut Cx, journal: &Journal) {
	let alpha: [u8; 7] = [0x00, 0x41, 0x7f, 0x80, 0xc3, 0xa9, 0xff];
	let mut byte_arrays: Vec<Vec<u8>> = Vec::new();
	for_each_seq(alpha.len(), 0, 3, |_, seq| byte_arrays.push(seq.iter().map(|k| alpha[*k]).collect()));
	byte_arrays.push("aé😀€".as_bytes().to_vec());
	for b in &byte_arrays {
		cx.check(journal, "decodeUTF8", vec![Arg::B(b.clone())]);
		cx.check(journal, "base64", vec![Arg::B(b.clone())]);
		let t = base64_ref(b);
		cx.check(journal, "base64DecodeBytes", vec![Arg::S(t.clone())]);
		cx.check(journal, "base64Decode", vec![Arg::S(t.clone())]);
		// padding variants: stripped, extra
		for v in [t.trim_end_matches('=').to_owned(), format!("{t}="), format!("={t}"), t.replace('A', "*")] {
			if v != t {
				cx.check(journal, "base64DecodeBytes", vec![Arg::S(v.clone())]);
				cx.check(journal, "base64Decode", vec![Arg::S(v)]);
			}
		}
		// inverse law through the implementation: base64DecodeBytes(base64(b)) == b
		let i = cx.idx;
		cx.idx += 1;
		if cx.shard.mine(i) {
			let lit = Arg::B(b.clone()).render();
			let code = format!("[std.base64DecodeBytes(std.base64({lit})) == {lit}]");
			let o = cx.imp.run(&code);
			judge(cx.rep, "base64-roundtrip", &code, &Exp::Val("[true]".into()), &o, &[Arg::B(b.clone())], i);
		}
	}
	let texts = strings_over(&["a", "é", "😀", "=", "\u{0}"], 4);
	for t in &texts {
		cx.check(journal, "base64", vec![Arg::S(t.clone())]);
		let i = cx.idx;
		cx.idx += 1;
		if cx.shard.mine(i) {
			let lit = quote(t);
			let code = format!("[std.decodeUTF8(std.encodeUTF8({lit})) == {lit}, std.length(std.encodeUTF8({lit}))]");
			let o = cx.imp.run(&code);
			judge(cx.rep, "utf8-roundtrip", &code, &Exp::Val(format!("[true,{}]", t.len())), &o, &[Arg::S(t.clone())], i);
		}
	}
	// digests against Python hashlib (one batch per worker; the batch is the worker's share)
	let mut subjects = strings_over(&["a", "é", "😀", " "], 3);
	subjects.push("The quick brown fox jumps over the lazy dog".into());
	subjects.push("x".repeat(1000));
	let mine: Vec<(u64, String)> = subjects
		.into_iter()
		.map(|t| {
			let i = cx.idx;
			cx.idx += 1;
			(i, t)
		})
		.filter(|(i, _)| cx.shard.mine(*i))
		.collect();
	if mine.is_empty() {
		return;
	}
	let digests = python_digests(&mine.iter().map(|x| x.1.clone()).collect::<Vec<_>>());
	for (k, (i, t)) in mine.iter().enumerate() {
		for (h, hname) in ["md5", "sha1", "sha256", "sha512", "sha3"].iter().enumerate() {
			let code = format!("std.{hname}({})", quote(t));
			let o = cx.imp.run(&code);
			let exp = match &digests {
				Some(d) => js(&d[k][h]),
				None => Exp::Unjudged,
			};
			judge(cx.rep, hname, &code, &exp, &o, &[Arg::S(t.clone())], *i);
		}
	}
	if digests.is_none() {
		cx.rep.notes.push("python3 hashlib oracle unavailable: digests not judged".into());
	}
	// parseJson / parseYaml on JSON documents
	let docs = json_docs();
	for d in &docs {
		let i = cx.idx;
		cx.idx += 1;
		if !cx.shard.mine(i) {
			continue;
		}
		for f in ["parseJson", "parseYaml"] {
			let args = [Arg::S(d.clone())];
			let code = call_text(f, &args);
			let o = cx.imp.run(&code);
			let exp = expect(f, &args);
			judge(cx.rep, f, &code, &exp, &o, &args, i);
		}
	}
}

pub fn json_docs() -> Vec<String> {
	let scalars = ["null", "true", "false", "0", "-1.5", "1e3", "9007199254740993", "\"\"", "\"a\\\"b\"", "\"\\u00e9\\ud83d\\ude00\"", "[]", "{}"];
	let mut docs: Vec<String> = scalars.iter().map(|x| (*x).to_owned()).collect();
	for a in scalars {
		for b in scalars {
			docs.push(format!("[{a},{b}]"));
			docs.push(format!("{{\"k\":{a},\"\":{b}}}"));
			docs.push(format!("{{\"a\":[{a},{{\"b\":{b}}}]}}"));
		}
	}
	// malformed
	docs.extend(["", "[1,]", "{\"a\":1,}", "{a:1}", "'a'", "[1 2]", "01", "1.", "\"\\x\"", "nul", "[", "{\"a\"}", "\"a\nb\""].map(String::from));
	docs
}

fn python_digests(texts: &[String]) -> Option<Vec<[String; 5]>> {
	let script = format!("{}/oracles/digests.py", verif_root());
	let mut child = Command::new(crate::common::python()).arg(&script).stdin(std::process::Stdio::piped()).stdout(std::process::Stdio::piped()).spawn().ok()?;
	{
		let mut stdin = child.stdin.take()?;
		let payload = serde_json::to_string(texts).ok()?;
		stdin.write_all(payload.as_bytes()).ok()?;
	}
	let out = child.wait_with_output().ok()?;
	if !out.status.success() {
		return None;
	}
	let v: Vec<Vec<String>> = serde_json::from_slice(&out.stdout).ok()?;
	Some(v.into_iter().map(|x| [x[0].clone(), x[1].clone(), x[2].clone(), x[3].clone(), x[4].clone()]).collect())
}

fn replay(v: &Value) -> (bool, String) {
	let f = v["f"].as_str().unwrap_or("");
	let args: Vec<Arg> = v["args"]
		.as_array()
		.map(|a| {
			a.iter()
				.map(|x| {
					if let Some(s) = x["s"].as_str() {
						Arg::S(s.to_owned())
					} else if let Some(i) = x["i"].as_i64() {
						Arg::I(i)
					} else {
						Arg::B(x["b"].as_array().map(|b| b.iter().map(|y| y.as_u64().unwrap_or(0) as u8).collect()).unwrap_or_default())
					}
				})
				.collect()
		})
		.unwrap_or_default();
	let imp = Imp::new();
	let code = call_text(f, &args);
	let exp = expect(f, &args);
	let o = imp.run(&code);
	let mut rep = Report::new();
	judge(&mut rep, f, &code, &exp, &o, &args, 1);
	let _ = HashMap::<u8, u8>::new();
	(!rep.violations.is_empty(), format!("{code}\nexpected {exp:?}\nimplementation {}", o.short()))
}
