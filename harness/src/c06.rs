//! C06 — the bundled parsers accept the same language and build the same tree.
//!
//! parts: `seq` (E3: all short token/character sequences; default vs legacy vs syntax-tree parser),
//! `gen` (E1: every generated program printed with minimal parentheses must parse, in both parsers, to
//! the generator's own tree), `lit` (literal decoding against the harness's decoder), `mut` (single-token
//! mutations of the repository's parser/formatter test inputs).

use serde_json::{json, Value};

use crate::{
	ast::{self, canon, print, Ex},
	c04::src_spaces,
	canon::canon_expr,
	common::{fnv, guarded, panic_class, CheckSpec, Journal, PartSpec, Report, Shard, Tier, Violation},
	enumr::{explore, for_each_seq},
	gen::{gen_expr, GenCfg, Scope},
	Check,
};

pub const CHECK: Check = Check {
	id: "C06",
	spec,
	work,
	replay,
};

fn spec(tier: Tier) -> CheckSpec {
	let n = crate::common::ncpu();
	CheckSpec {
		property: "C06",
		level: "exploration",
		rule: "exhaustive: (seq) every token sequence up to the length bound over the 24/38-token alphabets (joined by space and by nothing), every character string up to the bound over the 17-char alphabet, every number-like string <= 5 over {0,1,9,_,.,e,E,+,-,x} and every text-block-like string `|||`+<=6 over {|,\\n,space,tab,a,-}: default and legacy parser must both reject or both accept with equal span-erased trees, and the syntax-tree parser must report no error exactly when they accept; \
			(gen) every program of the whole-grammar generator with <= k non-literal constructs (k=3 quick, 4 thorough), printed with only the parentheses the specified precedence/associativity table requires: both parsers must produce the generator's tree; \
			(lit) every string literal of <= 3 items over an escape alphabet in double/single/verbatim quoting and every generated text block: decoded value must equal the harness's decoder; \
			(mut) every single-token deletion/duplication/replacement of the repository's parser and formatter test inputs: parsers must agree. non-trivial = distinct source text accepted by at least one parser"
			.into(),
		assumptions: vec![
			"the specified grammar is the Jsonnet reference grammar (precedence table of the language specification); the harness printer/decoder is the trusted statement of it".into(),
			"sequences longer than the bounds and tokens outside the alphabets are not explored".into(),
		],
		parts: vec![
			PartSpec::new("seq", n, tier.q(900, 14400)),
			PartSpec::new("gen", n, tier.q(900, 14400)),
			PartSpec::new("lit", n.min(4), tier.q(900, 3600)),
			PartSpec::new("mut", n, tier.q(900, 3600)),
		],
		totality: false,
		exhaustive: true,
		min_outcomes: 10,
	}
}

fn work(shard: &Shard, journal: &Journal, rep: &mut Report) {
	match shard.part.as_str() {
		"seq" => part_seq(shard, journal, rep),
		"gen" => part_gen(shard, journal, rep),
		"lit" => part_lit(shard, journal, rep),
		"mut" => part_mut(shard, journal, rep),
		p => panic!("unknown part {p}"),
	}
}

#[derive(Debug, Clone, PartialEq)]
pub enum P {
	Ok(String),
	/// message, byte/char offset reported
	Rej(String, usize),
	Panic(String),
}
impl P {
	fn tag(&self) -> &'static str {
		match self {
			P::Ok(_) => "accept",
			P::Rej(..) => "reject",
			P::Panic(_) => "panic",
		}
	}
}

pub fn parse_default(text: &str) -> P {
	let source = jrsonnet_ir::Source::new_virtual("<c06>".into(), text.into());
	match guarded(|| jrsonnet_ir_parser::parse(text, &jrsonnet_ir_parser::ParserSettings { source }).map(|e| canon_expr(&e)).map_err(|e| (e.message, e.location.offset))) {
		Ok(Ok(c)) => P::Ok(c),
		Ok(Err((m, o))) => P::Rej(m, o),
		Err(p) => P::Panic(p),
	}
}
pub fn parse_legacy(text: &str) -> P {
	let source = jrsonnet_ir::Source::new_virtual("<c06>".into(), text.into());
	match guarded(|| jrsonnet_peg_parser::parse(text, &jrsonnet_peg_parser::ParserSettings { source }).map(|e| canon_expr(&e)).map_err(|e| (format!("{}", e.expected), e.location.offset))) {
		Ok(Ok(c)) => P::Ok(c),
		Ok(Err((m, o))) => P::Rej(m, o),
		Err(p) => P::Panic(p),
	}
}
pub fn parse_rowan(text: &str) -> P {
	match guarded(|| {
		let errs = jrsonnet_rowan_parser::parse(text).1;
		// the error that sits on a unary `+` (a known gap of this parser) is reported in preference to its
		// follow-up errors, otherwise the first one
		let all: Vec<(String, usize)> = errs.iter().map(|e| (format!("{}", e.error), u32::from(e.range.start()) as usize)).collect();
		let pick = all.iter().find(|(m, o)| m.starts_with("missing expression") && kind_at(text, *o) == "PLUS").or_else(|| all.first()).cloned();
		pick.map(|(m, o)| (m, o, all.len()))
	}) {
		Ok(None) => P::Ok(String::new()),
		Ok(Some((m, o, n))) => P::Rej(format!("{m} (+{} more)", n - 1), o),
		Err(p) => P::Panic(p),
	}
}

/// the default parser's known defect: a unary operator whose operand is a multiplicative expression
/// do two trees consist of the same nodes, merely regrouped, with unary and multiplicative operators involved?
/// (the signature of the default parser's unary binding-power defect)
fn unary_mul_regrouping(a: &str, b: &str) -> bool {
	let norm = |t: &str| {
		let mut v: Vec<String> = t.split(' ').map(|x| x.trim_matches(|c| c == '(' || c == ')').to_owned()).collect();
		v.sort();
		v
	};
	let has = |t: &str| t.contains("(un ") && (t.contains("(bin * ") || t.contains("(bin / ") || t.contains("(bin % "));
	a != b && has(a) && has(b) && norm(a) == norm(b)
}

fn op_level(op: &str) -> &'static str {
	match op {
		"*" | "/" | "%" => "mul",
		"+" | "-" => "add",
		"<<" | ">>" => "shift",
		"<" | ">" | "<=" | ">=" | "in" => "cmp",
		"==" | "!=" => "eq",
		"&" => "bitand",
		"^" => "bitxor",
		"|" => "bitor",
		"&&" => "and",
		"||" => "or",
		_ => "?",
	}
}

/// where two canonical trees first differ: `expected-head got-head`, binary operators reduced to their
/// precedence level and everything that is not an operator node to `operand`, so that one
/// precedence/associativity defect is one class
pub fn tree_diff_key(a: &str, b: &str) -> String {
	let pa: Vec<&str> = a.split(' ').collect();
	let pb: Vec<&str> = b.split(' ').collect();
	let mut i = 0;
	while i < pa.len() && i < pb.len() && pa[i] == pb[i] {
		i += 1;
	}
	let head = |p: &[&str], i: usize, coarse: bool| -> String {
		let t = p.get(i).copied().unwrap_or("<end>").trim_matches(|c| c == '(' || c == ')');
		let prev = if i > 0 { p[i - 1].trim_matches('(') } else { "" };
		if prev == "bin" {
			return if coarse { "bin".to_owned() } else { format!("bin[{}]", op_level(t)) };
		}
		if prev == "un" {
			return "un".to_owned();
		}
		match t {
			"bin" => {
				if coarse {
					"bin".to_owned()
				} else {
					format!("bin[{}]", op_level(p.get(i + 1).copied().unwrap_or("")))
				}
			}
			"un" => "un".to_owned(),
			t if t.starts_with('"') => "string-content".to_owned(),
			t if t.len() == 16 && t.chars().all(|c| c.is_ascii_hexdigit()) => "number-bits".to_owned(),
			"str" | "num" | "var" | "arr" | "obj" | "null" | "true" | "false" | "self" | "$" | "index" | "apply" | "slice" | "objext" | "arrcomp" | "if" | "local" | "fn" | "error" | "assertexpr" | "import" | "super" => "operand".to_owned(),
			t => t.chars().take(24).collect(),
		}
	};
	format!("expected {} got {}", head(&pa, i, false), head(&pb, i, true))
}

pub fn norm_msg_pub(m: &str) -> String {
	norm_msg(m)
}
fn norm_msg(m: &str) -> String {
	let mut out = String::new();
	let mut in_q = false;
	for c in m.chars() {
		if c == '"' {
			in_q = !in_q;
			if !in_q {
				out.push_str("\"..\"");
			}
			continue;
		}
		if in_q {
			continue;
		}
		out.push(if c.is_ascii_digit() { '#' } else { c });
		if out.len() > 70 {
			break;
		}
	}
	out.replace("::", ":")
}
/// token kind at a byte offset
fn kind_at(text: &str, off: usize) -> String {
	for l in jrsonnet_lexer::Lexer::new(text) {
		if (l.range.0 as usize) <= off && off < (l.range.1 as usize) {
			return format!("{:?}", l.kind);
		}
	}
	"EOF".into()
}
fn first_lex_error(text: &str) -> Option<String> {
	jrsonnet_lexer::Lexer::new(text).map(|l| format!("{:?}", l.kind)).find(|k| k.starts_with("ERROR") || k == "LEXING_ERROR")
}
fn prev_kind(text: &str, off: usize) -> String {
	let mut prev = "BOF".to_owned();
	for l in jrsonnet_lexer::Lexer::new(text) {
		if (l.range.0 as usize) >= off {
			break;
		}
		let k = format!("{:?}", l.kind);
		if k != "WHITESPACE" {
			prev = k;
		}
	}
	prev
}

pub fn compare(rep: &mut Report, text: &str, expect: Option<&str>, cost: u32, _ctx: &str) {
	let d = parse_default(text);
	let l = parse_legacy(text);
	let r = parse_rowan(text);
	let nontrivial = matches!(d, P::Ok(_)) || matches!(l, P::Ok(_));
	rep.case(nontrivial.then(|| fnv(text.as_bytes())), fnv(format!("{}{}{}", d.tag(), l.tag(), r.tag()).as_bytes()) ^ if let P::Ok(c) = &d { fnv(c.split(' ').next().unwrap_or("").as_bytes()) } else { 0 });
	let mut viol = |class: String, detail: String| {
		rep.violation(Violation {
			class,
			witness: text.to_owned(),
			detail,
			cost: cost + text.len() as u32 / 8,
			replay: json!({"kind": "text", "text": text, "expect": expect}),
		});
	};
	for (name, p) in [("default", &d), ("legacy", &l), ("syntax-tree", &r)] {
		if let P::Panic(m) = p {
			viol(format!("{name}-parser {}", panic_class(m)), format!("{name} parser panicked: {m}"));
		}
	}
	match (&d, &l) {
		(P::Ok(a), P::Ok(b)) => {
			if a != b {
				let key = if unary_mul_regrouping(a, b) { "unary operator applied to a whole * / % expression by the default parser".to_owned() } else { tree_diff_key(a, b) };
				viol(format!("tree-mismatch default-vs-legacy {key}"), format!("default: {a}\nlegacy:  {b}"));
			}
		}
		(P::Ok(_), P::Rej(m, o)) => {
			// the PEG parser reports character offsets
			let boff = text.char_indices().nth(*o).map_or(text.len(), |x| x.0);
			viol(format!("accept-mismatch default=accept legacy=reject at {}", kind_at(text, boff)), format!("legacy parser at {o}: expected {m}"))
		}
		(P::Rej(m, o), P::Ok(_)) => viol(format!("accept-mismatch default=reject legacy=accept: {} at {}", norm_msg(m), kind_at(text, *o)), format!("default parser at {o}: {m}")),
		_ => {}
	}
	match (&d, &r) {
		(P::Ok(_), P::Rej(m, o)) => {
			let msg = norm_msg(m.split(" (+").next().unwrap_or(""));
			// a generic "missing expression" is keyed by the token at which the expression was expected
			let at = if msg == "missing expression" { format!(" at {}", kind_at(text, *o)) } else { String::new() };
			viol(format!("syntax-tree-parser reports errors on accepted text: {msg}{at}"), format!("at {o}: {m}"))
		}
		(P::Rej(m, o), P::Ok(_)) => match first_lex_error(text) {
			Some(k) => viol(format!("syntax-tree-parser silent on lexer error token {k}"), format!("default parser at {o}: {m}")),
			None => viol(format!("syntax-tree-parser silent on rejected text: {} at {}", norm_msg(m), kind_at(text, *o)), format!("default parser at {o}: {m}")),
		},
		_ => {}
	}
	if let Some(exp) = expect {
		for (name, p) in [("default", &d), ("legacy", &l)] {
			match p {
				P::Ok(c) if c != exp => {
					let key = if unary_mul_regrouping(exp, c) { "unary operator applied to a whole * / % expression".to_owned() } else { tree_diff_key(exp, c) };
					viol(format!("tree-differs-from-grammar {name} {key}"), format!("expected: {exp}\n{name}: {c}"))
				}
				P::Rej(m, o) => {
					let boff = if name == "legacy" { text.char_indices().nth(*o).map_or(text.len(), |x| x.0) } else { *o };
					viol(format!("valid-program-rejected {name}: {} after {} at {}", if name == "legacy" { String::new() } else { norm_msg(m) }, prev_kind(text, boff), kind_at(text, boff)), format!("{name} parser rejected a grammatical program at {o}: {m}"))
				}
				_ => {}
			}
		}
	}
}

fn part_seq(shard: &Shard, journal: &Journal, rep: &mut Report) {
	let mut spaces: Vec<(&str, Vec<&str>, &str, usize, &str)> = src_spaces(shard.tier).into_iter().map(|(n, a, j, l)| (n, a, j, l, "")).collect();
	spaces.push(("numbers", vec!["0", "1", "9", "_", ".", "e", "E", "+", "-", "x"], "", shard.tier.q(5, 6), ""));
	spaces.push(("textblock", vec!["|", "\n", " ", "\t", "a", "-"], "", shard.tier.q(6, 8), "|||"));
	let mut base = 0u64;
	for (name, alpha, join, maxlen, prefix) in spaces {
		let n = for_each_seq(alpha.len(), 0, maxlen, |i, seq| {
			let idx = base + i;
			if !shard.mine(idx) {
				return;
			}
			let mut text: String = prefix.to_owned();
			text.push_str(&seq.iter().map(|s| alpha[*s]).collect::<Vec<_>>().join(join));
			journal.note(idx, "seq", &text);
			compare(rep, &text, None, seq.len() as u32, name);
			if idx % 100_003 == 0 {
				rep.sample(|| json!({"space": name, "text": text}));
			}
		});
		base += n;
	}
	rep.count("seq_indexed", base / shard.n);
}

pub fn gen_budget(tier: Tier) -> u32 {
	tier.q(3, 4)
}

fn part_gen(shard: &Shard, journal: &Journal, rep: &mut Report) {
	let cfg = GenCfg { syntax_only: true, objects: true };
	let total = explore(gen_budget(shard.tier), |c, idx| {
		if !shard.mine(idx) {
			// still must drive the generator to keep the enumeration aligned
			let _ = gen_expr(c, &Scope::default(), cfg);
			return;
		}
		let e = gen_expr(c, &Scope::default(), cfg);
		let text = print(&e);
		journal.note(idx, "gen", &text);
		let exp = canon(&e);
		compare(rep, &text, Some(&exp), c.used(), "gen");
		// bracket-style field access and fully parenthesised form must give the same tree
		let text2 = ast::print_with(&e, ast::PrintOpts { dot_index: false });
		if text2 != text {
			compare(rep, &text2, Some(&exp), c.used(), "gen");
		}
		if idx % 50_021 == 0 {
			rep.sample(|| json!({"program": text, "tree": exp}));
		}
	});
	rep.count("gen_programs", total / shard.n);
}

// --- literal decoding -------------------------------------------------------------------------

/// items of the escape alphabet: (source inside double quotes, source inside single quotes, decoded)
pub const ESC: &[(&str, &str)] = &[
	("a", "a"),
	("\\n", "\n"),
	("\\t", "\t"),
	("\\\\", "\\"),
	("\\\"", "\""),
	("\\'", "'"),
	("\\/", "/"),
	("\\b", "\u{8}"),
	("\\f", "\u{c}"),
	("\\r", "\r"),
	("\\u00e9", "é"),
	("\\u0041", "A"),
	("é", "é"),
	("😀", "😀"),
	("\\ud83d\\ude00", "😀"),
	(" ", " "),
	("%", "%"),
];

fn expect_str(v: &str) -> String {
	canon(&Ex::Str(v.to_owned()))
}

fn part_lit(shard: &Shard, journal: &Journal, rep: &mut Report) {
	let mut base = 0u64;
	// escapes in double and single quotes
	let n = for_each_seq(ESC.len(), 0, 3, |i, seq| {
		if !shard.mine(i) {
			return;
		}
		let src: String = seq.iter().map(|k| ESC[*k].0).collect();
		let val: String = seq.iter().map(|k| ESC[*k].1).collect();
		for q in ['"', '\''] {
			let text = format!("{q}{src}{q}");
			journal.note(i, "lit", &text);
			compare(rep, &text, Some(&expect_str(&val)), seq.len() as u32, "lit");
		}
	});
	base += n;
	// verbatim strings: doubled quote is the only escape
	let vitems: &[(&str, &str, &str)] = &[("a", "a", "a"), ("\\", "\\", "\\"), ("\\n", "\\n", "\\n"), ("\"\"", "\"", "\"\""), ("''", "''", "'"), ("\n", "\n", "\n"), ("é", "é", "é")];
	let n = for_each_seq(vitems.len(), 0, 3, |i, seq| {
		if !shard.mine(base + i) {
			return;
		}
		let src: String = seq.iter().map(|k| vitems[*k].0).collect();
		let vd: String = seq.iter().map(|k| vitems[*k].1).collect();
		let vs: String = seq.iter().map(|k| vitems[*k].2).collect();
		let t1 = format!("@\"{src}\"");
		compare(rep, &t1, Some(&expect_str(&vd)), seq.len() as u32, "lit");
		let t2 = format!("@'{src}'");
		compare(rep, &t2, Some(&expect_str(&vs)), seq.len() as u32, "lit");
	});
	base += n;
	// text blocks: lines from a small alphabet, indentation in {1 space, 2 spaces, tab}, optional chomp, blank lines
	let lines: &[&str] = &["a", "", " b", "\tc", "|||x", "é"];
	let indents: &[&str] = &[" ", "  ", "\t"];
	let n = for_each_seq(lines.len(), 1, 3, |i, seq| {
		if !shard.mine(base + i) {
			return;
		}
		for ind in indents {
			for chomp in [false, true] {
				for term_indent in ["", " "] {
					// the first line must be non-empty (it defines the indentation)
					if lines[seq[0]].is_empty() || lines[seq[0]].starts_with([' ', '\t']) || term_indent.starts_with(ind) {
						continue;
					}
					let mut text = String::from("|||");
					if chomp {
						text.push('-');
					}
					text.push('\n');
					let mut val = String::new();
					for k in seq {
						let l = lines[*k];
						if l.is_empty() {
							text.push('\n');
						} else {
							text.push_str(ind);
							text.push_str(l);
							text.push('\n');
						}
						val.push_str(l);
						val.push('\n');
					}
					text.push_str(term_indent);
					text.push_str("|||");
					if chomp {
						val.pop();
					}
					compare(rep, &text, Some(&expect_str(&val)), seq.len() as u32, "lit");
				}
			}
		}
	});
	base += n;
	// numbers
	let nums: &[(&str, f64)] = &[
		("0", 0.0),
		("1", 1.0),
		("10", 10.0),
		("1.5", 1.5),
		("1e3", 1000.0),
		("1E3", 1000.0),
		("1e+3", 1000.0),
		("1e-3", 0.001),
		("1.5e1", 15.0),
		("1_000", 1000.0),
		("1_0.5_0", 10.5),
		("0.1", 0.1),
		("9007199254740993", 9007199254740992.0),
		("123456789012345678901234567890", 123456789012345678901234567890.0),
		("1e308", 1e308),
		("5e-324", 5e-324),
		("0e0", 0.0),
	];
	for (i, (t, v)) in nums.iter().enumerate() {
		if !shard.mine(base + i as u64) {
			continue;
		}
		compare(rep, t, Some(&canon(&Ex::Num(*v))), 1, "lit");
	}
	rep.count("lit_indexed", (base + nums.len() as u64) / shard.n);
}

// --- single-token mutations ---------------------------------------------------------------------

pub fn repo_inputs() -> Vec<(String, String)> {
	let mut out = Vec::new();
	for dir in ["/repo/crates/jrsonnet-peg-parser/src/tests", "/repo/crates/jrsonnet-formatter/src/tests", "/repo/tests/suite", "/repo/tests/golden"] {
		let Ok(rd) = std::fs::read_dir(dir) else { continue };
		let mut files: Vec<_> = rd.filter_map(Result::ok).map(|e| e.path()).filter(|p| p.extension().is_some_and(|e| e == "jsonnet")).collect();
		files.sort();
		for f in files {
			if let Ok(t) = std::fs::read_to_string(&f) {
				out.push((f.display().to_string(), t));
			}
		}
	}
	out
}

fn part_mut(shard: &Shard, journal: &Journal, rep: &mut Report) {
	let inputs = repo_inputs();
	rep.count("mut_input_files", inputs.len() as u64 / shard.n.max(1));
	let repl: Vec<&str> = crate::c04::TOK_FULL.to_vec();
	let mut idx = 0u64;
	let max_tokens = shard.tier.q(120, 100_000);
	for (name, text) in &inputs {
		// the unmutated input itself
		if shard.mine(idx) {
			compare(rep, text, None, 0, "mut");
		}
		idx += 1;
		let toks: Vec<(usize, usize)> = jrsonnet_lexer::Lexer::new(text).collect::<Vec<_>>().iter().filter(|l| format!("{:?}", l.kind) != "WHITESPACE").map(|l| (l.range.0 as usize, l.range.1 as usize)).collect();
		for (ti, (a, b)) in toks.iter().enumerate().take(max_tokens) {
			// delete, duplicate, replace by each alphabet token
			let mut variants: Vec<String> = Vec::with_capacity(repl.len() + 2);
			variants.push(format!("{}{}", &text[..*a], &text[*b..]));
			variants.push(format!("{}{} {}{}", &text[..*a], &text[*a..*b], &text[*a..*b], &text[*b..]));
			if shard.tier == Tier::Thorough || ti % 4 == 0 {
				for r in &repl {
					variants.push(format!("{}{}{}", &text[..*a], r, &text[*b..]));
				}
			}
			for v in variants {
				if shard.mine(idx) {
					journal.note(idx, "mut", name);
					compare(rep, &v, None, 1, "mut");
					if idx % 40_009 == 0 {
						rep.sample(|| json!({"file": name, "mutant_of_token": &text[*a..*b], "text_head": v.chars().take(120).collect::<String>()}));
					}
				}
				idx += 1;
			}
		}
	}
	rep.count("mut_indexed", idx / shard.n);
}

fn replay(v: &Value) -> (bool, String) {
	let text = v["text"].as_str().unwrap_or("");
	let expect = v["expect"].as_str();
	let mut rep = Report::new();
	compare(&mut rep, text, expect, 0, "replay");
	let bad = !rep.violations.is_empty();
	let mut out = format!("text: {text:?}\ndefault: {:?}\nlegacy: {:?}\nsyntax-tree: {:?}\n", parse_default(text), parse_legacy(text), parse_rowan(text));
	for (c, (_, ws)) in &rep.violations {
		out.push_str(&format!("class: {c}\n{}\n", ws[0].detail));
	}
	(bad, out)
}
