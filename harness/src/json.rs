//! Strict RFC 8259 JSON reader written for the harness (independent of serde_json, which the
//! implementation's std.parseJson uses).

#[derive(Clone, Debug)]
pub enum J {
	Null,
	Bool(bool),
	Num(f64),
	Str(String),
	Arr(Vec<J>),
	/// keys in document order
	Obj(Vec<(String, J)>),
}
impl PartialEq for J {
	fn eq(&self, o: &Self) -> bool {
		match (self, o) {
			(J::Null, J::Null) => true,
			(J::Bool(a), J::Bool(b)) => a == b,
			// bit-exact: -0 differs from 0
			(J::Num(a), J::Num(b)) => a.to_bits() == b.to_bits(),
			(J::Str(a), J::Str(b)) => a == b,
			(J::Arr(a), J::Arr(b)) => a == b,
			(J::Obj(a), J::Obj(b)) => a == b,
			_ => false,
		}
	}
}

struct P<'a> {
	s: &'a [u8],
	i: usize,
	depth: usize,
}

pub fn parse(text: &str) -> Result<J, String> {
	let mut p = P { s: text.as_bytes(), i: 0, depth: 0 };
	p.ws();
	let v = p.value()?;
	p.ws();
	if p.i != p.s.len() {
		return Err(format!("trailing characters at byte {}", p.i));
	}
	Ok(v)
}

impl P<'_> {
	fn ws(&mut self) {
		while self.i < self.s.len() && matches!(self.s[self.i], b' ' | b'\t' | b'\n' | b'\r') {
			self.i += 1;
		}
	}
	fn peek(&self) -> Option<u8> {
		self.s.get(self.i).copied()
	}
	fn expect(&mut self, lit: &str) -> Result<(), String> {
		if self.s[self.i..].starts_with(lit.as_bytes()) {
			self.i += lit.len();
			Ok(())
		} else {
			Err(format!("expected {lit} at byte {}", self.i))
		}
	}
	fn value(&mut self) -> Result<J, String> {
		self.depth += 1;
		if self.depth > 2000 {
			return Err("nesting too deep".into());
		}
		let r = match self.peek() {
			None => Err("unexpected end".into()),
			Some(b'n') => self.expect("null").map(|()| J::Null),
			Some(b't') => self.expect("true").map(|()| J::Bool(true)),
			Some(b'f') => self.expect("false").map(|()| J::Bool(false)),
			Some(b'"') => self.string().map(J::Str),
			Some(b'[') => {
				self.i += 1;
				let mut out = Vec::new();
				self.ws();
				if self.peek() == Some(b']') {
					self.i += 1;
					Ok(J::Arr(out))
				} else {
					loop {
						self.ws();
						out.push(self.value()?);
						self.ws();
						match self.peek() {
							Some(b',') => self.i += 1,
							Some(b']') => {
								self.i += 1;
								break Ok(J::Arr(out));
							}
							_ => break Err(format!("expected , or ] at byte {}", self.i)),
						}
					}
				}
			}
			Some(b'{') => {
				self.i += 1;
				let mut out: Vec<(String, J)> = Vec::new();
				self.ws();
				if self.peek() == Some(b'}') {
					self.i += 1;
					Ok(J::Obj(out))
				} else {
					loop {
						self.ws();
						if self.peek() != Some(b'"') {
							break Err(format!("expected key at byte {}", self.i));
						}
						let k = self.string()?;
						if out.iter().any(|(x, _)| *x == k) {
							break Err(format!("duplicate key {k:?}"));
						}
						self.ws();
						if self.peek() != Some(b':') {
							break Err(format!("expected : at byte {}", self.i));
						}
						self.i += 1;
						self.ws();
						let v = self.value()?;
						out.push((k, v));
						self.ws();
						match self.peek() {
							Some(b',') => self.i += 1,
							Some(b'}') => {
								self.i += 1;
								break Ok(J::Obj(out));
							}
							_ => break Err(format!("expected , or }} at byte {}", self.i)),
						}
					}
				}
			}
			Some(b'-' | b'0'..=b'9') => self.number(),
			Some(c) => Err(format!("unexpected byte {c:#x} at {}", self.i)),
		};
		self.depth -= 1;
		r
	}
	fn number(&mut self) -> Result<J, String> {
		let start = self.i;
		if self.peek() == Some(b'-') {
			self.i += 1;
		}
		match self.peek() {
			Some(b'0') => self.i += 1,
			Some(b'1'..=b'9') => {
				while matches!(self.peek(), Some(b'0'..=b'9')) {
					self.i += 1;
				}
			}
			_ => return Err(format!("bad number at byte {start}")),
		}
		if self.peek() == Some(b'.') {
			self.i += 1;
			if !matches!(self.peek(), Some(b'0'..=b'9')) {
				return Err(format!("bad fraction at byte {}", self.i));
			}
			while matches!(self.peek(), Some(b'0'..=b'9')) {
				self.i += 1;
			}
		}
		if matches!(self.peek(), Some(b'e' | b'E')) {
			self.i += 1;
			if matches!(self.peek(), Some(b'+' | b'-')) {
				self.i += 1;
			}
			if !matches!(self.peek(), Some(b'0'..=b'9')) {
				return Err(format!("bad exponent at byte {}", self.i));
			}
			while matches!(self.peek(), Some(b'0'..=b'9')) {
				self.i += 1;
			}
		}
		let t = std::str::from_utf8(&self.s[start..self.i]).unwrap();
		let n: f64 = t.parse().map_err(|_| format!("unparsable number {t}"))?;
		if !n.is_finite() {
			return Err(format!("number {t} is not finite as a double"));
		}
		Ok(J::Num(n))
	}
	fn hex4(&mut self) -> Result<u32, String> {
		if self.i + 4 > self.s.len() {
			return Err("truncated \\u escape".into());
		}
		let t = std::str::from_utf8(&self.s[self.i..self.i + 4]).map_err(|_| "bad \\u escape".to_owned())?;
		if !t.bytes().all(|b| b.is_ascii_hexdigit()) {
			return Err(format!("bad \\u escape {t:?}"));
		}
		self.i += 4;
		Ok(u32::from_str_radix(t, 16).unwrap())
	}
	fn string(&mut self) -> Result<String, String> {
		self.i += 1;
		let mut out = String::new();
		loop {
			let Some(c) = self.peek() else {
				return Err("unterminated string".into());
			};
			match c {
				b'"' => {
					self.i += 1;
					return Ok(out);
				}
				b'\\' => {
					self.i += 1;
					let Some(e) = self.peek() else {
						return Err("unterminated escape".into());
					};
					self.i += 1;
					match e {
						b'"' => out.push('"'),
						b'\\' => out.push('\\'),
						b'/' => out.push('/'),
						b'b' => out.push('\u{8}'),
						b'f' => out.push('\u{c}'),
						b'n' => out.push('\n'),
						b'r' => out.push('\r'),
						b't' => out.push('\t'),
						b'u' => {
							let u = self.hex4()?;
							let cp = if (0xD800..0xDC00).contains(&u) {
								if self.s[self.i..].starts_with(b"\\u") {
									self.i += 2;
									let lo = self.hex4()?;
									if !(0xDC00..0xE000).contains(&lo) {
										return Err("unpaired surrogate".into());
									}
									0x10000 + ((u - 0xD800) << 10) + (lo - 0xDC00)
								} else {
									return Err("unpaired surrogate".into());
								}
							} else if (0xDC00..0xE000).contains(&u) {
								return Err("unpaired low surrogate".into());
							} else {
								u
							};
							out.push(char::from_u32(cp).ok_or("bad code point")?);
						}
						other => return Err(format!("bad escape \\{}", other as char)),
					}
				}
				0..=0x1f => return Err(format!("raw control character {c:#x} in string")),
				_ => {
					// copy one UTF-8 scalar
					let rest = std::str::from_utf8(&self.s[self.i..]).map_err(|_| "invalid utf-8".to_owned())?;
					let ch = rest.chars().next().unwrap();
					out.push(ch);
					self.i += ch.len_utf8();
				}
			}
		}
	}
}

/// keys ascending?
pub fn keys_sorted(j: &J) -> bool {
	match j {
		J::Obj(kv) => kv.windows(2).all(|w| w[0].0 < w[1].0) && kv.iter().all(|(_, v)| keys_sorted(v)),
		J::Arr(a) => a.iter().all(keys_sorted),
		_ => true,
	}
}
