//! Thin wrapper around the real implementation (public API of the crates in /repo only).

use std::{
	cell::RefCell,
	collections::{BTreeMap, HashMap},
	rc::Rc,
};

use jrsonnet_evaluator::{
	error::{Error, ErrorKind},
	function::CallLocation,
	manifest::JsonFormat,
	tla::TlaArg,
	trace::PathResolver,
	AsPathLike, IStr, ImportResolver, State, Val,
};
use jrsonnet_gcmodule::Acyclic;
use jrsonnet_ir::{Source, SourcePath, SourceVirtual};
use jrsonnet_stdlib::{ContextInitializer, TracePrinter};

use crate::common::guarded;

/// Collects std.trace events instead of printing them
#[derive(Acyclic)]
pub struct CollectTraces {
	pub events: Rc<RefCell<Vec<String>>>,
}
impl TracePrinter for CollectTraces {
	fn print_trace(&self, _loc: CallLocation, value: IStr) {
		self.events.borrow_mut().push(value.to_string());
	}
}

/// In-memory import resolver: file name -> contents; records calls
#[derive(Acyclic)]
pub struct MemResolver {
	pub files: Rc<RefCell<BTreeMap<String, Vec<u8>>>>,
	pub log: Rc<RefCell<Vec<String>>>,
}
impl ImportResolver for MemResolver {
	fn resolve_from(&self, _from: &SourcePath, path: &dyn AsPathLike) -> jrsonnet_evaluator::Result<SourcePath> {
		let p: &std::path::Path = &path.as_path().as_ref().to_owned();
		let name = p.to_string_lossy().into_owned();
		self.log.borrow_mut().push(format!("resolve {name}"));
		if self.files.borrow().contains_key(&name) {
			Ok(SourcePath::new(SourceVirtual(name.as_str().into())))
		} else {
			Err(ErrorKind::RuntimeError(format!("mem resolver: no file {name}").into()).into())
		}
	}
	fn load_file_contents(&self, resolved: &SourcePath) -> jrsonnet_evaluator::Result<Vec<u8>> {
		if let Some(f) = resolved.downcast_ref::<jrsonnet_ir::SourceFifo>() {
			// inline code (ext-code / tla-code) is served from the path itself, as the file resolver does
			return Ok(f.1.to_vec());
		}
		let Some(v) = resolved.downcast_ref::<SourceVirtual>() else {
			return Err(ErrorKind::RuntimeError("mem resolver: bad path".into()).into());
		};
		self.log.borrow_mut().push(format!("load {}", v.0));
		self.files
			.borrow()
			.get(v.0.as_str())
			.cloned()
			.ok_or_else(|| ErrorKind::RuntimeError("mem resolver: vanished".into()).into())
	}
}

#[derive(Clone, Copy, PartialEq, Eq, Debug)]
pub enum Parser {
	Default,
	Legacy,
}

pub struct Imp {
	pub state: State,
	pub ci: ContextInitializer,
	pub traces: Rc<RefCell<Vec<String>>>,
	pub files: Rc<RefCell<BTreeMap<String, Vec<u8>>>>,
	pub import_log: Rc<RefCell<Vec<String>>>,
}

/// Outcome of evaluating + manifesting a program with the implementation
#[derive(Clone, Debug, PartialEq)]
pub enum Out {
	/// minified JSON text
	Json(String),
	/// coarse error class, message text
	Err(String, String),
	/// panic (location: message)
	Panic(String),
}
impl Out {
	pub fn short(&self) -> String {
		match self {
			Out::Json(s) => format!("value {s}"),
			Out::Err(c, t) => format!("error[{c}] {}", t.lines().next().unwrap_or("")),
			Out::Panic(p) => format!("PANIC {p}"),
		}
	}
	pub fn is_err(&self) -> bool {
		matches!(self, Out::Err(..))
	}
}

pub fn error_class(e: &Error) -> String {
	let d = format!("{:?}", e.error());
	let end = d.find(|c: char| !(c.is_alphanumeric() || c == '_')).unwrap_or(d.len());
	d[..end].to_owned()
}
pub fn error_out(e: &Error) -> Out {
	Out::Err(error_class(e), format!("{}", e.error()))
}

impl Default for Imp {
	fn default() -> Self {
		Self::new()
	}
}
thread_local! {
	static EVALS_SINCE_GC: std::cell::Cell<u32> = const { std::cell::Cell::new(0) };
}
/// the implementation's values are cycle-collected: long-running workers must collect now and then
pub fn maybe_collect() {
	EVALS_SINCE_GC.with(|c| {
		let n = c.get() + 1;
		if n >= 512 {
			c.set(0);
			jrsonnet_gcmodule::collect_thread_cycles();
		} else {
			c.set(n);
		}
	});
}

impl Imp {
	pub fn new() -> Self {
		let traces = Rc::new(RefCell::new(Vec::new()));
		let files = Rc::new(RefCell::new(BTreeMap::new()));
		let import_log = Rc::new(RefCell::new(Vec::new()));
		let ci = ContextInitializer::new(PathResolver::Absolute);
		ci.settings_mut().trace_printer = Rc::new(CollectTraces { events: traces.clone() });
		let mut b = State::builder();
		b.context_initializer(ci.clone()).import_resolver(MemResolver {
			files: files.clone(),
			log: import_log.clone(),
		});
		let state = b.build();
		Self {
			state,
			ci,
			traces,
			files,
			import_log,
		}
	}
	pub fn add_file(&self, name: &str, contents: &[u8]) {
		self.files.borrow_mut().insert(name.to_owned(), contents.to_vec());
	}
	pub fn take_traces(&self) -> Vec<String> {
		std::mem::take(&mut *self.traces.borrow_mut())
	}

	/// evaluate with the state entered (so nested imports / ext code work), default parser via the public entry point
	pub fn eval(&self, code: &str) -> Result<Val, Error> {
		maybe_collect();
		let _g = self.state.try_enter();
		self.state.evaluate_snippet("<snippet>", code)
	}
	/// evaluate with an explicit parser
	pub fn eval_with(&self, parser: Parser, code: &str) -> Result<Val, Error> {
		maybe_collect();
		let _g = self.state.try_enter();
		let source = Source::new_virtual("<snippet>".into(), code.into());
		let parsed = match parser {
			Parser::Default => jrsonnet_ir_parser::parse(code, &jrsonnet_ir_parser::ParserSettings { source: source.clone() }).map_err(|e| {
				Error::from(ErrorKind::ImportSyntaxError {
					path: source.clone(),
					error: Box::new(jrsonnet_evaluator::SyntaxError {
						message: e.message,
						location: jrsonnet_evaluator::SyntaxErrorLocation { offset: e.location.offset },
					}),
				})
			})?,
			Parser::Legacy => jrsonnet_peg_parser::parse(code, &jrsonnet_peg_parser::ParserSettings { source: source.clone() }).map_err(|e| {
				Error::from(ErrorKind::ImportSyntaxError {
					path: source.clone(),
					error: Box::new(jrsonnet_evaluator::SyntaxError {
						message: format!("{}", e.expected),
						location: jrsonnet_evaluator::SyntaxErrorLocation { offset: e.location.offset },
					}),
				})
			})?,
		};
		jrsonnet_evaluator::evaluate(self.state.create_default_context(source), &parsed)
	}
	pub fn manifest_min(&self, v: &Val) -> Result<String, Error> {
		let _g = self.state.try_enter();
		v.manifest(JsonFormat::minify())
	}
	/// evaluate + manifest (minified), panics caught
	pub fn run(&self, code: &str) -> Out {
		self.run_with(Parser::Default, code)
	}
	pub fn run_with(&self, parser: Parser, code: &str) -> Out {
		match guarded(|| self.eval_with(parser, code).and_then(|v| self.manifest_min(&v))) {
			Ok(Ok(s)) => Out::Json(s),
			Ok(Err(e)) => error_out(&e),
			Err(p) => Out::Panic(p),
		}
	}
	pub fn run_val(&self, f: impl FnOnce() -> Result<Val, Error>) -> Out {
		match guarded(|| f().and_then(|v| self.manifest_min(&v))) {
			Ok(Ok(s)) => Out::Json(s),
			Ok(Err(e)) => error_out(&e),
			Err(p) => Out::Panic(p),
		}
	}
	pub fn apply_tla(&self, v: Val, args: &[(&str, TlaArg)]) -> Result<Val, Error> {
		let _g = self.state.try_enter();
		let mut m: HashMap<IStr, TlaArg> = HashMap::new();
		for (k, a) in args {
			m.insert((*k).into(), a.clone());
		}
		jrsonnet_evaluator::apply_tla(&m, v)
	}
}
