//! C08 — arrays behave identically whatever their internal representation.
//!
//! Compositions of view-producing operations over small base arrays; every composed array is built once
//! and probed (every index around its bounds, length, equality/ordering with a copy, iteration, folds,
//! manifestation); the reference is the reference interpreter, where every array is a plain vector.

use serde_json::{json, Value};

use crate::{
	ast::*,
	c02::Prober,
	common::{fnv, CheckSpec, Journal, PartSpec, Report, Shard, Tier, Violation},
	enumr::for_each_product,
	judge::{compare, Mismatch},
	refi::Verdict,
	Check,
};

pub const CHECK: Check = Check {
	id: "C08",
	spec,
	work,
	replay,
};

fn spec(tier: Tier) -> CheckSpec {
	let n = crate::common::ncpu();
	CheckSpec {
		property: "C08",
		level: "exploration",
		rule: "exhaustive: (small) 12 small base arrays (literal, empty, range, makeArray, string chars, bytes, comprehension, object values, lazily failing element, ...) x every composition of depth <= 2 over the full operation menu (slices a[s:e:t] with s,e in {absent,-9,-1,0,1,2,4} and t in {absent,1,2,3}, std.slice, reverse, repeat 0..3, concatenation on both sides with a literal / a range / a 1000-element range, map, mapWithIndex, filter x3, removeAt x5, flattenArrays, sort, set, join, comprehension copy, makeArray copy, flatMap, filterMap) and depth 3 over a 25-instance reduced menu (thorough: depth 3 full on 4 bases, depth 4 reduced); \
			(big) bases of 999/1000/1001 elements x depth <= 2 over the reduced menu. Probes on every composed array: a[i] for i = -2..8, len-1, len, len+1, len+2, 0.5, 999..1001; length; equality and ordering against a comprehension copy in both directions; toString; comprehension; foldl; reverse[0]; map; concatenation with []; manifestation. Oracle: reference interpreter (arrays are plain vectors). \
			non-trivial = distinct composed expression; failing compositions are shrunk (operations removed) and the minimal composition keys the class"
			.into(),
		assumptions: vec!["the reference definitions of the composed std functions (harness/src/refstd.rs) and of slicing are the trusted statement of the array semantics".into()],
		parts: vec![PartSpec::new("small", n, tier.q(900, 14400)), PartSpec::new("big", n, tier.q(900, 14400))],
		totality: true,
		exhaustive: true,
		min_outcomes: 20,
	}
}

fn n(x: f64) -> Ex {
	num(x)
}

pub fn bases_small() -> Vec<Ex> {
	vec![
		Ex::Arr(vec![]),
		Ex::Arr(vec![n(7.0)]),
		Ex::Arr(vec![n(1.0), n(2.0), n(3.0)]),
		stdcall("range", vec![n(1.0), n(4.0)]),
		stdcall("makeArray", vec![n(3.0), func(&["i"], bin(var("i"), BinOp::Mul, n(10.0)))]),
		stdcall("stringChars", vec![s("aé😀")]),
		stdcall("encodeUTF8", vec![s("ab")]),
		Ex::ArrComp(Box::new(bin(var("x"), BinOp::Mul, var("x"))), vec![Comp::For("x".into(), Ex::Arr(vec![n(1.0), n(2.0), n(3.0)]))]),
		stdcall("objectValues", vec![obj(vec![field("a", Vis::Normal, false, n(1.0)), field("b", Vis::Normal, false, n(2.0))])]),
		Ex::Arr(vec![Ex::Error(Box::new(s("E0"))), n(2.0), n(3.0)]),
		stdcall("range", vec![n(-2.0), n(2.0)]),
		Ex::Arr(vec![s("b"), s("a"), s("b")]),
		// every lazy representation at its boundary sizes 0 and 1
		stdcall("range", vec![n(5.0), n(5.0)]),
		stdcall("range", vec![n(3.0), n(2.0)]),
		stdcall("makeArray", vec![n(1.0), func(&["i"], n(8.0))]),
		stdcall("makeArray", vec![n(0.0), func(&["i"], n(8.0))]),
		stdcall("repeat", vec![Ex::Arr(vec![n(6.0)]), n(1.0)]),
		Ex::Slice(Box::new(Ex::Arr(vec![n(1.0), n(2.0), n(3.0)])), Some(Box::new(n(1.0))), Some(Box::new(n(2.0))), None),
		stdcall("reverse", vec![Ex::Arr(vec![n(4.0)])]),
		stdcall("map", vec![func(&["x"], var("x")), Ex::Arr(vec![n(3.0)])]),
	]
}
pub fn bases_big() -> Vec<Ex> {
	vec![stdcall("range", vec![n(1.0), n(999.0)]), stdcall("range", vec![n(1.0), n(1000.0)]), stdcall("range", vec![n(1.0), n(1001.0)]), bin(stdcall("range", vec![n(1.0), n(600.0)]), BinOp::Add, stdcall("range", vec![n(601.0), n(1000.0)]))]
}

/// an operation: description + constructor from the previous array expression
pub struct Op {
	pub name: String,
	pub build: Box<dyn Fn(Ex) -> Ex>,
}
fn op(name: &str, f: impl Fn(Ex) -> Ex + 'static) -> Op {
	Op { name: name.to_owned(), build: Box::new(f) }
}

pub fn menu_full() -> Vec<Op> {
	let mut m: Vec<Op> = Vec::new();
	let bounds: Vec<Option<f64>> = vec![None, Some(-9.0), Some(-1.0), Some(0.0), Some(1.0), Some(2.0), Some(4.0)];
	let steps: Vec<Option<f64>> = vec![None, Some(1.0), Some(2.0), Some(3.0)];
	for s0 in &bounds {
		for s1 in &bounds {
			for s2 in &steps {
				let (a, b, c) = (*s0, *s1, *s2);
				let show = |x: Option<f64>| x.map_or(String::new(), |v| format!("{v}"));
				m.push(op(&format!("[{}:{}:{}]", show(a), show(b), show(c)), move |e| Ex::Slice(Box::new(e), a.map(|v| Box::new(n(v))), b.map(|v| Box::new(n(v))), c.map(|v| Box::new(n(v))))));
			}
		}
	}
	for (a, b, c) in [(0.0, 2.0, 1.0), (1.0, 9.0, 2.0), (-2.0, 3.0, 1.0)] {
		m.push(op(&format!("std.slice({a},{b},{c})"), move |e| stdcall("slice", vec![e, n(a), n(b), n(c)])));
	}
	m.push(op("std.slice(null,null,null)", |e| stdcall("slice", vec![e, Ex::Null, Ex::Null, Ex::Null])));
	m.extend(menu_reduced_without_slices());
	m
}
fn menu_reduced_without_slices() -> Vec<Op> {
	let mut m: Vec<Op> = Vec::new();
	m.push(op("reverse", |e| stdcall("reverse", vec![e])));
	for k in 0..=3 {
		m.push(op(&format!("repeat {k}"), move |e| stdcall("repeat", vec![e, n(f64::from(k))])));
	}
	m.push(op("[9] + a", |e| bin(Ex::Arr(vec![n(9.0)]), BinOp::Add, e)));
	m.push(op("a + [9]", |e| bin(e, BinOp::Add, Ex::Arr(vec![n(9.0)]))));
	m.push(op("range(7,8) + a", |e| bin(stdcall("range", vec![n(7.0), n(8.0)]), BinOp::Add, e)));
	m.push(op("a + range(7,8)", |e| bin(e, BinOp::Add, stdcall("range", vec![n(7.0), n(8.0)]))));
	m.push(op("a + stringChars", |e| bin(e, BinOp::Add, stdcall("stringChars", vec![s("xy")]))));
	m.push(op("map wrap", |e| stdcall("map", vec![func(&["x"], Ex::Arr(vec![var("x")])), e])));
	m.push(op("mapWithIndex", |e| stdcall("mapWithIndex", vec![func(&["i", "x"], Ex::Arr(vec![var("i"), var("x")])), e])));
	m.push(op("filter true", |e| stdcall("filter", vec![func(&["x"], Ex::True), e])));
	m.push(op("filter false", |e| stdcall("filter", vec![func(&["x"], Ex::False), e])));
	m.push(op("filter number>1", |e| stdcall("filter", vec![func(&["x"], bin(bin(stdcall("type", vec![var("x")]), BinOp::Eq, s("number")), BinOp::And, bin(var("x"), BinOp::Gt, n(1.0)))), e])));
	for i in [0.0, 1.0, 2.0, -1.0, 99.0] {
		m.push(op(&format!("removeAt {i}"), move |e| stdcall("removeAt", vec![e, n(i)])));
	}
	m.push(op("flattenArrays [a,a]", |e| local1("t", e, stdcall("flattenArrays", vec![Ex::Arr(vec![var("t"), var("t")])]))));
	m.push(op("sort", |e| stdcall("sort", vec![e])));
	m.push(op("set", |e| stdcall("set", vec![e])));
	m.push(op("join [] [a,a]", |e| local1("t", e, stdcall("join", vec![Ex::Arr(vec![]), Ex::Arr(vec![var("t"), var("t")])]))));
	m.push(op("comprehension copy", |e| Ex::ArrComp(Box::new(var("x")), vec![Comp::For("x".into(), e)])));
	m.push(op("makeArray copy", |e| local1("t", e, stdcall("makeArray", vec![stdcall("length", vec![var("t")]), func(&["i"], idx(var("t"), var("i")))]))));
	m.push(op("flatMap dup", |e| stdcall("flatMap", vec![func(&["x"], Ex::Arr(vec![var("x"), var("x")])), e])));
	m.push(op("filterMap", |e| stdcall("filterMap", vec![func(&["x"], Ex::True), func(&["x"], Ex::Arr(vec![var("x")])), e])));
	m
}
pub fn menu_reduced() -> Vec<Op> {
	let mut m: Vec<Op> = Vec::new();
	for (a, b, c) in [(Some(1.0), None, None), (None, Some(2.0), None), (Some(0.0), None, Some(2.0)), (Some(1.0), Some(4.0), Some(2.0)), (Some(-1.0), None, None), (Some(2.0), Some(1.0), None)] {
		let show = |x: Option<f64>| x.map_or(String::new(), |v| format!("{v}"));
		m.push(op(&format!("[{}:{}:{}]", show(a), show(b), show(c)), move |e| Ex::Slice(Box::new(e), a.map(|v| Box::new(n(v))), b.map(|v| Box::new(n(v))), c.map(|v| Box::new(n(v))))));
	}
	m.push(op("a + range(1,1000)", |e| bin(e, BinOp::Add, stdcall("range", vec![n(1.0), n(1000.0)]))));
	m.push(op("range(1,1000) + a", |e| bin(stdcall("range", vec![n(1.0), n(1000.0)]), BinOp::Add, e)));
	let all = menu_reduced_without_slices();
	let keep = ["reverse", "repeat 0", "repeat 2", "[9] + a", "a + [9]", "a + range(7,8)", "range(7,8) + a", "map wrap", "filter true", "filter number>1", "removeAt 0", "removeAt 1", "removeAt -1", "flattenArrays [a,a]", "sort", "comprehension copy", "makeArray copy", "flatMap dup"];
	for o in all {
		if keep.contains(&o.name.as_str()) {
			m.push(o);
		}
	}
	m
}

pub fn array_probes(big: bool) -> Vec<(String, Ex)> {
	let a = || var("a");
	let mut out: Vec<(String, Ex)> = Vec::new();
	let idxs: Vec<f64> = if big { vec![-1.0, 0.0, 1.0, 998.0, 999.0, 1000.0, 1001.0, 1002.0, 1999.0, 2000.0] } else { (-2..=8).map(f64::from).collect() };
	for i in idxs {
		out.push((format!("a[{i}]"), idx(a(), n(i))));
	}
	for d in [-1.0, 0.0, 1.0, 2.0] {
		out.push((format!("a[len{d:+}]"), idx(a(), bin(stdcall("length", vec![a()]), BinOp::Add, n(d)))));
	}
	out.push(("a[0.5]".into(), idx(a(), n(0.5))));
	out.push(("length".into(), stdcall("length", vec![a()])));
	let copy = || Ex::ArrComp(Box::new(var("x")), vec![Comp::For("x".into(), a())]);
	out.push(("a == copy".into(), bin(a(), BinOp::Eq, copy())));
	out.push(("copy == a".into(), bin(copy(), BinOp::Eq, a())));
	out.push(("a < copy".into(), bin(a(), BinOp::Lt, copy())));
	out.push(("a <= copy + [0]".into(), bin(a(), BinOp::Le, bin(copy(), BinOp::Add, Ex::Arr(vec![n(0.0)])))));
	if !big {
		out.push(("manifest".into(), a()));
		out.push(("toString".into(), stdcall("toString", vec![a()])));
		out.push(("comprehension".into(), Ex::ArrComp(Box::new(Ex::Arr(vec![var("x")])), vec![Comp::For("x".into(), a())])));
		out.push(("foldl collect".into(), stdcall("foldl", vec![func(&["acc", "x"], bin(var("acc"), BinOp::Add, Ex::Arr(vec![var("x")]))), a(), Ex::Arr(vec![])])));
		out.push(("map id".into(), stdcall("map", vec![func(&["x"], var("x")), a()])));
		out.push(("a + []".into(), bin(a(), BinOp::Add, Ex::Arr(vec![]))));
		out.push(("[] + a + [5]".into(), bin(bin(Ex::Arr(vec![]), BinOp::Add, a()), BinOp::Add, Ex::Arr(vec![n(5.0)]))));
		out.push(("a[1:]".into(), Ex::Slice(Box::new(a()), Some(Box::new(n(1.0))), None, None)));
	} else {
		out.push(("a[997:1003]".into(), Ex::Slice(Box::new(a()), Some(Box::new(n(997.0))), Some(Box::new(n(1003.0))), None)));
		out.push(("last three via reverse".into(), Ex::Slice(Box::new(stdcall("reverse", vec![a()])), None, Some(Box::new(n(3.0))), None)));
	}
	out.push(("reverse[0]".into(), idx(stdcall("reverse", vec![a()]), n(0.0))));
	out.push(("member".into(), stdcall("member", vec![a(), n(2.0)])));
	out.into_iter().map(|(nm, body)| (nm, func(&["a"], body))).collect()
}

fn compose(base: &Ex, ops: &[&Op]) -> Ex {
	let mut e = base.clone();
	for o in ops {
		e = (o.build)(e);
	}
	e
}

fn family(probe: &str) -> String {
	if probe.starts_with("a[") && !probe.contains(':') {
		"index".into()
	} else {
		probe.to_owned()
	}
}

fn first_mismatch(prober: &mut Prober, e: &Ex) -> Option<(usize, Mismatch, String, String)> {
	let text = print(e);
	let outs = prober.run_imp(&text);
	let refs = prober.run_ref(e);
	for (i, (o, v)) in outs.iter().zip(&refs).enumerate() {
		if let Some(m) = compare(v, o) {
			if !m.is_weak() {
				return Some((i, m, format!("{v:?}"), o.short()));
			}
		}
	}
	None
}

pub fn judge_array(rep: &mut Report, prober: &mut Prober, base: &Ex, ops: &[&Op], journal: &Journal, idx_no: u64, sample: bool) {
	let big = prober.probe_asts.iter().any(|p| p.0 == "a[997:1003]");
	let e = compose(base, ops);
	let text = print(&e);
	journal.note(idx_no, "array", &text);
	let outs = prober.run_imp(&text);
	let refs = prober.run_ref(&e);
	let mut okey = 0u64;
	for v in &refs {
		okey = okey.wrapping_mul(31).wrapping_add(fnv(format!("{v:?}").as_bytes()));
	}
	rep.case(Some(fnv(text.as_bytes())), okey);
	rep.count("probes", outs.len() as u64);
	if sample {
		rep.sample(|| json!({"array": text, "probe": prober.probe_asts[2].0, "reference": format!("{:?}", refs[2]), "implementation": outs[2].short()}));
	}
	let mut bad: Option<(usize, Mismatch)> = None;
	for (i, (o, v)) in outs.iter().zip(&refs).enumerate() {
		if matches!(v, Verdict::Unsure(_)) {
			rep.count("reference_unsure_probes", 1);
		}
		if let Some(m) = compare(v, o) {
			if m.is_weak() {
				rep.count(&format!("weak error-class difference: {}", m.key()), 1);
				continue;
			}
			bad = Some((i, m));
			break;
		}
	}
	let Some((pi, m)) = bad else { return };
	let fam = family(&prober.probe_asts[pi].0);
	let mkey = m.key();
	// shrink: drop operations while the same probe family fails the same way
	let mut cur: Vec<&Op> = ops.to_vec();
	'outer: loop {
		for k in 0..cur.len() {
			let mut cand = cur.clone();
			cand.remove(k);
			if let Some((i2, m2, _, _)) = first_mismatch(prober, &compose(base, &cand)) {
				if family(&prober.probe_asts[i2].0) == fam && m2.key() == mkey {
					cur = cand;
					continue 'outer;
				}
			}
		}
		break;
	}
	let me = compose(base, &cur);
	let mtext = print(&me);
	let (pi2, rv, io) = match first_mismatch(prober, &me) {
		Some((i, _, r, o)) => (i, r, o),
		None => (pi, String::new(), String::new()),
	};
	let mut opnames: Vec<String> = cur.iter().map(|o| o.name.split(|c: char| c.is_ascii_digit() || c == '-').next().unwrap_or("").trim().to_owned()).collect();
	// an element error surfacing too early / too late is a strictness difference of one of the operations:
	// keyed by the set of operations involved, whatever their order and the probe
	let strictness = mkey.contains("got error RuntimeError") || mkey.contains("expected runtime error");
	let fam = if strictness { "any".to_owned() } else { fam };
	if strictness {
		// only the natives that can force elements are part of the key
		opnames.retain(|o| ["map wrap", "mapWithIndex", "flatMap dup", "filterMap", "join [] [a,a]", "sort", "set", "filter true", "filter false", "filter number>", "flattenArrays [a,a]", "makeArray copy", "comprehension copy", "removeAt", "repeat", "reverse"].iter().any(|k| k.starts_with(o.as_str()) && !o.is_empty()));
		opnames.sort();
		opnames.dedup();
		// natives that evaluate an element before handing it to the user's function take precedence in the key
		for strict in ["map wrap", "mapWithIndex", "flatMap dup", "filterMap", "join [] [a,a]"] {
			if opnames.iter().any(|o| o == strict) {
				opnames = vec![strict.to_owned()];
				break;
			}
		}
	}
	rep.violation(Violation {
		class: format!("probe `{fam}`: {mkey} after [{}]", opnames.join(" ; ")),
		witness: format!("{mtext}  probed with {}", prober.probe_asts[pi2].0),
		detail: format!("probe {}\nreference: {rv}\nimplementation: {io}\noriginal composition: {text}", prober.probe_asts[pi2].0),
		cost: cur.len() as u32,
		replay: json!({"kind": "array", "text": mtext, "big": big, "base": print(base), "ops": cur.iter().map(|o| o.name.clone()).collect::<Vec<_>>()}),
	});
}

fn work(shard: &Shard, journal: &Journal, rep: &mut Report) {
	crate::common::limit_memory(6 << 30);
	match shard.part.as_str() {
		"small" => part_small(shard, journal, rep),
		"big" => part_big(shard, journal, rep),
		p => panic!("unknown part {p}"),
	}
}

fn part_small(shard: &Shard, journal: &Journal, rep: &mut Report) {
	let bases = bases_small();
	let full = menu_full();
	let reduced = menu_reduced();
	rep.count("menu_full", full.len() as u64 / shard.n.max(1));
	let mut prober = Prober::with_probes(array_probes(false));
	let mut base_idx = 0u64;
	// depth 0, 1, 2 over the full menu
	for depth in 0..=2usize {
		let mut dims = vec![bases.len()];
		dims.extend(std::iter::repeat(full.len()).take(depth));
		let total = for_each_product(&dims, |i, c| {
			let gi = base_idx + i;
			if !shard.mine(gi) {
				return;
			}
			let ops: Vec<&Op> = c[1..].iter().map(|k| &full[*k]).collect();
			judge_array(rep, &mut prober, &bases[c[0]], &ops, journal, gi, gi % 50_021 == 0);
		});
		base_idx += total;
	}
	// depth 3 over the reduced menu (thorough: also depth 4; depth 3 full on 4 bases)
	let max_reduced = shard.tier.q(3, 4);
	for depth in 3..=max_reduced {
		let mut dims = vec![bases.len()];
		dims.extend(std::iter::repeat(reduced.len()).take(depth));
		let total = for_each_product(&dims, |i, c| {
			let gi = base_idx + i;
			if !shard.mine(gi) {
				return;
			}
			let ops: Vec<&Op> = c[1..].iter().map(|k| &reduced[*k]).collect();
			if ops.iter().any(|o| o.name.contains("1000")) {
				return;
			}
			judge_array(rep, &mut prober, &bases[c[0]], &ops, journal, gi, gi % 50_021 == 0);
		});
		base_idx += total;
	}
	if shard.tier == Tier::Thorough {
		let some: Vec<usize> = vec![2, 3, 5, 9];
		let dims = vec![some.len(), full.len(), full.len(), full.len()];
		let total = for_each_product(&dims, |i, c| {
			let gi = base_idx + i;
			if !shard.mine(gi) {
				return;
			}
			let ops: Vec<&Op> = c[1..].iter().map(|k| &full[*k]).collect();
			judge_array(rep, &mut prober, &bases[some[c[0]]], &ops, journal, gi, gi % 500_021 == 0);
		});
		base_idx += total;
	}
	rep.count("small_indexed", base_idx / shard.n);
}

fn part_big(shard: &Shard, journal: &Journal, rep: &mut Report) {
	let bases = bases_big();
	let reduced = menu_reduced();
	let mut prober = Prober::with_probes(array_probes(true));
	let mut base_idx = 0u64;
	for depth in 0..=2usize {
		let mut dims = vec![bases.len()];
		dims.extend(std::iter::repeat(reduced.len()).take(depth));
		let total = for_each_product(&dims, |i, c| {
			let gi = base_idx + i;
			if !shard.mine(gi) {
				return;
			}
			let ops: Vec<&Op> = c[1..].iter().map(|k| &reduced[*k]).collect();
			// quadratic std functions on 1000+ elements are skipped in the quick tier
			if shard.tier == Tier::Quick && ops.iter().filter(|o| ["sort", "makeArray copy", "flatMap dup", "flattenArrays [a,a]"].contains(&o.name.as_str())).count() > 1 {
				return;
			}
			judge_array(rep, &mut prober, &bases[c[0]], &ops, journal, gi, gi % 601 == 0);
		});
		base_idx += total;
	}
	rep.count("big_indexed", base_idx / shard.n);
}

fn replay(v: &Value) -> (bool, String) {
	let big = v["big"].as_bool().unwrap_or(false);
	let mut prober = Prober::with_probes(array_probes(big));
	let base_text = v["base"].as_str().unwrap_or("");
	let bases: Vec<Ex> = bases_small().into_iter().chain(bases_big()).collect();
	let Some(base) = bases.iter().find(|b| print(b) == base_text) else {
		return (false, format!("unknown base {base_text}"));
	};
	let menu: Vec<Op> = menu_full().into_iter().chain(menu_reduced()).collect();
	let mut ops: Vec<&Op> = Vec::new();
	for name in v["ops"].as_array().map(|a| a.as_slice()).unwrap_or(&[]) {
		let Some(o) = menu.iter().find(|o| Some(o.name.as_str()) == name.as_str()) else {
			return (false, format!("unknown operation {name}"));
		};
		ops.push(o);
	}
	let e = compose(base, &ops);
	let text = print(&e);
	let outs = prober.run_imp(&text);
	let refs = prober.run_ref(&e);
	let mut bad = false;
	let mut lines = vec![format!("array: {text}")];
	for (i, (o, r)) in outs.iter().zip(&refs).enumerate() {
		if matches!(compare(r, o), Some(m) if !m.is_weak()) {
			bad = true;
			lines.push(format!("probe `{}`: reference {r:?} implementation {}", prober.probe_asts[i].0, o.short()));
		}
	}
	(bad, lines.join("\n"))
}
