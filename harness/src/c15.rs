//! C15 — command line, Rust API, C API and dependency lister agree (E1 over configurations; real executables).

use std::{
	collections::BTreeSet,
	fs,
	io::Write as _,
	path::{Path, PathBuf},
	process::{Command, Stdio},
	rc::Rc,
};

use jrsonnet_evaluator::{
	manifest::{JsonFormat, ManifestFormat, StringFormat, ToStringFormat, YamlStreamFormat},
	stack::limit_stack_depth,
	tla::TlaArg,
	trace::{CompactFormat, PathResolver, TraceFormat},
	FileImportResolver, IStr, State, Val,
};
use jrsonnet_ir::{SourceDefaultIgnoreJpath, SourcePath};
use jrsonnet_stdlib::{ContextInitializer, IniFormat, TomlFormat, XmlJsonmlFormat, YamlFormat};
use serde_json::{json, Value};

use crate::{
	ast::print,
	c07::{graph_describe, graph_file, setup_graph_tree, Tree, EDGES, E_BIN, E_LAZY_READ, E_LAZY_UNREAD, E_NONE, E_STR, E_STRICT, GFILES},
	common::{fnv, guarded, scratch_dir, verif_root, CheckSpec, Journal, PartSpec, Report, Shard, Tier, Violation},
	enumr::for_each_product,
	imp::maybe_collect,
	Check,
};

pub const CHECK: Check = Check {
	id: "C15",
	spec,
	work,
	replay,
};

fn spec(tier: Tier) -> CheckSpec {
	let n = crate::common::ncpu();
	CheckSpec {
		property: "C15",
		level: "exploration",
		rule: format!(
			"exhaustive over configurations of a program family that reads its configuration (external variables, top-level arguments, an imported library file, a recursion of 25 frames, an optional runtime error): (cli) {} — external variables x top-level arguments each in every subset of the flavours {{string, code, string-from-file, code-from-file}}, top-level function with defaulted parameters and no arguments, -J lists over two directories with shadowing, input as file / -e / stdin, output {{json, -S, -y, -f yaml|toml|xml-jsonml|ini|string|json, -m dir, -o file, --line-padding 1}}, --max-stack {{default, 20}}, value and error variants: the real `jrsonnet` executable's stdout (and the files written by -m / -o) equal the manifestation computed through the library API for the same configuration, exit status 0 exactly when the library reports success, non-empty stderr otherwise; (capi) {} of {{ext_var, ext_code, tla_var, tla_code}} subsets x jpath lists x max_stack x string_output x import callback x native callbacks x the six jsonnet_evaluate_* entry points x value/error variants through a C driver linked against the built libjsonnet.so: printed result (double-NUL framing decoded) and error flag equal the library's; (deps) for every one of 26 syntactic positions an import can stand in (array, field, hidden field, computed field name, object local, object assert, parameter default, local, positional and named call argument, conditional, assert, error, comprehension, object extension, index, slice, unary operand) x import kind, and for every import digraph on three files with strict / lazy / never-read / importstr / importbin edges ({} graphs), `jrsonnet-deps` lists exactly the statically reachable files, which include every file an evaluation loads. non-trivial = distinct configuration executed",
			tier.q("pairwise-complete grid (every pair of dimensions fully crossed around a base configuration)", "the pairwise-complete grid plus the full product of {ext, tla, defaulted parameters, input, output, variant} and the full product of {search path, input, output, stack limit, variant}"),
			tier.q("pairwise-complete grid", "full cross product"),
			tier.q(4096, 46656)
		),
		assumptions: vec![
			"the library side builds its State through the public API on its own (external string files are read by the harness and passed as strings; code files as imports), the manifest formats through their public `cli` constructors".into(),
			"the C driver (/verif/cdriver/driver.c) is compiled by ./check with the system cc against target/repo/debug/libjsonnet.so".into(),
		],
		parts: vec![PartSpec::new("cli", n, tier.q(900, 14400)), PartSpec::new("capi", n, tier.q(900, 7200)), PartSpec::new("deps", n, tier.q(900, 7200))],
		totality: false,
		exhaustive: true,
		min_outcomes: 10,
	}
}

fn work(shard: &Shard, journal: &Journal, rep: &mut Report) {
	crate::common::limit_memory(6 << 30);
	match shard.part.as_str() {
		"cli" => part_cli(shard, journal, rep),
		"capi" => part_capi(shard, journal, rep),
		"deps" => part_deps(shard, journal, rep),
		p => panic!("unknown part {p}"),
	}
}

fn bin(name: &str) -> PathBuf {
	PathBuf::from(format!("{}/target/repo/debug/{name}", verif_root()))
}

// ---------------------------------------------------------------------------------------------
// configuration

const FLAVOURS: [&str; 4] = ["str", "code", "str-file", "code-file"];
const STR_VALUE: &str = "string value é \"q\"";
const CODE_VALUE: &str = "{ code: 1 + 1, s: 'x' }";
const STR_FILE_CONTENT: &str = "text from a file\nsecond line é\n";
const CODE_FILE_CONTENT: &str = "{ from_file: [1, 2], lib2: import 'other.libsonnet' }";

#[derive(Clone, Debug, PartialEq)]
enum OutMode {
	Json,
	StringS,
	YamlStream,
	F(&'static str),
	Multi,
	OutFile,
	LinePadding,
}
const OUT_MODES: [OutMode; 12] = [OutMode::Json, OutMode::StringS, OutMode::YamlStream, OutMode::F("yaml"), OutMode::F("toml"), OutMode::F("xml-jsonml"), OutMode::F("ini"), OutMode::F("string"), OutMode::F("json"), OutMode::Multi, OutMode::OutFile, OutMode::LinePadding];

#[derive(Clone, Debug)]
struct Cfg {
	/// bit i = flavour i present
	ext: u8,
	tla: u8,
	/// top-level function whose parameters all have defaults, no arguments given
	tla_defaults: bool,
	/// 0: none, 1: -J J1, 2: -J J2, 3: -J J1 -J J2, 4: -J J2 -J J1
	jpaths: usize,
	/// 0 file, 1 -e, 2 stdin
	input: usize,
	out: usize,
	max_stack_20: bool,
	/// 0 value, 1 runtime error, 2 recursion of 25 frames
	variant: usize,
}
const JPATHS: [&[&str]; 5] = [&[], &["J1"], &["J2"], &["J1", "J2"], &["J2", "J1"]];

impl Cfg {
	fn base() -> Self {
		Self { ext: 0, tla: 0, tla_defaults: false, jpaths: 1, input: 0, out: 0, max_stack_20: false, variant: 0 }
	}
	fn to_json(&self) -> Value {
		json!({"kind": "cli", "ext": self.ext, "tla": self.tla, "tla_defaults": self.tla_defaults, "jpaths": self.jpaths, "input": self.input, "out": self.out, "max_stack_20": self.max_stack_20, "variant": self.variant})
	}
	fn from_json(v: &Value) -> Self {
		let g = |k: &str| v[k].as_u64().unwrap_or(0);
		Self { ext: g("ext") as u8, tla: g("tla") as u8, tla_defaults: v["tla_defaults"].as_bool().unwrap_or(false), jpaths: g("jpaths") as usize, input: g("input") as usize, out: g("out") as usize, max_stack_20: v["max_stack_20"].as_bool().unwrap_or(false), variant: g("variant") as usize }
	}
	fn flav(mask: u8) -> Vec<usize> {
		(0..4).filter(|i| mask & (1 << i) != 0).collect()
	}
	/// the program: reads everything the configuration provides
	fn program(&self) -> String {
		let mut fields: Vec<String> = Vec::new();
		for f in Self::flav(self.ext) {
			fields.push(format!("e{f}: std.extVar('e{f}')"));
		}
		for f in Self::flav(self.tla) {
			fields.push(format!("t{f}: t{f}"));
		}
		if self.tla_defaults {
			fields.push("d: [p, q]".into());
		}
		if self.jpaths != 0 {
			fields.push("lib: (import 'lib.libsonnet').from".into());
		}
		match self.variant {
			1 => fields.push("boom: error 'boom ' + std.length(self.k)".into()),
			2 => fields.push("deep: (local f(x) = if x == 0 then 0 else 1 + f(x - 1); f(25))".into()),
			_ => {}
		}
		fields.push("k: 'v'".into());
		let v = format!("{{ {} }}", fields.join(", "));
		let body = match &OUT_MODES[self.out] {
			OutMode::StringS => format!("std.manifestJsonMinified({v}) + '\\n2nd line'"),
			OutMode::YamlStream => format!("[{v}, 1, 'doc']"),
			OutMode::F("xml-jsonml") => format!("['root', {{ a: '1' }}, std.manifestJsonMinified({v}), ['c']]"),
			OutMode::F("ini") => format!("{{ main: {{ m: 1 }}, sections: {{ s: {{ v: std.manifestJsonMinified({v}), l: [1, 2] }} }} }}"),
			OutMode::F("toml") => format!("{{ top: {v}, arr: [{{ a: 1 }}] }}"),
			OutMode::Multi => format!("{{ 'a.json': {v}, 'b.txt': [1, 'two'] }}"),
			_ => v,
		};
		let mut params: Vec<String> = Self::flav(self.tla).iter().map(|f| format!("t{f}")).collect();
		if self.tla_defaults {
			params.push("p = 'dflt'".into());
			params.push("q = 2".into());
		}
		if params.is_empty() {
			body
		} else {
			format!("function({}) {body}", params.join(", "))
		}
	}
	fn describe(&self) -> String {
		format!(
			"ext [{}], tla [{}]{}, -J {:?}, input {}, output {:?}{}, variant {}",
			Self::flav(self.ext).iter().map(|f| FLAVOURS[*f]).collect::<Vec<_>>().join(","),
			Self::flav(self.tla).iter().map(|f| FLAVOURS[*f]).collect::<Vec<_>>().join(","),
			if self.tla_defaults { " + defaulted parameters" } else { "" },
			JPATHS[self.jpaths],
			["file", "-e", "stdin"][self.input],
			OUT_MODES[self.out],
			if self.max_stack_20 { ", --max-stack 20" } else { "" },
			["value", "runtime error", "25-frame recursion"][self.variant]
		)
	}
	/// command line arguments (relative to the working directory `main`)
	fn args(&self, out_dir: &str) -> Vec<String> {
		let mut a: Vec<String> = Vec::new();
		for f in Self::flav(self.ext) {
			match f {
				0 => a.extend(["--ext-str".into(), format!("e0={STR_VALUE}")]),
				1 => a.extend(["--ext-code".into(), format!("e1={CODE_VALUE}")]),
				2 => a.extend(["--ext-str-file".into(), "e2=../e_str.txt".into()]),
				_ => a.extend(["--ext-code-file".into(), "e3=../J1/e_code.jsonnet".into()]),
			}
		}
		for f in Self::flav(self.tla) {
			match f {
				0 => a.extend(["--tla-str".into(), format!("t0={STR_VALUE}")]),
				1 => a.extend(["--tla-code".into(), format!("t1={CODE_VALUE}")]),
				2 => a.extend(["--tla-str-file".into(), "t2=../e_str.txt".into()]),
				_ => a.extend(["--tla-code-file".into(), "t3=../J1/e_code.jsonnet".into()]),
			}
		}
		for j in JPATHS[self.jpaths] {
			a.extend(["-J".into(), format!("../{j}")]);
		}
		if self.max_stack_20 {
			a.extend(["--max-stack".into(), "20".into()]);
		}
		match &OUT_MODES[self.out] {
			OutMode::Json => {}
			OutMode::StringS => a.push("-S".into()),
			OutMode::YamlStream => a.push("-y".into()),
			OutMode::F(f) => a.extend(["-f".into(), (*f).to_owned()]),
			OutMode::Multi => a.extend(["-m".into(), out_dir.to_owned()]),
			OutMode::OutFile => a.extend(["-o".into(), format!("{out_dir}/out.json")]),
			OutMode::LinePadding => a.extend(["--line-padding".into(), "1".into()]),
		}
		match self.input {
			0 => a.push("main.jsonnet".into()),
			1 => a.extend(["-e".into(), self.program()]),
			_ => a.push("-".into()),
		}
		a
	}
}

fn setup_cli_tree(tree: &Tree) {
	tree.write("J1/lib.libsonnet", b"{ from: 'J1' }");
	tree.write("J2/lib.libsonnet", b"{ from: 'J2' }");
	tree.write("J1/other.libsonnet", b"{ other: 'next to the code file' }");
	tree.write("e_str.txt", STR_FILE_CONTENT.as_bytes());
	tree.write("J1/e_code.jsonnet", CODE_FILE_CONTENT.as_bytes());
	let _ = fs::create_dir_all(tree.p("out"));
}

/// (stdout, files) or the error's first line
type Expected = Result<(String, Vec<(String, String)>), String>;

/// the same configuration through the library API; the process' working directory is `<tree>/main`
fn library(tree: &Tree, c: &Cfg, out_dir: &str) -> Expected {
	maybe_collect();
	let r = guarded(|| -> Result<(String, Vec<(String, String)>), jrsonnet_evaluator::Error> {
		let ci = ContextInitializer::new(PathResolver::new_cwd_fallback());
		for f in Cfg::flav(c.ext) {
			let arg = match f {
				0 => TlaArg::String(STR_VALUE.into()),
				1 => TlaArg::InlineCode(CODE_VALUE.into()),
				2 => TlaArg::String(fs::read_to_string(tree.p("e_str.txt")).expect("ext file").as_str().into()),
				_ => TlaArg::Import("../J1/e_code.jsonnet".into()),
			};
			ci.settings_mut().ext_vars.insert(format!("e{f}").as_str().into(), arg);
		}
		let paths: Vec<PathBuf> = JPATHS[c.jpaths].iter().rev().map(|j| PathBuf::from(format!("../{j}"))).collect();
		let mut b = State::builder();
		b.context_initializer(ci).import_resolver(FileImportResolver::new(paths));
		let state = b.build();
		let _g = state.try_enter();
		let _stack = c.max_stack_20.then(|| limit_stack_depth(20));
		let program = c.program();
		let val = match c.input {
			0 => state.import_from(&SourcePath::new(SourceDefaultIgnoreJpath), "main.jsonnet")?,
			1 => state.evaluate_snippet("<cmdline>".to_owned(), program.as_str())?,
			_ => state.evaluate_snippet("<stdin>".to_owned(), program.as_str())?,
		};
		let mut tla: std::collections::HashMap<IStr, TlaArg> = std::collections::HashMap::new();
		for f in Cfg::flav(c.tla) {
			let arg = match f {
				0 => TlaArg::String(STR_VALUE.into()),
				1 => TlaArg::InlineCode(CODE_VALUE.into()),
				2 => TlaArg::String(fs::read_to_string(tree.p("e_str.txt")).expect("tla file").as_str().into()),
				_ => TlaArg::Import("../J1/e_code.jsonnet".into()),
			};
			tla.insert(format!("t{f}").as_str().into(), arg);
		}
		let val = jrsonnet_evaluator::apply_tla(&tla, val)?;
		let format: Box<dyn ManifestFormat> = match &OUT_MODES[c.out] {
			OutMode::StringS => Box::new(StringFormat),
			OutMode::YamlStream => Box::new(YamlStreamFormat::cli(YamlFormat::cli(2))),
			OutMode::F("yaml") => Box::new(YamlFormat::cli(2)),
			OutMode::F("toml") => Box::new(TomlFormat::cli(2)),
			OutMode::F("xml-jsonml") => Box::new(XmlJsonmlFormat::cli()),
			OutMode::F("ini") => Box::new(IniFormat::cli()),
			OutMode::F("string") => Box::new(ToStringFormat),
			OutMode::LinePadding => Box::new(JsonFormat::cli(1)),
			_ => Box::new(JsonFormat::cli(3)),
		};
		match &OUT_MODES[c.out] {
			OutMode::Multi => {
				let Val::Obj(o) = val else { unreachable!("multi program is an object") };
				let mut stdout = String::new();
				let mut files = Vec::new();
				let mut names: Vec<IStr> = o.fields_ex(false).into_iter().collect();
				names.sort();
				for k in names {
					let v = o.get(k.clone())?.expect("field");
					let mut text = v.manifest(&format)?;
					if format.file_trailing_newline() {
						text.push('\n');
					}
					stdout.push_str(&format!("{out_dir}/{k}\n"));
					files.push((k.to_string(), text));
				}
				Ok((stdout, files))
			}
			OutMode::OutFile => Ok((String::new(), vec![("out.json".to_owned(), format!("{}\n", val.manifest(&format)?))])),
			_ => {
				let text = val.manifest(&format)?;
				Ok((if text.is_empty() { String::new() } else { format!("{text}\n") }, vec![]))
			}
		}
	});
	match r {
		Ok(Ok(v)) => Ok(v),
		Ok(Err(e)) => Err(format!("{}", e.error()).lines().next().unwrap_or("").to_owned()),
		Err(p) => Err(format!("PANIC {p}")),
	}
}

fn cli_case(tree: &Tree, c: &Cfg) -> (Option<Violation>, u64) {
	let out_dir = "../out";
	let _ = fs::remove_dir_all(tree.p("out"));
	let _ = fs::create_dir_all(tree.p("out"));
	let program = c.program();
	tree.write("main/main.jsonnet", program.as_bytes());
	let mut cmd = Command::new(bin("jrsonnet"));
	cmd.current_dir(tree.p("main")).env("RUST_BACKTRACE", "0").env_remove("JSONNET_PATH").args(c.args(out_dir)).stdin(Stdio::piped()).stdout(Stdio::piped()).stderr(Stdio::piped());
	let mut child = cmd.spawn().expect("spawn jrsonnet (built by ./check)");
	{
		let mut stdin = child.stdin.take().expect("stdin");
		if c.input == 2 {
			let _ = stdin.write_all(program.as_bytes());
		}
	}
	let o = child.wait_with_output().expect("wait");
	let stdout = String::from_utf8_lossy(&o.stdout).to_string();
	let stderr = String::from_utf8_lossy(&o.stderr).to_string();
	let code = o.status.code();
	let mut files: Vec<(String, String)> = fs::read_dir(tree.p("out")).map(|rd| rd.filter_map(Result::ok).map(|e| (e.file_name().to_string_lossy().to_string(), fs::read_to_string(e.path()).unwrap_or_default())).collect()).unwrap_or_default();
	files.sort();
	let lib = library(tree, c, out_dir);
	let what = |s: &str| {
		Some(Violation {
			class: s.to_owned(),
			witness: format!("jrsonnet {}   (program: {program})", c.args(out_dir).join(" ")),
			detail: format!("{}\nexecutable: exit {code:?}\nstdout:\n{stdout}stderr:\n{stderr}files: {files:?}\nlibrary: {lib:?}", c.describe()),
			cost: (c.ext.count_ones() + c.tla.count_ones()) + u32::from(c.jpaths > 1) + u32::from(c.input > 0) + u32::from(c.out > 0) + u32::from(c.max_stack_20) + u32::from(c.variant > 0),
			replay: c.to_json(),
		})
	};
	let key = fnv(format!("{code:?}{}", stdout.len()).as_bytes());
	let mode = format!("{:?}", OUT_MODES[c.out]);
	let v = match &lib {
		Ok((want_out, want_files)) => {
			if code != Some(0) {
				what(&format!("executable fails where the library succeeds [{}]", first_difference_dim(c)))
			} else if stdout != *want_out {
				what(&format!("stdout differs from the library's manifestation [output {mode}]"))
			} else if files != *want_files {
				what(&format!("written files differ from the library's manifestation [output {mode}]"))
			} else {
				None
			}
		}
		Err(msg) => {
			if code == Some(0) {
				what(&format!("executable succeeds where the library reports an error [{}]", first_difference_dim(c)))
			} else if code == Some(101) || stderr.contains("panicked at") {
				what("executable panics")
			} else if stderr.trim().is_empty() {
				what("error exit without a message on stderr")
			} else if !msg.starts_with("PANIC") && stderr.lines().next().unwrap_or("") != msg {
				what("first line of the error message differs from the library's error")
			} else if msg.starts_with("PANIC") {
				what("library panics")
			} else {
				None
			}
		}
	};
	(v, key)
}
/// names the configuration dimension that is off its base value (class keys)
fn first_difference_dim(c: &Cfg) -> String {
	let mut d = Vec::new();
	for f in Cfg::flav(c.ext) {
		d.push(format!("ext {}", FLAVOURS[f]));
	}
	for f in Cfg::flav(c.tla) {
		d.push(format!("tla {}", FLAVOURS[f]));
	}
	if c.tla_defaults {
		d.push("defaulted top-level parameters".into());
	}
	if c.input > 0 {
		d.push(format!("input {}", ["file", "-e", "stdin"][c.input]));
	}
	if c.max_stack_20 {
		d.push("--max-stack 20".into());
	}
	if c.variant > 0 {
		d.push(["value", "runtime error", "25-frame recursion"][c.variant].to_owned());
	}
	if d.is_empty() {
		"base".into()
	} else {
		d.join(" + ")
	}
}

fn cli_configs(tier: Tier) -> Vec<Cfg> {
	let mut out = Vec::new();
	// every pair of dimensions fully crossed, the others at their base value
	let dims: [usize; 8] = [16, 16, 2, 5, 3, OUT_MODES.len(), 2, 3];
	let basev: [usize; 8] = [0, 0, 0, 1, 0, 0, 0, 0];
	let mut seen: BTreeSet<Vec<usize>> = BTreeSet::new();
	if tier == Tier::Thorough {
		// thorough: additionally the full product of the six dimensions that decide what is computed and printed
		// (ext, tla, defaulted parameters, input, output, variant), the search path and the stack limit at their base
		for_each_product(&[16, 16, 2, 3, OUT_MODES.len(), 3], |_, c| {
			seen.insert(vec![c[0], c[1], c[2], 1, c[3], c[4], 0, c[5]]);
		});
		// and the full product of search path x input x output x stack limit x variant without variables
		for_each_product(&[5, 3, OUT_MODES.len(), 2, 3], |_, c| {
			seen.insert(vec![0, 0, 0, c[0], c[1], c[2], c[3], c[4]]);
		});
	}
	for a in 0..8 {
		for b in (a + 1)..8 {
			for x in 0..dims[a] {
				for y in 0..dims[b] {
					let mut v = basev.to_vec();
					v[a] = x;
					v[b] = y;
					seen.insert(v);
				}
			}
		}
	}
	for c in seen {
		out.push(Cfg { ext: c[0] as u8, tla: c[1] as u8, tla_defaults: c[2] == 1, jpaths: c[3], input: c[4], out: c[5], max_stack_20: c[6] == 1, variant: c[7] });
	}
	out
}

fn part_cli(shard: &Shard, journal: &Journal, rep: &mut Report) {
	let tree = Tree::new(&format!("c15-{}", shard.idx));
	setup_cli_tree(&tree);
	std::env::set_current_dir(tree.p("main")).expect("chdir");
	let cfgs = cli_configs(shard.tier);
	rep.count("configurations", cfgs.len() as u64 / shard.n.max(1));
	for (idx, c) in cfgs.iter().enumerate() {
		if !shard.mine(idx as u64) {
			continue;
		}
		journal.note(idx as u64, "cli", &c.describe());
		let (v, key) = cli_case(&tree, c);
		rep.case(Some(fnv(c.describe().as_bytes())), key);
		if idx % 1009 == 0 {
			rep.sample(|| json!({"configuration": c.describe(), "program": c.program(), "library": format!("{:?}", library(&tree, c, "../out")).chars().take(300).collect::<String>()}));
		}
		if let Some(v) = v {
			rep.violation(v);
		}
	}
	std::env::set_current_dir("/").expect("chdir back");
}

// ---------------------------------------------------------------------------------------------
// C API

#[derive(Clone, Debug)]
struct CCfg {
	/// bits: ext_var, ext_code, tla_var, tla_code
	vars: u8,
	/// 0 none, 1 [J1], 2 [J1, J2] (later added path wins? order as given), 3 [J2, J1]
	jpaths: usize,
	max_stack_20: bool,
	string_output: bool,
	import_callback: bool,
	native: bool,
	/// 0 file, 1 snippet, 2 file-multi, 3 snippet-multi, 4 file-stream, 5 snippet-stream
	mode: usize,
	/// 0 value, 1 runtime error, 2 recursion of 25 frames
	variant: usize,
}
const CJPATHS: [&[&str]; 4] = [&[], &["J1"], &["J1", "J2"], &["J2", "J1"]];
impl CCfg {
	fn to_json(&self) -> Value {
		json!({"kind": "capi", "vars": self.vars, "jpaths": self.jpaths, "max_stack_20": self.max_stack_20, "string_output": self.string_output, "import_callback": self.import_callback, "native": self.native, "mode": self.mode, "variant": self.variant})
	}
	fn from_json(v: &Value) -> Self {
		let g = |k: &str| v[k].as_u64().unwrap_or(0);
		let b = |k: &str| v[k].as_bool().unwrap_or(false);
		Self { vars: g("vars") as u8, jpaths: g("jpaths") as usize, max_stack_20: b("max_stack_20"), string_output: b("string_output"), import_callback: b("import_callback"), native: b("native"), mode: g("mode") as usize, variant: g("variant") as usize }
	}
	fn program(&self) -> String {
		let mut fields: Vec<String> = Vec::new();
		if self.vars & 1 != 0 {
			fields.push("ev: std.extVar('ev')".into());
		}
		if self.vars & 2 != 0 {
			fields.push("ec: std.extVar('ec')".into());
		}
		if self.vars & 4 != 0 {
			fields.push("tv: tv".into());
		}
		if self.vars & 8 != 0 {
			fields.push("tc: tc".into());
		}
		if self.jpaths != 0 || self.import_callback {
			fields.push("lib: (import 'lib.libsonnet').from".into());
		}
		if self.native {
			fields.push("n: std.native('nadd')(1, 2)".into());
			fields.push("c: std.native('ncat')('x', 'y')".into());
		}
		match self.variant {
			1 => fields.push(if self.native { "boom: std.native('nadd')('not', 'numbers')".into() } else { "boom: error 'boom'".into() }),
			2 => fields.push("deep: (local f(x) = if x == 0 then 0 else 1 + f(x - 1); f(25))".into()),
			_ => {}
		}
		fields.push("k: 'v'".into());
		let v = format!("{{ {} }}", fields.join(", "));
		let body = match (self.mode / 2, self.string_output) {
			(0, false) => v,
			(0, true) => format!("std.manifestJsonMinified({v})"),
			(1, false) => format!("{{ 'a.json': {v}, b: [1] }}"),
			(1, true) => format!("{{ 'a.json': std.manifestJsonMinified({v}), b: 'text' }}"),
			(_, false) => format!("[{v}, 1]"),
			(_, true) => format!("[std.manifestJsonMinified({v}), 'text']"),
		};
		let mut params = Vec::new();
		if self.vars & 4 != 0 {
			params.push("tv");
		}
		if self.vars & 8 != 0 {
			params.push("tc");
		}
		if params.is_empty() {
			body
		} else {
			format!("function({}) {body}", params.join(", "))
		}
	}
	fn describe(&self) -> String {
		format!(
			"{} [{}{}{}{}] jpath {:?}{}{}{}{}, variant {}",
			["evaluate_file", "evaluate_snippet", "evaluate_file_multi", "evaluate_snippet_multi", "evaluate_file_stream", "evaluate_snippet_stream"][self.mode],
			if self.vars & 1 != 0 { "ext_var " } else { "" },
			if self.vars & 2 != 0 { "ext_code " } else { "" },
			if self.vars & 4 != 0 { "tla_var " } else { "" },
			if self.vars & 8 != 0 { "tla_code" } else { "" },
			CJPATHS[self.jpaths],
			if self.max_stack_20 { ", max_stack 20" } else { "" },
			if self.string_output { ", string_output" } else { "" },
			if self.import_callback { ", import callback" } else { "" },
			if self.native { ", native callbacks" } else { "" },
			["value", "error", "25-frame recursion"][self.variant]
		)
	}
	fn args(&self, tree: &Tree) -> Vec<String> {
		let mut a: Vec<String> = Vec::new();
		if self.vars & 1 != 0 {
			a.extend(["--ext-var".into(), "ev".into(), STR_VALUE.into()]);
		}
		if self.vars & 2 != 0 {
			a.extend(["--ext-code".into(), "ec".into(), CODE_VALUE.into()]);
		}
		if self.vars & 4 != 0 {
			a.extend(["--tla-var".into(), "tv".into(), STR_VALUE.into()]);
		}
		if self.vars & 8 != 0 {
			a.extend(["--tla-code".into(), "tc".into(), CODE_VALUE.into()]);
		}
		for j in CJPATHS[self.jpaths] {
			a.extend(["--jpath".into(), tree.p(j).display().to_string()]);
		}
		if self.max_stack_20 {
			a.extend(["--max-stack".into(), "20".into()]);
		}
		if self.string_output {
			a.push("--string-output".into());
		}
		if self.import_callback {
			a.extend(["--import-callback".into(), tree.p("J2").display().to_string()]);
		}
		if self.native {
			a.push("--native".into());
		}
		let mode = ["file", "snippet", "file-multi", "snippet-multi", "file-stream", "snippet-stream"][self.mode];
		a.push(mode.into());
		if self.mode % 2 == 0 {
			a.push(tree.p("main/main.jsonnet").display().to_string());
		} else {
			a.extend(["snippet.jsonnet".into(), self.program()]);
		}
		a
	}
}

#[derive(jrsonnet_gcmodule::Trace)]
struct NativeAdd;
#[derive(jrsonnet_gcmodule::Trace)]
struct NativeCat;
#[allow(deprecated)]
impl jrsonnet_evaluator::function::builtin::NativeCallbackHandler for NativeAdd {
	fn call(&self, args: &[Val]) -> jrsonnet_evaluator::Result<Val> {
		match (&args[0], &args[1]) {
			(Val::Num(a), Val::Num(b)) => Ok(Val::Num((a.get() + b.get()).try_into().expect("finite"))),
			_ => Err(jrsonnet_evaluator::error::ErrorKind::RuntimeError("nadd: numbers expected".into()).into()),
		}
	}
}
#[allow(deprecated)]
impl jrsonnet_evaluator::function::builtin::NativeCallbackHandler for NativeCat {
	fn call(&self, args: &[Val]) -> jrsonnet_evaluator::Result<Val> {
		match (&args[0], &args[1]) {
			(Val::Str(a), Val::Str(b)) => Ok(Val::string(format!("{a}-{b}"))),
			_ => Err(jrsonnet_evaluator::error::ErrorKind::RuntimeError("ncat: strings expected".into()).into()),
		}
	}
}

/// what the driver must print
fn library_c(tree: &Tree, c: &CCfg) -> String {
	maybe_collect();
	let r = guarded(|| -> Result<String, jrsonnet_evaluator::Error> {
		let ci = ContextInitializer::new(PathResolver::new_cwd_fallback());
		if c.vars & 1 != 0 {
			ci.add_ext_str("ev".into(), STR_VALUE.into());
		}
		if c.vars & 2 != 0 {
			ci.add_ext_code("ec", CODE_VALUE)?;
		}
		if c.native {
			#[allow(deprecated)]
			{
				use jrsonnet_evaluator::function::builtin::NativeCallback;
				ci.add_native("nadd", NativeCallback::new(vec!["a".into(), "b".into()], NativeAdd));
				ci.add_native("ncat", NativeCallback::new(vec!["a".into(), "b".into()], NativeCat));
			}
		}
		let mut paths: Vec<PathBuf> = CJPATHS[c.jpaths].iter().map(|j| tree.p(j)).collect();
		if c.import_callback {
			// the driver's callback serves every import from J2, whatever else is configured
			paths = vec![tree.p("J2")];
		}
		let mut b = State::builder();
		b.context_initializer(ci).import_resolver(FileImportResolver::new(paths));
		let state = b.build();
		let _g = state.try_enter();
		let _stack = c.max_stack_20.then(|| limit_stack_depth(20));
		let program = c.program();
		let val = if c.mode % 2 == 0 { state.import(tree.p("main/main.jsonnet").display().to_string().as_str())? } else { state.evaluate_snippet("snippet.jsonnet".to_owned(), program.as_str())? };
		let mut tla: std::collections::HashMap<IStr, TlaArg> = std::collections::HashMap::new();
		if c.vars & 4 != 0 {
			tla.insert("tv".into(), TlaArg::String(STR_VALUE.into()));
		}
		if c.vars & 8 != 0 {
			tla.insert("tc".into(), TlaArg::InlineCode(CODE_VALUE.into()));
		}
		let val = jrsonnet_evaluator::apply_tla(&tla, val)?;
		let format: Box<dyn ManifestFormat> = if c.string_output { Box::new(ToStringFormat) } else { Box::new(JsonFormat::default()) };
		let mut out = String::from("ERROR=0\n");
		match c.mode / 2 {
			0 => out.push_str(&val.manifest(&format)?),
			1 => {
				let Val::Obj(o) = val else { unreachable!("multi program is an object") };
				let mut names: Vec<IStr> = o.fields_ex(false).into_iter().collect();
				names.sort();
				for k in names {
					let v = o.get(k.clone())?.expect("field");
					out.push_str(&format!("ITEM {k}\n{}\n", v.manifest(&format)?));
				}
			}
			_ => {
				let Val::Arr(a) = val else { unreachable!("stream program is an array") };
				for v in a.iter() {
					out.push_str(&format!("DOC\n{}\n", v?.manifest(&format)?));
				}
			}
		}
		Ok(out)
	});
	match r {
		Ok(Ok(s)) => s,
		Ok(Err(e)) => format!("ERROR=1\n{}", CompactFormat::default().format(&e).unwrap_or_default()),
		Err(p) => format!("PANIC {p}"),
	}
}

fn capi_case(tree: &Tree, c: &CCfg) -> (Option<Violation>, u64) {
	let program = c.program();
	tree.write("main/main.jsonnet", program.as_bytes());
	let o = Command::new(format!("{}/target/cdriver", verif_root())).current_dir(tree.p("main")).env("RUST_BACKTRACE", "0").args(c.args(tree)).output().expect("spawn the C driver (built by ./check)");
	let stdout = String::from_utf8_lossy(&o.stdout).to_string();
	let stderr = String::from_utf8_lossy(&o.stderr).to_string();
	let want = library_c(tree, c);
	let key = fnv(stdout.as_bytes());
	let crashed = o.status.code() != Some(0);
	let entry = ["evaluate_file", "evaluate_snippet", "evaluate_file_multi", "evaluate_snippet_multi", "evaluate_file_stream", "evaluate_snippet_stream"][c.mode];
	let symptom = if crashed {
		Some(format!("the C interface crashes [{}]", c_feature(c)))
	} else if stdout.lines().next() != want.lines().next() {
		Some(format!("error flag differs from the library [{}]", c_feature(c)))
	} else if stdout != want {
		Some(format!("{} of jsonnet_{entry} differs from the library [{}]", if want.starts_with("ERROR=1") { "error text" } else { "result text" }, c_feature(c)))
	} else {
		None
	};
	let v = symptom.map(|class| Violation {
		class,
		witness: format!("driver {}", c.args(tree).iter().map(|a| if a.contains(' ') { format!("{a:?}") } else { a.clone() }).collect::<Vec<_>>().join(" ").replace(&tree.root.display().to_string(), "<scratch>")),
		detail: format!("{}\nprogram: {program}\ndriver exit {:?}\nstdout:\n{}\nstderr:\n{}\nlibrary:\n{}", c.describe(), o.status.code(), stdout.replace(&tree.root.display().to_string(), "<scratch>"), stderr.lines().filter(|l| !l.trim().is_empty()).map(|l| if l.starts_with("thread '") { l.split(" panicked at ").nth(1).unwrap_or(l) } else { l }).take(4).collect::<Vec<_>>().join("\n").replace(&tree.root.display().to_string(), "<scratch>"), want.replace(&tree.root.display().to_string(), "<scratch>")),
		cost: c.vars.count_ones() + u32::from(c.jpaths > 0) + u32::from(c.max_stack_20) + u32::from(c.string_output) + u32::from(c.import_callback) + u32::from(c.native) + u32::from(c.variant > 0),
		replay: c.to_json(),
	});
	(v, key)
}
fn c_feature(c: &CCfg) -> String {
	let mut d: Vec<&str> = Vec::new();
	if c.vars & 1 != 0 {
		d.push("ext_var");
	}
	if c.vars & 2 != 0 {
		d.push("ext_code");
	}
	if c.vars & 4 != 0 {
		d.push("tla_var");
	}
	if c.vars & 8 != 0 {
		d.push("tla_code");
	}
	if c.jpaths > 0 {
		d.push("jpath");
	}
	if c.max_stack_20 {
		d.push("max_stack");
	}
	if c.string_output {
		d.push("string_output");
	}
	if c.import_callback {
		d.push("import callback");
	}
	if c.native {
		d.push("native callback");
	}
	if c.variant == 1 {
		d.push("error");
	}
	if c.variant == 2 {
		d.push("deep recursion");
	}
	if d.is_empty() {
		"plain".into()
	} else {
		d.join(" + ")
	}
}

fn capi_configs(tier: Tier) -> Vec<CCfg> {
	let dims: [usize; 8] = [16, 4, 2, 2, 2, 2, 6, 3];
	let mk = |c: &[usize]| CCfg { vars: c[0] as u8, jpaths: c[1], max_stack_20: c[2] == 1, string_output: c[3] == 1, import_callback: c[4] == 1, native: c[5] == 1, mode: c[6], variant: c[7] };
	let mut out = Vec::new();
	if tier == Tier::Thorough {
		for_each_product(&dims, |_, c| out.push(mk(c)));
		return out;
	}
	let basev: [usize; 8] = [0, 1, 0, 0, 0, 0, 1, 0];
	let mut seen: BTreeSet<Vec<usize>> = BTreeSet::new();
	for a in 0..8 {
		for b in (a + 1)..8 {
			for x in 0..dims[a] {
				for y in 0..dims[b] {
					let mut v = basev.to_vec();
					v[a] = x;
					v[b] = y;
					seen.insert(v);
				}
			}
		}
	}
	for c in seen {
		out.push(mk(&c));
	}
	out
}

fn part_capi(shard: &Shard, journal: &Journal, rep: &mut Report) {
	let tree = Tree::new(&format!("c15c-{}", shard.idx));
	setup_cli_tree(&tree);
	std::env::set_current_dir(tree.p("main")).expect("chdir");
	let cfgs = capi_configs(shard.tier);
	rep.count("configurations", cfgs.len() as u64 / shard.n.max(1));
	for (idx, c) in cfgs.iter().enumerate() {
		if !shard.mine(idx as u64) {
			continue;
		}
		journal.note(idx as u64, "capi", &c.describe());
		let (v, key) = capi_case(&tree, c);
		rep.case(Some(fnv(c.describe().as_bytes())), key);
		if idx % 499 == 0 {
			rep.sample(|| json!({"configuration": c.describe(), "program": c.program(), "library": library_c(&tree, c).replace(&tree.root.display().to_string(), "<scratch>").chars().take(300).collect::<String>()}));
		}
		if let Some(v) = v {
			rep.violation(v);
		}
	}
	std::env::set_current_dir("/").expect("chdir back");
}

// ---------------------------------------------------------------------------------------------
// jrsonnet-deps

fn deps_case(tree: &Tree, edges: &[u8]) -> (Vec<Violation>, u64) {
	let texts: Vec<String> = (0..3).map(|f| print(&graph_file(f, edges))).collect();
	for (i, t) in texts.iter().enumerate() {
		tree.write(&format!("main/{}.libsonnet", GFILES[i]), t.as_bytes());
	}
	let o = Command::new(bin("jrsonnet-deps")).current_dir(tree.p("main")).env("RUST_BACKTRACE", "0").env_remove("JSONNET_PATH").arg("m.libsonnet").output().expect("spawn jrsonnet-deps (built by ./check)");
	let stdout = String::from_utf8_lossy(&o.stdout).to_string();
	let listed: BTreeSet<String> = stdout.lines().map(|l| Path::new(l).file_name().map_or_else(|| l.to_owned(), |f| f.to_string_lossy().to_string())).collect();
	// model: statically reachable through `import` (recursively) plus the direct importstr / importbin targets
	let mut reach: BTreeSet<usize> = BTreeSet::new();
	let mut code_visited: BTreeSet<usize> = BTreeSet::new();
	let mut stack = vec![0usize];
	while let Some(f) = stack.pop() {
		if !code_visited.insert(f) {
			continue;
		}
		for (ei, (from, to)) in EDGES.iter().enumerate() {
			if *from != f || edges[ei] == E_NONE {
				continue;
			}
			reach.insert(*to);
			if matches!(edges[ei], E_STRICT | E_LAZY_READ | E_LAZY_UNREAD) {
				stack.push(*to);
			}
		}
	}
	let want: BTreeSet<String> = reach.iter().map(|t| format!("{}.libsonnet", GFILES[*t])).collect();
	// what an evaluation loads (real resolver behind the recorder of C07)
	let sys = crate::c07::Sys::new(tree, FileImportResolver::new(vec![]));
	let _ = sys.run("import 'm.libsonnet'");
	let loaded: BTreeSet<String> = sys
		.take_log()
		.into_iter()
		.filter_map(|e| if let crate::c07::Ev::Load { file, ok: true, .. } = e { Path::new(&file).file_name().map(|f| f.to_string_lossy().to_string()) } else { None })
		.filter(|f| f != "m.libsonnet")
		.collect();
	let mut vs = Vec::new();
	let desc = graph_describe(edges);
	let mut mk = |class: &str, detail: String| {
		vs.push(Violation {
			class: class.to_owned(),
			witness: desc.clone(),
			detail: format!("{detail}\nfiles:\n{}", texts.iter().enumerate().map(|(i, t)| format!("  {}.libsonnet: {t}", GFILES[i])).collect::<Vec<_>>().join("\n")),
			cost: edges.iter().filter(|e| **e != E_NONE).count() as u32,
			replay: json!({"kind": "deps", "edges": edges}),
		});
	};
	if o.status.code() != Some(0) {
		mk("jrsonnet-deps fails on a well-formed import graph", format!("exit {:?}: {}", o.status.code(), String::from_utf8_lossy(&o.stderr)));
	} else {
		// the symlink spelling resolves to the file itself: compare canonical names
		let listed_canon: BTreeSet<String> = listed.iter().map(|l| l.trim_start_matches("ln_").to_owned()).collect();
		if listed_canon != want {
			mk(if listed_canon.is_subset(&want) { "jrsonnet-deps misses a statically reachable file" } else { "jrsonnet-deps lists a file that is not reachable" }, format!("listed {listed:?}, statically reachable {want:?}"));
		}
		if !loaded.is_subset(&listed_canon) {
			mk("an evaluation loads a file that jrsonnet-deps does not list", format!("loaded {loaded:?}, listed {listed:?}"));
		}
	}
	let _ = (E_STR, E_BIN);
	(vs, fnv(stdout.as_bytes()))
}

/// every syntactic position an import can stand in: `@` is replaced by `import 'a.libsonnet'` / importstr / importbin
const IMPORT_POSITIONS: [&str; 26] = [
	"@",
	"[@]",
	"{ f: @ }",
	"{ f:: @ }",
	"{ [std.toString(@)]: 1 }",
	"{ local l = @, f: 1 }",
	"{ assert std.isObject(@) || true, f: 1 }",
	"{ f(p = @): 1 }",
	"local v = @; 1",
	"local f(p = @) = 1; 1",
	"local f(p) = 1; f(@)",
	"local f(p) = 1; f(p = @)",
	"local f(p, q) = 1; f(1, q = [@])",
	"function(p = @) 1",
	"if true then 1 else @",
	"if std.isObject(@) then 1 else 2",
	"assert std.isObject(@) || true : 'm'; 1",
	"assert true : std.toString(@); 1",
	"error std.toString(@)",
	"[1 for x in [@]]",
	"[1 for x in [1] if std.isObject(@) || true]",
	"{ [k]: 1 for k in std.objectFields(@) }",
	"(@) { g: 1 }",
	"(@).f",
	"std.length([@][0:1])",
	"-std.length(@)",
];

fn deps_position_case(tree: &Tree, pos: usize, kind: usize) -> Option<Violation> {
	let kw = ["import", "importstr", "importbin"][kind];
	let text = IMPORT_POSITIONS[pos].replace('@', &format!("{kw} 'a.libsonnet'"));
	tree.write("main/m.libsonnet", text.as_bytes());
	tree.write("main/a.libsonnet", b"{ f: 1, leaf: importstr 'b.libsonnet' }");
	tree.write("main/b.libsonnet", b"{}");
	let o = Command::new(bin("jrsonnet-deps")).current_dir(tree.p("main")).env("RUST_BACKTRACE", "0").env_remove("JSONNET_PATH").arg("m.libsonnet").output().expect("spawn jrsonnet-deps (built by ./check)");
	let stdout = String::from_utf8_lossy(&o.stdout).to_string();
	let listed: BTreeSet<String> = stdout.lines().map(|l| Path::new(l).file_name().map_or_else(|| l.to_owned(), |f| f.to_string_lossy().to_string())).collect();
	// a code import is followed into a.libsonnet (which reaches b through importstr); the other kinds stop at a
	let want: BTreeSet<String> = if kind == 0 { ["a.libsonnet", "b.libsonnet"].iter().map(|x| (*x).to_owned()).collect() } else { ["a.libsonnet"].iter().map(|x| (*x).to_owned()).collect() };
	(o.status.code() != Some(0) || listed != want).then(|| Violation {
		class: format!("jrsonnet-deps misses or adds a file for an {kw} in position `{}`", IMPORT_POSITIONS[pos]),
		witness: text.clone(),
		detail: format!("exit {:?}, listed {listed:?}, statically reachable {want:?}\n{}", o.status.code(), String::from_utf8_lossy(&o.stderr)),
		cost: 1,
		replay: json!({"kind": "deps-position", "pos": pos, "ikind": kind}),
	})
}

fn part_deps(shard: &Shard, journal: &Journal, rep: &mut Report) {
	let tree = Tree::new(&format!("c15d-{}", shard.idx));
	setup_graph_tree(&tree);
	// every syntactic position x import kind
	let mut pidx = 1_000_000u64;
	for pos in 0..IMPORT_POSITIONS.len() {
		for kind in 0..3 {
			pidx += 1;
			if !shard.mine(pidx) {
				continue;
			}
			journal.note(pidx, "deps-position", IMPORT_POSITIONS[pos]);
			let v = deps_position_case(&tree, pos, kind);
			rep.case(Some(fnv(format!("pos{pos}/{kind}").as_bytes())), u64::from(v.is_none()));
			if let Some(v) = v {
				rep.violation(v);
			}
		}
	}
	let opts: &[u8] = if shard.tier == Tier::Quick { &[E_NONE, E_STRICT, E_LAZY_UNREAD, E_STR] } else { &[E_NONE, E_STRICT, E_LAZY_READ, E_LAZY_UNREAD, E_STR, E_BIN] };
	let mut plan: Vec<Vec<u8>> = Vec::new();
	for_each_product(&[opts.len(); 6], |_, c| plan.push(c.iter().map(|i| opts[*i]).collect()));
	for (idx, edges) in plan.iter().enumerate() {
		if !shard.mine(idx as u64) {
			continue;
		}
		let d = graph_describe(edges);
		journal.note(idx as u64, "deps", &d);
		let (vs, key) = deps_case(&tree, edges);
		rep.case(Some(fnv(d.as_bytes())), key);
		if idx % 1511 == 0 {
			rep.sample(|| json!({"graph": d}));
		}
		for v in vs {
			rep.violation(v);
		}
	}
}

fn replay(v: &Value) -> (bool, String) {
	let scrub = |t: String, tree: &Tree| t.replace(&tree.root.display().to_string(), "<scratch>").replace(&scratch_dir().display().to_string(), "<scratch>");
	match v["kind"].as_str().unwrap_or("") {
		"cli" => {
			let tree = Tree::new("c15-replay");
			setup_cli_tree(&tree);
			std::env::set_current_dir(tree.p("main")).expect("chdir");
			let c = Cfg::from_json(v);
			let (viol, _) = cli_case(&tree, &c);
			std::env::set_current_dir("/").expect("chdir");
			(viol.is_some(), scrub(format!("{}\n{}", c.describe(), viol.map(|x| format!("{}\n{}", x.class, x.detail)).unwrap_or_default()), &tree))
		}
		"capi" => {
			let tree = Tree::new("c15c-replay");
			setup_cli_tree(&tree);
			std::env::set_current_dir(tree.p("main")).expect("chdir");
			let c = CCfg::from_json(v);
			let (viol, _) = capi_case(&tree, &c);
			std::env::set_current_dir("/").expect("chdir");
			(viol.is_some(), scrub(format!("{}\n{}", c.describe(), viol.map(|x| format!("{}\n{}", x.class, x.detail)).unwrap_or_default()), &tree))
		}
		"deps-position" => {
			let tree = Tree::new("c15p-replay");
			let v2 = deps_position_case(&tree, v["pos"].as_u64().unwrap_or(0) as usize, v["ikind"].as_u64().unwrap_or(0) as usize);
			(v2.is_some(), scrub(v2.map(|x| format!("{}\n{}", x.class, x.detail)).unwrap_or_else(|| "listing is exact".into()), &tree))
		}
		"deps" => {
			let tree = Tree::new("c15d-replay");
			setup_graph_tree(&tree);
			let edges: Vec<u8> = v["edges"].as_array().map(|a| a.iter().map(|x| x.as_u64().unwrap_or(0) as u8).collect()).unwrap_or_default();
			let (vs, _) = deps_case(&tree, &edges);
			(!vs.is_empty(), scrub(format!("{}\n{}", graph_describe(&edges), vs.iter().map(|x| format!("{}: {}", x.class, x.detail)).collect::<Vec<_>>().join("\n")), &tree))
		}
		k => (false, format!("unknown replay kind {k}")),
	}
}

#[allow(dead_code)]
fn unused(_: Rc<()>) {}
