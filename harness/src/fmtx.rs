//! Shared helpers of the formatter checks (C19, C20): the `jrsonnet-fmt` pipeline as a function, token
//! boundaries, comment extraction and the layout/comment decorations of a program text.

use jrsonnet_formatter::{format, FormatOptions};
use jrsonnet_lexer::Lexer;

use crate::common::guarded;

#[derive(Clone, Debug, PartialEq)]
pub enum F {
	/// what `jrsonnet-fmt` prints: the formatter's text, trimmed, plus a final newline
	Ok(String),
	/// the formatter declined (syntax diagnostics were produced)
	Declined,
	Panic(String),
}
impl F {
	pub fn tag(&self) -> &'static str {
		match self {
			F::Ok(_) => "formatted",
			F::Declined => "declined",
			F::Panic(_) => "panic",
		}
	}
}

/// indent: 0 = hard tabs, otherwise the number of spaces (the three settings of the property: 0, 2, 4)
pub fn fmt(text: &str, indent: u8) -> F {
	// a declined input goes through the diagnostic rendering of jrsonnet-fmt as well
	match guarded(|| {
		format(text, &FormatOptions { indent }).map_err(|e| {
			let snippet = e.build();
			let ansi = hi_doc::source_to_ansi(&snippet);
			assert!(!ansi.is_empty(), "empty diagnostic");
		})
	}) {
		Ok(Ok(s)) => {
			let mut t = s.trim().to_owned();
			t.push('\n');
			F::Ok(t)
		}
		Ok(Err(())) => F::Declined,
		Err(p) => F::Panic(p),
	}
}
pub const INDENTS: [u8; 3] = [0, 2, 4];
pub fn indent_name(i: u8) -> &'static str {
	match i {
		0 => "tabs",
		2 => "2 spaces",
		_ => "4 spaces",
	}
}

#[derive(Clone, Debug)]
pub struct Tok {
	pub kind: String,
	pub start: usize,
	pub end: usize,
}
/// non-whitespace tokens
pub fn tokens(text: &str) -> Vec<Tok> {
	Lexer::new(text)
		.map(|l| Tok { kind: format!("{:?}", l.kind), start: l.range.0 as usize, end: l.range.1 as usize })
		.filter(|t| t.kind != "WHITESPACE")
		.collect()
}
pub fn is_comment_kind(k: &str) -> bool {
	matches!(k, "SINGLE_LINE_SLASH_COMMENT" | "SINGLE_LINE_HASH_COMMENT" | "MULTI_LINE_COMMENT")
}
/// comments in order, normalised: marker + body with surrounding whitespace removed per line, blank edge lines dropped
pub fn comments(text: &str) -> Vec<String> {
	tokens(text)
		.into_iter()
		.filter(|t| is_comment_kind(&t.kind))
		.map(|t| {
			let raw = &text[t.start..t.end];
			let (marker, body) = if let Some(b) = raw.strip_prefix("//") {
				("//", b)
			} else if let Some(b) = raw.strip_prefix('#') {
				("#", b)
			} else {
				("/*", raw.strip_prefix("/*").and_then(|b| b.strip_suffix("*/")).unwrap_or(raw))
			};
			let lines: Vec<&str> = body.lines().map(|l| l.trim().trim_start_matches('*').trim()).filter(|l| !l.is_empty()).collect();
			format!("{marker}{}", lines.join("\n"))
		})
		.collect()
}

/// coarse group of a token kind, for class keys
pub fn kind_group(k: &str) -> &'static str {
	match k {
		"L_PAREN" | "L_BRACK" | "L_BRACE" => "open",
		"R_PAREN" | "R_BRACK" | "R_BRACE" => "close",
		"COMMA" | "SEMI" => "separator",
		"COLON" | "COLONCOLON" | "COLONCOLONCOLON" | "ASSIGN" => "colon/assign",
		"IDENT" | "FLOAT" | "STRING_DOUBLE" | "STRING_SINGLE" | "STRING_DOUBLE_VERBATIM" | "STRING_SINGLE_VERBATIM" | "STRING_BLOCK" | "NULL_KW" | "TRUE_KW" | "FALSE_KW" | "SELF_KW" | "SUPER_KW" | "DOLLAR" => "atom",
		k if k.ends_with("_KW") => "keyword",
		"<start>" => "start",
		"<end>" => "end",
		"<all>" => "all tokens",
		_ => "operator",
	}
}

#[derive(Clone, Debug)]
pub struct Decorated {
	pub text: String,
	/// short description of the decoration
	pub what: &'static str,
	/// token kinds around the insertion point
	pub prev: String,
	pub next: String,
}

/// every single insertion of `what` ∈ {blank line, block comment, line comment on its own line, trailing line comment,
/// hash comment, empty / blank / doc / multi-line block comment} at every token boundary of `text` (including before the first and after the last token)
pub fn decorations(text: &str, with_layout: bool) -> Vec<Decorated> {
	let toks = tokens(text);
	let mut out = Vec::new();
	for b in 0..=toks.len() {
		let pos = if b < toks.len() { toks[b].start } else { text.len() };
		let prev = if b == 0 { "<start>".to_owned() } else { toks[b - 1].kind.clone() };
		let next = if b == toks.len() { "<end>".to_owned() } else { toks[b].kind.clone() };
		// never split inside the text: boundaries are token starts, so insertion keeps every token intact
		let mut ins: Vec<(&'static str, String)> = vec![
			("block comment", format!(" /* c{b} */ ")),
			("line comment on its own line", format!("\n// c{b}\n")),
			("trailing line comment", format!(" // c{b}\n")),
			("hash comment on its own line", format!("\n# c{b}\n")),
			("empty block comment", " /**/ ".to_owned()),
			("blank block comment", " /* */ ".to_owned()),
			("doc comment", format!(" /** d{b} */ ")),
			("multi-line block comment", format!("\n/*\n * m{b}\n   n{b}\n */\n")),
		];
		if with_layout {
			ins.push(("newline", "\n".to_owned()));
			ins.push(("blank line", "\n\n".to_owned()));
		}
		for (what, s) in ins {
			let mut t = String::with_capacity(text.len() + s.len());
			t.push_str(&text[..pos]);
			t.push_str(&s);
			t.push_str(&text[pos..]);
			out.push(Decorated { text: t, what, prev: prev.clone(), next: next.clone() });
		}
	}
	out
}

/// all boundaries decorated at once: a newline after every token (`exploded`), and a comment at every boundary
pub fn decorate_all(text: &str) -> Vec<(&'static str, String)> {
	let toks = tokens(text);
	let mut exploded = String::new();
	let mut commented = String::new();
	let mut commented_lines = String::new();
	for (i, t) in toks.iter().enumerate() {
		let tt = &text[t.start..t.end];
		exploded.push_str(tt);
		exploded.push('\n');
		commented.push_str(&format!("/* c{i} */ {tt} "));
		commented_lines.push_str(&format!("// c{i}\n{tt}\n"));
	}
	commented.push_str(&format!("/* c{} */", toks.len()));
	commented_lines.push_str(&format!("// c{}\n", toks.len()));
	vec![("one token per line", exploded), ("block comment at every boundary", commented), ("line comment at every boundary", commented_lines)]
}
