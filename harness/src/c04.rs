//! C04 — totality: a value or a Jsonnet error, never a crash.
//!
//! parts: `std` (every std function x boundary argument tuples), `src` (all short token / character
//! sequences through the three parsers and, when accepted, the evaluator), `depth` (recursion depth
//! sweep across the frame limit + self-dependency digraphs), `hist` (explicit-state exploration of
//! evaluation histories on one thread / one State with probes after every step).

use std::collections::BTreeSet;

use jrsonnet_evaluator::{stack::limit_stack_depth, Val};
use serde_json::{json, Value};

use crate::{
	common::{fnv, guarded, limit_memory, panic_class, CheckSpec, Journal, PartSpec, Report, Shard, Tier, Violation},
	enumr::{for_each_product, for_each_seq},
	imp::{error_out, Imp, Out},
	Check,
};

pub const CHECK: Check = Check {
	id: "C04",
	spec,
	work,
	replay,
};

fn spec(tier: Tier) -> CheckSpec {
	let n = crate::common::ncpu();
	CheckSpec {
		property: "C04",
		level: "model_checking",
		rule: "exhaustive enumeration, every case executed on the real code in isolated worker processes (panic hook + catch_unwind + death attribution by journal): \
			(std) every function member of the live `std` object applied to every tuple of its arity (required..min(total,3) args, 27-value boundary alphabet; arity 4 over an 11-value alphabet; all-named style for arity<=2) ; \
			(src) every token sequence up to the length bound over the core/full token alphabets joined by space and by nothing, and every character string up to the bound over a 17-char alphabet, through default, legacy and syntax-tree parsers and (if accepted) evaluation+manifestation; \
			(depth) 10 recursion shapes x frame limits x every depth 1..2L, 22 divergent programs (recursion through calls, fields of fresh objects, arrays, asserts, object locals, std functions, manifestation) x frame limits which must end in the frame-limit / infinite-recursion error, and every dependency digraph on 3 nodes x 4 binding kinds; \
			(hist) explicit-state BFS over histories of evaluation outcomes on one thread/State with a probe set after every transition (model: nothing but the file cache carries over). \
			non-trivial = distinct case text that reached evaluation (src) / distinct call text (std) / distinct (shape,L,n) (depth) / distinct history (hist)"
			.into(),
		assumptions: vec![
			"allocation failure under the 6 GiB address-space cap is counted as resource exhaustion, not a verdict".into(),
			"values outside the boundary alphabets and sequences longer than the bounds are not explored".into(),
		],
		parts: vec![
			PartSpec::new("std", n, tier.q(600, 7200)),
			PartSpec::new("src", n, tier.q(600, 14400)),
			PartSpec::new("depth", n, tier.q(600, 7200)),
			PartSpec::new("hist", n.min(8), tier.q(600, 7200)),
			PartSpec::new("tla", n.min(8), tier.q(600, 3600)),
		],
		totality: true,
		exhaustive: true,
		min_outcomes: 10,
	}
}

fn work(shard: &Shard, journal: &Journal, rep: &mut Report) {
	limit_memory(6 << 30);
	match shard.part.as_str() {
		"std" => part_std(shard, journal, rep),
		"src" => part_src(shard, journal, rep),
		"depth" => part_depth(shard, journal, rep),
		"hist" => part_hist(shard, journal, rep),
		"tla" => part_tla(shard, journal, rep),
		p => panic!("unknown part {p}"),
	}
}

// ---------------------------------------------------------------------------------------------

pub const VALS_FULL: &[&str] = &[
	"null", "true", "0", "-0", "1", "-1", "0.5", "-0.5", "2", "3", "255", "256", "2147483648", "-2147483648", "9007199254740992", "1e308", "5e-324", "\"\"", "\"a\"", "\"é😀\"", "\"%\"", "[]", "[0]", "[\"a\"]", "{}", "{a:1}",
	"function(x) x",
	// cyclic values (bound by the prefix below)
	"cyca",
	"cycb",
	"cyco",
];
pub const VALS_SMALL: &[&str] = &["null", "0", "1", "-1", "0.5", "2", "\"a\"", "\"é😀\"", "[0]", "{a:1}", "function(x) x", "cyca", "cyco"];
/// every std call is evaluated under these bindings: a cyclic array and a cyclic object
pub const STD_PREFIX: &str = "local cyca = [cyca], cycb = [cycb], cyco = { x: cyco }; ";

pub struct StdFn {
	pub name: String,
	pub params: Vec<(Option<String>, bool)>,
}
pub fn std_functions(imp: &Imp) -> Vec<StdFn> {
	let Ok(Val::Obj(std)) = imp.eval("std") else {
		panic!("std is not an object");
	};
	let mut out = Vec::new();
	let mut names: Vec<String> = std.fields_ex(true).iter().map(|s| s.to_string()).collect();
	names.sort();
	for name in names {
		if let Ok(Some(Val::Func(f))) = std.get(name.as_str().into()) {
			let params = f.params().iter().map(|p| (p.name().as_str().map(str::to_owned), p.has_default())).collect();
			out.push(StdFn { name, params });
		}
	}
	out
}

/// evaluate, then manifest unless the result is obviously enormous (then probe its ends instead)
pub fn run_total(imp: &Imp, code: &str) -> Out {
	let r = guarded(|| -> Result<String, jrsonnet_evaluator::Error> {
		let v = imp.eval(code)?;
		match &v {
			Val::Arr(a) if a.len() > 100_000 => {
				let n = a.len();
				let _ = a.get(0)?;
				let _ = a.get(n - 1)?;
				let _ = a.get(n / 2)?;
				let past = a.get(n)?;
				Ok(format!("\"<array of {n} elements, past-the-end is {}>\"", if past.is_some() { "SOME" } else { "none" }))
			}
			Val::Str(s) if s.len() > (64 << 20) => Ok(format!("\"<string of {} bytes>\"", s.len())),
			_ => imp.manifest_min(&v),
		}
	});
	match r {
		Ok(Ok(s)) => Out::Json(s),
		Ok(Err(e)) => error_out(&e),
		Err(p) => Out::Panic(p),
	}
}

fn outcome_key(o: &Out) -> u64 {
	match o {
		Out::Json(s) => fnv(format!("v{}", s.chars().take(40).collect::<String>()).as_bytes()),
		Out::Err(c, _) => fnv(format!("e{c}").as_bytes()),
		Out::Panic(p) => fnv(format!("p{p}").as_bytes()),
	}
}

fn check_code(rep: &mut Report, imp: &Imp, ctx: &str, code: &str, cost: u32) -> Out {
	let o = run_total(imp, code);
	rep.case(Some(fnv(code.as_bytes())), outcome_key(&o));
	if let Out::Panic(p) = &o {
		rep.violation(Violation {
			class: format!("{ctx} {}", panic_class(p)),
			witness: code.to_owned(),
			detail: format!("expected a value or a Jsonnet error, got panic at {p}"),
			cost,
			replay: json!({"kind": "code", "code": code}),
		});
	}
	o
}

fn part_std(shard: &Shard, journal: &Journal, rep: &mut Report) {
	let imp = Imp::new();
	let fns = std_functions(&imp);
	rep.count("std_functions", fns.len() as u64);
	let long: String = "é".repeat(150) + &"😀".repeat(150);
	let mut idx = 0u64;
	let mut run = |rep: &mut Report, f: &StdFn, code: String| {
		let my = shard.mine(idx);
		if my {
			journal.note(idx, &format!("std.{}", f.name), &code);
			let o = check_code(rep, &imp, &format!("std.{}", f.name), &code, 0);
			if idx % 50_000 == shard.idx {
				rep.sample(|| json!({"call": code, "outcome": o.short()}));
			}
			let _ = imp.take_traces();
		}
		idx += 1;
	};
	for f in &fns {
		let required = f.params.iter().filter(|p| !p.1).count();
		let total = f.params.len();
		let maxk = if shard.tier == Tier::Quick { 3 } else { 4 };
		for k in required..=total.min(4) {
			let vals: &[&str] = if k >= 4 || (k == 3 && maxk == 3 && required > 3) { VALS_SMALL } else { VALS_FULL };
			if k == 0 {
				run(rep, f, format!("{STD_PREFIX}std.{}()", f.name));
				continue;
			}
			let dims = vec![vals.len(); k];
			for_each_product(&dims, |_, c| {
				let args: Vec<&str> = c.iter().map(|i| vals[*i]).collect();
				run(rep, f, format!("{STD_PREFIX}std.{}({})", f.name, args.join(", ")));
			});
			// all-named style (reversed order) on the small alphabet
			if k <= 2 && f.params.iter().take(k).all(|p| p.0.is_some()) {
				let dims = vec![VALS_SMALL.len(); k];
				for_each_product(&dims, |_, c| {
					let args: Vec<String> = c.iter().enumerate().rev().map(|(pi, i)| format!("{}={}", f.params[pi].0.as_ref().unwrap(), VALS_SMALL[*i])).collect();
					run(rep, f, format!("{STD_PREFIX}std.{}({})", f.name, args.join(", ")));
				});
			}
		}
		// wrong arity
		run(rep, f, format!("std.{}({})", f.name, vec!["1"; total + 1].join(", ")));
		if required > 0 {
			run(rep, f, format!("std.{}({})", f.name, vec!["1"; required - 1].join(", ")));
		}
	}
	// extra: long non-ASCII strings through trace / string functions
	let trace = fns.iter().find(|f| f.name == "trace");
	if let Some(f) = trace {
		for a in [format!("\"{long}\""), format!("[\"{long}\"]"), format!("{{a: \"{long}\"}}")] {
			run(rep, f, format!("std.trace({a}, 1)"));
		}
	}
	rep.count("std_calls_indexed", idx);
}

// ---------------------------------------------------------------------------------------------

pub const TOK_FULL: &[&str] = &[
	"x", "f", "1", "\"s\"", "(", ")", "[", "]", "{", "}", ",", ":", ";", ".", "=", "+", "-", "!", "==", "<", "in", "if", "then", "else", "local", "function", "for", "self", "super", "$", "error", "assert", "import", "tailstrict", "null", "|||",
	"@\"s\"", "1.5e1",
];
pub const TOK_CORE: usize = 24;
pub const CHARS: &[&str] = &["a", "1", ".", "e", "\"", "'", "\\", "@", "|", "/", "*", "#", "\n", " ", "-", "é", "9"];

/// (alphabet, joiner, min length, max length) per tier
pub fn src_spaces(tier: Tier) -> Vec<(&'static str, Vec<&'static str>, &'static str, usize)> {
	let core: Vec<&str> = TOK_FULL[..TOK_CORE].to_vec();
	let full: Vec<&str> = TOK_FULL.to_vec();
	let chars: Vec<&str> = CHARS.to_vec();
	match tier {
		Tier::Quick => vec![("core-sp", core.clone(), " ", 4), ("core-raw", core, "", 4), ("full-sp", full.clone(), " ", 3), ("full-raw", full, "", 3), ("chars", chars, "", 4)],
		Tier::Thorough => vec![("core-sp", core.clone(), " ", 6), ("core-raw", core, "", 5), ("full-sp", full.clone(), " ", 5), ("full-raw", full, "", 4), ("chars", chars, "", 6)],
	}
}

fn part_src(shard: &Shard, journal: &Journal, rep: &mut Report) {
	let imp = Imp::new();
	let mut base = 0u64;
	for (name, alpha, join, maxlen) in src_spaces(shard.tier) {
		let n = for_each_seq(alpha.len(), 0, maxlen, |i, seq| {
			let idx = base + i;
			if !shard.mine(idx) {
				return;
			}
			let text: String = seq.iter().map(|s| alpha[*s]).collect::<Vec<_>>().join(join);
			journal.note(idx, "src", &text);
			src_case(rep, &imp, name, &text, seq.len() as u32);
		});
		base += n;
	}
	rep.count("src_cases_indexed", base);
}

pub fn src_case(rep: &mut Report, imp: &Imp, space: &str, text: &str, cost: u32) {
	// three parsers
	let source = jrsonnet_ir::Source::new_virtual("<src>".into(), text.into());
	let p1 = guarded(|| jrsonnet_ir_parser::parse(text, &jrsonnet_ir_parser::ParserSettings { source: source.clone() }).is_ok());
	let p2 = guarded(|| jrsonnet_peg_parser::parse(text, &jrsonnet_peg_parser::ParserSettings { source: source.clone() }).is_ok());
	let p3 = guarded(|| jrsonnet_rowan_parser::parse(text).1.is_empty());
	for (which, r) in [("default-parser", &p1), ("legacy-parser", &p2), ("syntax-tree-parser", &p3)] {
		if let Err(p) = r {
			rep.violation(Violation {
				class: format!("src {which} {}", panic_class(p)),
				witness: text.to_owned(),
				detail: format!("{which} panicked at {p}"),
				cost,
				replay: json!({"kind": "src", "text": text}),
			});
		}
	}
	let accepted = matches!(p1, Ok(true));
	if accepted {
		let o = check_code(rep, imp, "src eval", text, cost);
		rep.count("src_accepted", 1);
		if rep.evaluations % 20_000 == 1 {
			rep.sample(|| json!({"space": space, "text": text, "outcome": o.short()}));
		}
		let _ = imp.take_traces();
	} else {
		rep.case(None, fnv(format!("rej{:?}{:?}", p2.is_ok(), p3.is_ok()).as_bytes()));
	}
}

// ---------------------------------------------------------------------------------------------

pub const SHAPES: &[&str] = &["direct", "mutual", "field", "thunk-chain", "array", "default-arg", "foldl", "super-chain", "nested-call", "object-chain"];
/// programs that never terminate: the only acceptable outcomes are the frame-limit error or detected infinite recursion
pub const DIVERGENT: &[&str] = &[
	"local f(x) = f(x + 1); f(0)",
	"local f(x) = 1 + f(x + 1); f(0)",
	"local f(x) = { v: f(x + 1).v }; f(0).v",
	"local f(x) = { me: self, v: f(x + 1).v }; f(0).v",
	"local f(x) = [f(x + 1)[0]]; f(0)[0]",
	"local f(x) = { v: f(x + 1) }; std.length(std.toString(f(0)))",
	"local f(x) = { v: f(x + 1) }; f(0)",
	"local f(x) = [f(x + 1)]; f(0)",
	"local o = { a: self.b, b: self.a }; o.a",
	"local a = [a[0]]; a[0]",
	"local f(o) = f(o { n: super.n + 1 }); f({ n: 0 })",
	"local f(o) = f(o + { a+: [1] }).a; f({ a: [] })",
	"local f(x) = x { v: f(self { n+: 1 }).v }; f({ n: 0 }).v",
	"local f(x) = std.map(function(y) f(y)[0], [x]); f(0)[0]",
	"local f(x) = std.foldl(function(a, b) f(b), [x], 0); f(0)",
	"local f(x) = { [if true then 'k']: f(x + 1).k }; f(0).k",
	"local f(x) = { assert f(x + 1).k == 1, k: 1 }; f(0).k",
	"local f(x) = { local l = f(x + 1).k, k: l }; f(0).k",
	"local f(x) = std.get(f(x + 1), 'k'); f(0)",
	"local f(x) = std.objectValues(f(x + 1)); f(0)",
	"{ a: $.a.b }.a",
	"local x = { y: x.y.z }; x.y",
];

pub fn depth_program(shape: &str, n: usize) -> (String, Option<f64>) {
	// returns program and, when it is supposed to succeed, its value
	match shape {
		"direct" => (format!("local f(n) = if n == 0 then 0 else 1 + f(n - 1); f({n})"), Some(n as f64)),
		"mutual" => (format!("local f(n) = if n == 0 then 0 else 1 + g(n - 1), g(n) = if n == 0 then 0 else 1 + f(n - 1); f({n})"), Some(n as f64)),
		"field" => (format!("local o = {{ f(n): if n == 0 then 0 else 1 + self.f(n - 1) }}; o.f({n})"), Some(n as f64)),
		"thunk-chain" => (format!("local go(n, acc) = if n == 0 then acc else go(n - 1, acc + 1); go({n}, 0)"), Some(n as f64)),
		"array" => (format!("local a = std.makeArray({n} + 1, function(i) if i == 0 then 0 else 1 + a[i - 1]); a[{n}]"), Some(n as f64)),
		"default-arg" => (format!("local f(n, r = if n == 0 then 0 else 1 + f(n - 1)) = r; f({n})"), Some(n as f64)),
		"foldl" => (format!("local f(n) = if n == 0 then 0 else std.foldl(function(a, b) a + f(b), [n - 1], 1); f({n})"), Some(n as f64)),
		"super-chain" => {
			let mut s = String::from("({ a: 0 }");
			for _ in 0..n {
				s.push_str(" + { a: 1 + super.a }");
			}
			s.push_str(").a");
			(s, Some(n as f64))
		}
		"object-chain" => (format!("local f(n) = {{ v: if n == 0 then 0 else 1 + f(n - 1).v }}; f({n}).v"), Some(n as f64)),
		"nested-call" => {
			// expression nesting rather than recursion: id(id(id(...)))
			let mut s = String::from("local id(x) = x; ");
			for _ in 0..n {
				s.push_str("id(");
			}
			s.push('7');
			for _ in 0..n {
				s.push(')');
			}
			(s, Some(7.0))
		}
		_ => panic!("shape"),
	}
}

fn run_limited(imp: &Imp, limit: usize, code: &str) -> Out {
	let _g = limit_stack_depth(limit);
	run_total(imp, code)
}

fn part_depth(shard: &Shard, journal: &Journal, rep: &mut Report) {
	let imp = Imp::new();
	let limits: &[usize] = if shard.tier == Tier::Quick { &[10, 50, 200] } else { &[10, 50, 200, 512] };
	// one work item per (shape, L): the sweep over n is sequential because the oracle is about monotonicity
	let mut idx = 0u64;
	for shape in SHAPES {
		for &l in limits {
			let my = shard.mine(idx);
			idx += 1;
			if !my {
				continue;
			}
			let mut first_fail: Option<usize> = None;
			let maxn = if *shape == "super-chain" || *shape == "nested-call" { (2 * l).min(400) } else { 2 * l };
			for n in 1..=maxn {
				let (code, expect) = depth_program(shape, n);
				journal.note(idx - 1, &format!("depth {shape} L={l}"), &format!("n={n}"));
				let o = run_limited(&imp, l, &code);
				rep.case(Some(fnv(format!("{shape}/{l}/{n}").as_bytes())), outcome_key(&o));
				let mut bad: Option<(String, String)> = None;
				match &o {
					Out::Json(s) => {
						let v: Option<f64> = s.parse().ok();
						if v != expect {
							bad = Some(("wrong-value".into(), format!("expected {expect:?} got {s}")));
						}
						if let Some(ff) = first_fail {
							bad = Some(("non-monotone".into(), format!("depth {ff} failed but deeper {n} succeeded")));
						}
						if *shape == "direct" && n >= l {
							bad = Some(("limit-not-enforced".into(), format!("direct recursion of depth {n} succeeded under frame limit {l}")));
						}
					}
					Out::Err(c, t) => {
						if c != "StackOverflow" {
							bad = Some((format!("unexpected-error {c}"), t.clone()));
						} else if n <= l / 8 {
							bad = Some(("shallow-recursion-rejected".into(), format!("depth {n} <= L/8 (L={l}) reported stack overflow")));
						}
						if first_fail.is_none() {
							first_fail = Some(n);
						}
					}
					Out::Panic(p) => bad = Some((panic_class(p), p.clone())),
				}
				if let Some((class, detail)) = bad {
					rep.violation(Violation {
						class: format!("depth {shape} {class}"),
						witness: format!("shape={shape} L={l} n={n}"),
						detail,
						cost: n as u32,
						replay: json!({"kind": "depth", "shape": shape, "limit": l, "n": n}),
					});
				}
			}
			rep.sample(|| json!({"shape": shape, "limit": l, "first_failing_depth": first_fail}));
			rep.count(&format!("first_fail {shape} L={l}"), first_fail.unwrap_or(0) as u64);
		}
	}
	// divergent programs: an error of the two recursion classes, under every frame limit
	for code in DIVERGENT {
		for &l in limits {
			let my = shard.mine(idx);
			idx += 1;
			if !my {
				continue;
			}
			journal.note(idx - 1, &format!("divergent L={l}"), code);
			let o = run_limited(&imp, l, code);
			rep.case(Some(fnv(format!("divergent/{l}/{code}").as_bytes())), outcome_key(&o));
			let ok = matches!(&o, Out::Err(c, _) if c == "StackOverflow" || c == "InfiniteRecursionDetected");
			if !ok {
				rep.violation(Violation {
					class: format!("divergent program does not end in the frame-limit error: {}", match &o { Out::Json(_) => "value".to_owned(), Out::Err(c, _) => format!("error {c}"), Out::Panic(p) => panic_class(p) }),
					witness: (*code).to_owned(),
					detail: format!("frame limit {l}: {}", o.short()),
					cost: 1,
					replay: json!({"kind": "code", "code": code}),
				});
			}
		}
	}
	// thorough: very deep recursion under a huge frame limit (native stack growth)
	if shard.tier == Tier::Thorough {
		for shape in ["direct", "field", "array", "default-arg"] {
			let my = shard.mine(idx);
			idx += 1;
			if !my {
				continue;
			}
			let (code, expect) = depth_program(shape, 40_000);
			journal.note(idx - 1, &format!("depth {shape} L=1000000"), "n=40000");
			let o = run_limited(&imp, 1_000_000, &code);
			rep.case(Some(fnv(format!("{shape}/deep").as_bytes())), outcome_key(&o));
			let ok = match &o {
				Out::Json(s) => s.parse::<f64>().ok() == expect,
				Out::Err(c, _) => c == "StackOverflow",
				Out::Panic(_) => false,
			};
			if !ok {
				rep.violation(Violation {
					class: format!("depth {shape} deep-recursion"),
					witness: format!("shape={shape} L=1000000 n=40000"),
					detail: o.short(),
					cost: 40_000,
					replay: json!({"kind": "depth", "shape": shape, "limit": 1_000_000, "n": 40_000}),
				});
			}
		}
	}
	// self-dependency digraphs on 3 nodes x 4 binding kinds
	let kinds = ["local", "field", "array", "default-arg"];
	for (ki, kind) in kinds.iter().enumerate() {
		for g in 0u32..512 {
			let my = shard.mine(idx);
			idx += 1;
			if !my {
				continue;
			}
			let deps: [Vec<usize>; 3] = std::array::from_fn(|i| (0..3).filter(|j| g >> (i * 3 + j) & 1 == 1).collect());
			let code = dep_program(kind, &deps);
			let expect = dep_value(&deps);
			journal.note(idx - 1, "depgraph", &code);
			let o = run_total(&imp, &code);
			rep.case(Some(fnv(code.as_bytes())), outcome_key(&o));
			let bad = match (&o, expect) {
				(Out::Json(s), Some(v)) => (s.parse::<f64>().ok() != Some(v)).then(|| format!("expected {v} got {s}")),
				(Out::Json(s), None) => Some(format!("cyclic dependency produced a value {s}")),
				(Out::Err(c, t), None) => (!(c == "InfiniteRecursionDetected" || c == "StackOverflow")).then(|| format!("cyclic dependency: unexpected error class {c}: {t}")),
				(Out::Err(c, t), Some(v)) => Some(format!("acyclic dependency (value {v}) failed with {c}: {t}")),
				(Out::Panic(p), _) => Some(format!("panic {p}")),
			};
			if let Some(detail) = bad {
				rep.violation(Violation {
					class: format!("depgraph {kind} {}", if expect.is_some() { "acyclic" } else { "cyclic" }),
					witness: code.clone(),
					detail,
					cost: g.count_ones(),
					replay: json!({"kind": "dep", "bind": kinds[ki], "graph": g}),
				});
			}
			if g == 0b000_000_010 || g == 0b001_100_010 {
				rep.sample(|| json!({"dependency_program": code, "outcome": o.short()}));
			}
		}
	}
	rep.count("depth_items_indexed", idx);
}

pub fn dep_program(kind: &str, deps: &[Vec<usize>; 3]) -> String {
	let name = |j: usize| match kind {
		"field" => format!("self.n{j}"),
		"array" => format!("a[{j}]"),
		_ => format!("n{j}"),
	};
	let body = |i: usize| {
		let mut s = String::from("1");
		for j in &deps[i] {
			s.push_str(" + ");
			s.push_str(&name(*j));
		}
		s
	};
	match kind {
		"local" => format!("local n0 = {}, n1 = {}, n2 = {}; n0", body(0), body(1), body(2)),
		"field" => format!("{{ n0: {}, n1: {}, n2: {} }}.n0", body(0), body(1), body(2)),
		"array" => format!("local a = [{}, {}, {}]; a[0]", body(0), body(1), body(2)),
		"default-arg" => format!("(function(n0 = {}, n1 = {}, n2 = {}) n0)()", body(0), body(1), body(2)),
		_ => panic!("kind"),
	}
}
/// value of node 0, or None when a cycle is reachable from node 0
pub fn dep_value(deps: &[Vec<usize>; 3]) -> Option<f64> {
	fn go(i: usize, deps: &[Vec<usize>; 3], stack: &mut Vec<usize>) -> Option<f64> {
		if stack.contains(&i) {
			return None;
		}
		stack.push(i);
		let mut v = 1.0;
		for j in &deps[i] {
			v += go(*j, deps, stack)?;
		}
		stack.pop();
		Some(v)
	}
	go(0, deps, &mut Vec::new())
}

// ---------------------------------------------------------------------------------------------
// histories (E2)

pub const HIST_OPS: &[(&str, &str)] = &[
	("ok", "1 + 1"),
	("runtime-error", "error \"x\""),
	("assert-fail", "{ assert false : \"boom\", a: 1 }.a"),
	("frame-limit", "local f(x) = 1 + f(x); f(1)"),
	("infinite-recursion", "local a = a; a"),
	("import-cycle", "import \"cyc_a\""),
	("syntax-error", "1 +"),
	("failing-import", "import \"fails\""),
	("manifest-error", "[{ assert false : \"late\" }, { a: error \"m\" }]"),
	("ok-import", "(import \"ok\").v"),
	("deep-then-error", "local f(n) = if n == 0 then error \"deep\" else 1 + f(n - 1); f(60)"),
	("assert-recursion", "local o = { assert self.a == 1, a: o.b, b: 1 }; o.a"),
];
const HIST_FILES: &[(&str, &str)] = &[("ok", "{ v: 1 }"), ("fails", "std.trace(\"EVAL fails\", error \"in file\")"), ("cyc_a", "import \"cyc_b\""), ("cyc_b", "import \"cyc_a\"")];

const PROBES: &[&str] = &[
	"1 + 2",
	"{ assert self.a == 1 : \"p\", a: 1 }.a",
	"{ assert self.a == 2 : \"probe-assert\", a: 1 }.a",
	"import \"fails\"",
	"(import \"ok\").v",
	"import \"cyc_a\"",
	"local a = a; a",
];

fn max_depth(imp: &Imp) -> usize {
	// largest n for which direct recursion succeeds under the default limit; detects a leaked frame counter exactly
	let ok = |n: usize| matches!(run_total(imp, &depth_program("direct", n).0), Out::Json(_));
	let (mut lo, mut hi) = (0usize, 400usize);
	while lo < hi {
		let mid = (lo + hi + 1) / 2;
		if ok(mid) {
			lo = mid;
		} else {
			hi = mid - 1;
		}
	}
	lo
}

fn probe_all(imp: &Imp) -> Vec<String> {
	let mut v: Vec<String> = PROBES.iter().map(|p| run_total(imp, p).short()).collect();
	v.push(format!("max-depth {}", max_depth(imp)));
	v
}

fn hist_imp() -> Imp {
	let imp = Imp::new();
	for (n, c) in HIST_FILES {
		imp.add_file(n, c.as_bytes());
	}
	imp
}

/// model of what may carry over: the set of files whose contents were loaded
fn model_files_loaded(op: &str) -> &'static [&'static str] {
	match op {
		"import-cycle" => &["cyc_a", "cyc_b"],
		"failing-import" => &["fails"],
		"ok-import" => &["ok"],
		_ => &[],
	}
}

pub fn run_history(ops: &[usize], baseline: &[String]) -> (Vec<String>, Option<(String, String)>, Vec<String>) {
	// executes in the current thread with a fresh State; returns (per-step outcomes, first divergence, final probe answers)
	let imp = hist_imp();
	let mut outs = Vec::new();
	let mut loaded: BTreeSet<&str> = BTreeSet::new();
	for (step, &op) in ops.iter().enumerate() {
		let (name, code) = HIST_OPS[op];
		imp.import_log.borrow_mut().clear();
		let o = run_total(&imp, code);
		let _ = imp.take_traces();
		outs.push(o.short());
		if let Out::Panic(p) = &o {
			return (outs, Some((format!("hist {}", panic_class(p)), format!("step {step} ({name}) panicked: {p}"))), vec![]);
		}
		// conformance of the load log with the model: each file is loaded at most once per State
		let loads: Vec<String> = imp.import_log.borrow().iter().filter(|l| l.starts_with("load ")).map(|l| l[5..].to_owned()).collect();
		let mut expect: Vec<&str> = model_files_loaded(name).iter().copied().filter(|f| !loaded.contains(f)).collect();
		expect.sort_unstable();
		let mut got: Vec<&str> = loads.iter().map(String::as_str).collect();
		got.sort_unstable();
		if got != expect {
			return (outs, Some((format!("hist load-log after {name}"), format!("step {step}: model expects loads {expect:?}, implementation loaded {got:?}"))), vec![]);
		}
		for f in model_files_loaded(name) {
			loaded.insert(f);
		}
		// the probe set below imports every file, so from here on the model's cache holds all of them
		for (f, _) in HIST_FILES {
			loaded.insert(f);
		}
		// the op's own outcome must be what it is in a fresh state
		let fresh = run_total(&hist_imp(), code).short();
		if o.short() != fresh {
			return (outs, Some((format!("hist outcome-differs {name}"), format!("step {step} ({name}): {} but in a fresh state: {fresh}", o.short()))), vec![]);
		}
		// probes after every step
		imp.import_log.borrow_mut().clear();
		let probes = probe_all(&imp);
		let probe_loads: Vec<String> = imp.import_log.borrow().iter().filter(|l| l.starts_with("load ")).cloned().collect();
		if step > 0 && !probe_loads.is_empty() {
			return (outs, Some((format!("hist reload after {name}"), format!("step {step}: files loaded again by the probe set although cached: {probe_loads:?}"))), probes);
		}
		let _ = imp.take_traces();
		if probes != baseline {
			let diff: Vec<String> = probes.iter().zip(baseline).filter(|(a, b)| a != b).map(|(a, b)| format!("got `{a}` expected `{b}`")).collect();
			return (outs, Some((format!("hist probe-differs after {name}"), format!("step {step}: {}", diff.join("; ")))), probes);
		}
	}
	let probes = probe_all(&imp);
	(outs, None, probes)
}

fn in_fresh_thread<T: Send + 'static>(f: impl FnOnce() -> T + Send + 'static) -> T {
	std::thread::Builder::new().stack_size(64 << 20).spawn(f).expect("spawn").join().expect("history thread panicked")
}

fn part_hist(shard: &Shard, journal: &Journal, rep: &mut Report) {
	let baseline: Vec<String> = in_fresh_thread(|| probe_all(&hist_imp()));
	rep.sample(|| json!({"probe_baseline": baseline}));
	let depth = if shard.tier == Tier::Quick { 3 } else { 4 };
	let k = HIST_OPS.len();
	// unmerged enumeration of all histories up to `depth` (every sequence, no state merging)
	for_each_seq(k, 1, depth, |idx, seq| {
		if !shard.mine(idx) {
			return;
		}
		let names: Vec<&str> = seq.iter().map(|i| HIST_OPS[*i].0).collect();
		journal.note(idx, "hist", &names.join(","));
		let ops = seq.to_vec();
		let b = baseline.clone();
		let (outs, div, probes) = in_fresh_thread(move || run_history(&ops, &b));
		// state = model state (set of loaded files) + implementation probe answers
		let mut loaded: BTreeSet<&str> = BTreeSet::new();
		for n in &names {
			for f in model_files_loaded(n) {
				loaded.insert(f);
			}
		}
		rep.states.insert(fnv(format!("{loaded:?}{probes:?}").as_bytes()));
		rep.transitions += seq.len() as u64;
		rep.traces_validated += seq.len() as u64;
		rep.case(Some(fnv(names.join(",").as_bytes())), fnv(outs.join("|").as_bytes()));
		if idx % 301 == 0 {
			rep.sample(|| json!({"history": names, "outcomes": outs}));
		}
		if let Some((class, detail)) = div {
			rep.violation(Violation {
				class,
				witness: names.join(","),
				detail,
				cost: seq.len() as u32,
				replay: json!({"kind": "hist", "ops": seq}),
			});
		}
	});
}

// ---------------------------------------------------------------------------------------------
// top-level arguments and external variables: every configuration ends in a value or an error

const TLA_FUNCS: &[&str] = &["1", "function() 1", "function(a) a", "function(a, b) [a, b]", "function(a, b = 2) [a, b]", "function(a = 1, b = 2, c = 3) [a, b, c]", "function(a) std.extVar('e')", "function(a) a.nope", "function(a, a2 = a) a2"];
const TLA_NAMES: &[&str] = &["a", "b", "zz", ""];
/// (name of the kind, is code, text)
const TLA_VALUES: &[(&str, bool, &str)] = &[("string", false, "text é"), ("code", true, "{ k: 1 }"), ("code with a syntax error", true, "{ k: "), ("code with a runtime error", true, "error 'in tla'"), ("code importing a missing file", true, "import 'missing.libsonnet'"), ("code reading another ext var", true, "std.extVar('e')"), ("diverging code", true, "local f(x) = f(x + 1); f(0)")];

fn tla_case(func: &str, args: &[(usize, usize)], ext: Option<usize>) -> Out {
	use jrsonnet_evaluator::tla::TlaArg;
	let imp = Imp::new();
	let r = guarded(|| -> Result<String, jrsonnet_evaluator::Error> {
		if let Some(e) = ext {
			let (_, code, text) = TLA_VALUES[e];
			if code {
				imp.ci.add_ext_code("e", text)?;
			} else {
				imp.ci.add_ext_str("e".into(), text.into());
			}
		}
		let v = imp.eval(func)?;
		let owned: Vec<(&str, TlaArg)> = args.iter().map(|(n, k)| (TLA_NAMES[*n], if TLA_VALUES[*k].1 { TlaArg::InlineCode(TLA_VALUES[*k].2.to_owned()) } else { TlaArg::String(TLA_VALUES[*k].2.into()) })).collect();
		let v = imp.apply_tla(v, &owned)?;
		imp.manifest_min(&v)
	});
	match r {
		Ok(Ok(s)) => Out::Json(s),
		Ok(Err(e)) => error_out(&e),
		Err(p) => Out::Panic(p),
	}
}

fn part_tla(shard: &Shard, journal: &Journal, rep: &mut Report) {
	// every function x every set of <= 2 (thorough 3) named arguments x value kinds x an optional external variable
	let maxargs = shard.tier.q(2, 3);
	let mut arg_sets: Vec<Vec<(usize, usize)>> = vec![vec![]];
	for n in 1..=maxargs {
		for_each_product(&vec![TLA_NAMES.len() * TLA_VALUES.len(); n], |_, c| {
			let set: Vec<(usize, usize)> = c.iter().map(|x| (x / TLA_VALUES.len(), x % TLA_VALUES.len())).collect();
			// names in ascending order, no repetition (a map)
			if set.windows(2).all(|w| w[0].0 < w[1].0) {
				arg_sets.push(set);
			}
		});
	}
	let mut idx = 0u64;
	for func in TLA_FUNCS {
		for args in &arg_sets {
			for ext in [None, Some(0usize), Some(1), Some(2), Some(3)] {
				idx += 1;
				if !shard.mine(idx) {
					continue;
				}
				let desc = format!("{func} with {:?}, ext e = {:?}", args.iter().map(|(n, k)| format!("{}={}", TLA_NAMES[*n], TLA_VALUES[*k].0)).collect::<Vec<_>>(), ext.map(|e| TLA_VALUES[e].0));
				journal.note(idx, "tla", &desc);
				let o = tla_case(func, args, ext);
				rep.case(Some(fnv(desc.as_bytes())), outcome_key(&o));
				if idx % 5003 == 0 {
					rep.sample(|| json!({"configuration": desc, "outcome": o.short()}));
				}
				if let Out::Panic(p) = &o {
					rep.violation(Violation {
						class: format!("top-level call {}", panic_class(p)),
						witness: desc.clone(),
						detail: format!("expected a value or a Jsonnet error, got panic at {p}"),
						cost: args.len() as u32 + u32::from(ext.is_some()),
						replay: json!({"kind": "tla", "func": func, "args": args, "ext": ext}),
					});
				}
			}
		}
	}
	rep.count("tla_configurations", idx / shard.n.max(1));
}

fn replay(v: &Value) -> (bool, String) {
	limit_memory(6 << 30);
	match v["kind"].as_str().unwrap_or("") {
		"tla" => {
			let func = v["func"].as_str().unwrap_or("1").to_owned();
			let func: &'static str = TLA_FUNCS.iter().find(|f| **f == func).copied().unwrap_or("1");
			let args: Vec<(usize, usize)> = v["args"].as_array().map(|a| a.iter().map(|p| (p[0].as_u64().unwrap_or(0) as usize, p[1].as_u64().unwrap_or(0) as usize)).collect()).unwrap_or_default();
			let ext = v["ext"].as_u64().map(|e| e as usize);
			let o = tla_case(func, &args, ext);
			return (matches!(o, Out::Panic(_)), o.short());
		}
		"code" | "src" | "journal" => {
			let code = v["code"].as_str().or_else(|| v["text"].as_str()).or_else(|| v["case"].as_str()).unwrap_or("");
			let imp = Imp::new();
			let mut rep = Report::new();
			if v["part"] == "hist" {
				let ops: Vec<usize> = code.split(',').filter_map(|n| HIST_OPS.iter().position(|o| o.0 == n)).collect();
				return replay(&json!({"kind": "hist", "ops": ops}));
			}
			src_case(&mut rep, &imp, "replay", code, 0);
			if !matches!(v["kind"].as_str(), Some("src")) {
				check_code(&mut rep, &imp, "replay", code, 0);
			}
			let bad = !rep.violations.is_empty();
			(bad, format!("case: {code}\nresult: {}\n{}", run_total(&imp, code).short(), rep.violations.values().flat_map(|v| v.1.iter().map(|w| w.detail.clone())).collect::<Vec<_>>().join("\n")))
		}
		"depth" => {
			let shape = v["shape"].as_str().unwrap();
			let l = v["limit"].as_u64().unwrap() as usize;
			let n = v["n"].as_u64().unwrap() as usize;
			let imp = Imp::new();
			// replay the sweep up to n so that monotonicity verdicts are reproducible
			let mut first_fail = None;
			let mut last = Out::Json(String::new());
			let start = if l > 100_000 { n } else { 1 };
			for m in start..=n {
				let (code, _) = depth_program(shape, m);
				last = run_limited(&imp, l, &code);
				if last.is_err() && first_fail.is_none() {
					first_fail = Some(m);
				}
			}
			let (_, expect) = depth_program(shape, n);
			let bad = match &last {
				Out::Json(s) => s.parse::<f64>().ok() != expect || first_fail.is_some() || (shape == "direct" && n >= l),
				Out::Err(c, _) => c != "StackOverflow" || n <= l / 8,
				Out::Panic(_) => true,
			};
			(bad, format!("shape={shape} L={l} n={n} first_fail={first_fail:?} result={}", last.short()))
		}
		"dep" => {
			let kind = v["bind"].as_str().unwrap();
			let g = v["graph"].as_u64().unwrap() as u32;
			let deps: [Vec<usize>; 3] = std::array::from_fn(|i| (0..3).filter(|j| g >> (i * 3 + j) & 1 == 1).collect());
			let code = dep_program(kind, &deps);
			let expect = dep_value(&deps);
			let o = run_total(&Imp::new(), &code);
			let bad = match (&o, expect) {
				(Out::Json(s), Some(v)) => s.parse::<f64>().ok() != Some(v),
				(Out::Json(_), None) => true,
				(Out::Err(c, _), None) => !(c == "InfiniteRecursionDetected" || c == "StackOverflow"),
				(Out::Err(..), Some(_)) => true,
				(Out::Panic(_), _) => true,
			};
			(bad, format!("{code}\nexpected {expect:?}\nresult {}", o.short()))
		}
		"hist" => {
			let ops: Vec<usize> = v["ops"].as_array().unwrap().iter().map(|x| x.as_u64().unwrap() as usize).collect();
			let baseline: Vec<String> = in_fresh_thread(|| probe_all(&hist_imp()));
			let b = baseline.clone();
			let ops2 = ops.clone();
			let (outs, div, _) = in_fresh_thread(move || run_history(&ops2, &b));
			let names: Vec<&str> = ops.iter().map(|i| HIST_OPS[*i].0).collect();
			(div.is_some(), format!("history {names:?}\noutcomes {outs:?}\ndivergence {div:?}"))
		}
		k => (false, format!("unknown replay kind {k}")),
	}
}
