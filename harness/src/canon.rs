//! Span-erasing canonical printer of the implementation's `Expr` (same S-expression dialect as ast::canon).

use std::fmt::Write;

use jrsonnet_ir::{
	ArgsDesc, AssertStmt, BinaryOpType, BindSpec, CompSpec, Destruct, Expr, ExprParams, FieldMember, FieldName, ImportKind, LiteralType, ObjBody, UnaryOpType, Visibility,
};

use crate::ast::{canon_num, quote};

pub fn canon_expr(e: &Expr) -> String {
	let mut o = String::new();
	c_expr(e, &mut o);
	o
}

thread_local! {
	static DESUGAR: std::cell::Cell<bool> = const { std::cell::Cell::new(false) };
}
/// like `canon_expr`, with the documented sugar equivalences erased: `local f(p) = e` is printed as
/// `local f = function(p) e` and a method field `f(p): e` as `f: function(p) e`
pub fn canon_expr_desugared(e: &Expr) -> String {
	DESUGAR.with(|d| d.set(true));
	let mut o = String::new();
	c_expr(e, &mut o);
	DESUGAR.with(|d| d.set(false));
	o
}

fn destruct_name(d: &Destruct) -> String {
	match d {
		Destruct::Full(n) => n.to_string(),
		#[allow(unreachable_patterns)]
		other => format!("{other:?}").replace(' ', "_"),
	}
}
fn c_params(ps: &ExprParams, o: &mut String) {
	o.push_str("(params");
	for p in ps.exprs.iter() {
		o.push_str(" (");
		o.push_str(&destruct_name(&p.destruct));
		if let Some(d) = &p.default {
			o.push(' ');
			c_expr(d, o);
		}
		o.push(')');
	}
	o.push(')');
}
fn c_bind(b: &BindSpec, o: &mut String) {
	match b {
		BindSpec::Field { into, value } => {
			let _ = write!(o, "(bind {} ", destruct_name(into));
			c_expr(value, o);
			o.push(')');
		}
		BindSpec::Function { name, params, value } if DESUGAR.with(std::cell::Cell::get) => {
			let _ = write!(o, "(bind {name} (fn ");
			c_params(params, o);
			o.push(' ');
			c_expr(value, o);
			o.push_str("))");
		}
		BindSpec::Function { name, params, value } => {
			let _ = write!(o, "(bindfn {name} ");
			c_params(params, o);
			o.push(' ');
			c_expr(value, o);
			o.push(')');
		}
	}
}
fn vis(v: Visibility) -> &'static str {
	match v {
		Visibility::Normal => ":",
		Visibility::Hidden => "::",
		Visibility::Unhide => ":::",
	}
}
fn c_field(f: &FieldMember, o: &mut String) {
	o.push_str("(field ");
	match &f.name.value {
		FieldName::Fixed(n) => {
			let _ = write!(o, "(fixed {})", quote(n));
		}
		FieldName::Dyn(e) => {
			o.push_str("(dyn ");
			c_expr(e, o);
			o.push(')');
		}
	}
	let _ = write!(o, " {} {}", if f.plus { "+" } else { "-" }, vis(f.visibility));
	if let Some(ps) = &f.params {
		if DESUGAR.with(std::cell::Cell::get) {
			o.push_str(" (fn ");
			c_params(ps, o);
			o.push(' ');
			c_expr(&f.value, o);
			o.push_str("))");
			return;
		}
		o.push(' ');
		c_params(ps, o);
	}
	o.push(' ');
	c_expr(&f.value, o);
	o.push(')');
}
fn c_comps(specs: &[CompSpec], o: &mut String) {
	for c in specs {
		match c {
			CompSpec::ForSpec(f) => {
				let _ = write!(o, " (for {} ", destruct_name(&f.destruct));
				c_expr(&f.over, o);
				o.push(')');
			}
			CompSpec::IfSpec(i) => {
				o.push_str(" (if ");
				c_expr(&i.cond, o);
				o.push(')');
			}
		}
	}
}
fn c_assert(a: &AssertStmt, o: &mut String) {
	o.push_str(" (assert ");
	c_expr(&a.0, o);
	if let Some(m) = &a.1 {
		o.push(' ');
		c_expr(m, o);
	}
	o.push(')');
}
fn c_objbody(b: &ObjBody, o: &mut String) {
	match b {
		ObjBody::MemberList(m) => {
			o.push_str("(members (locals");
			for l in m.locals.iter() {
				o.push(' ');
				c_bind(l, o);
			}
			o.push_str(") (asserts");
			for a in m.asserts.iter() {
				c_assert(a, o);
			}
			o.push_str(") (fields");
			for f in &m.fields {
				o.push(' ');
				c_field(f, o);
			}
			o.push_str("))");
		}
		ObjBody::ObjComp(c) => {
			o.push_str("(objcomp (locals");
			for l in c.locals.iter() {
				o.push(' ');
				c_bind(l, o);
			}
			o.push_str(") ");
			c_field(&c.field, o);
			c_comps(&c.compspecs, o);
			o.push(')');
		}
	}
}
fn unop(op: UnaryOpType) -> &'static str {
	match op {
		UnaryOpType::Plus => "+",
		UnaryOpType::Minus => "-",
		UnaryOpType::BitNot => "~",
		UnaryOpType::Not => "!",
	}
}
fn binop(op: BinaryOpType) -> String {
	format!("{op}")
}
fn c_args(a: &ArgsDesc, o: &mut String) {
	o.push_str(" (pos");
	for x in &a.unnamed {
		o.push(' ');
		c_expr(x, o);
	}
	o.push_str(") (named");
	for (n, x) in &a.named {
		let _ = write!(o, " ({n} ");
		c_expr(x, o);
		o.push(')');
	}
	o.push(')');
}
fn c_expr(e: &Expr, o: &mut String) {
	match e {
		Expr::Literal(l) => o.push_str(match l {
			LiteralType::This => "self",
			LiteralType::Super => "super",
			LiteralType::Dollar => "$",
			LiteralType::Null => "null",
			LiteralType::True => "true",
			LiteralType::False => "false",
		}),
		Expr::Str(s) => {
			let _ = write!(o, "(str {})", quote(s));
		}
		Expr::Num(n) => {
			let _ = write!(o, "(num {})", canon_num(*n));
		}
		Expr::Var(v) => {
			let _ = write!(o, "(var {})", v.value);
		}
		Expr::Arr(xs) => {
			o.push_str("(arr");
			for x in xs.iter() {
				o.push(' ');
				c_expr(x, o);
			}
			o.push(')');
		}
		Expr::ArrComp(x, specs) => {
			o.push_str("(arrcomp ");
			c_expr(x, o);
			c_comps(specs, o);
			o.push(')');
		}
		Expr::Obj(b) => {
			o.push_str("(obj ");
			c_objbody(b, o);
			o.push(')');
		}
		Expr::ObjExtend(x, b) => {
			o.push_str("(objext ");
			c_expr(x, o);
			o.push(' ');
			c_objbody(b, o);
			o.push(')');
		}
		Expr::UnaryOp(op, x) => {
			let _ = write!(o, "(un {} ", unop(*op));
			c_expr(x, o);
			o.push(')');
		}
		Expr::BinaryOp(b) => {
			let _ = write!(o, "(bin {} ", binop(b.op));
			c_expr(&b.lhs, o);
			o.push(' ');
			c_expr(&b.rhs, o);
			o.push(')');
		}
		Expr::AssertExpr(a) => {
			o.push_str("(assertexpr ");
			c_expr(&a.assert.0, o);
			if let Some(m) = &a.assert.1 {
				o.push_str(" (msg ");
				c_expr(m, o);
				o.push(')');
			}
			o.push(' ');
			c_expr(&a.rest, o);
			o.push(')');
		}
		Expr::LocalExpr(bs, body) => {
			o.push_str("(local (");
			for (i, b) in bs.iter().enumerate() {
				if i > 0 {
					o.push(' ');
				}
				c_bind(b, o);
			}
			o.push_str(") ");
			c_expr(body, o);
			o.push(')');
		}
		Expr::Import(k, p) => {
			let k = match k.value {
				ImportKind::Normal => "Code",
				ImportKind::Str => "Str",
				ImportKind::Bin => "Bin",
			};
			let _ = write!(o, "(import {k} ");
			c_expr(p, o);
			o.push(')');
		}
		Expr::ErrorStmt(_, x) => {
			o.push_str("(error ");
			c_expr(x, o);
			o.push(')');
		}
		Expr::Apply(f, args, ts) => {
			o.push_str("(apply ");
			c_expr(f, o);
			c_args(&args.value, o);
			let _ = write!(o, " {})", if *ts { "tailstrict" } else { "lazy" });
		}
		Expr::Index { .. } => {
			// flatten nested index chains
			let mut chain: Vec<&Expr> = Vec::new();
			let mut cur = e;
			let mut stack: Vec<&Vec<jrsonnet_ir::IndexPart>> = Vec::new();
			while let Expr::Index { indexable, parts } = cur {
				stack.push(parts);
				cur = indexable;
			}
			for parts in stack.iter().rev() {
				for p in parts.iter() {
					chain.push(&p.value);
				}
			}
			o.push_str("(index ");
			c_expr(cur, o);
			for p in chain {
				o.push(' ');
				c_expr(p, o);
			}
			o.push(')');
		}
		Expr::Function(ps, body) => {
			o.push_str("(fn ");
			c_params(ps, o);
			o.push(' ');
			c_expr(body, o);
			o.push(')');
		}
		Expr::IfElse(i) => {
			o.push_str("(if ");
			c_expr(&i.cond.cond, o);
			o.push(' ');
			c_expr(&i.cond_then, o);
			if let Some(el) = &i.cond_else {
				o.push(' ');
				c_expr(el, o);
			}
			o.push(')');
		}
		Expr::Slice(s) => {
			o.push_str("(slice ");
			c_expr(&s.value, o);
			for x in [&s.slice.start, &s.slice.end, &s.slice.step] {
				o.push(' ');
				match x {
					Some(x) => c_expr(&x.value, o),
					None => o.push('_'),
				}
			}
			o.push(')');
		}
	}
}

/// every span in the tree: (start, end, label)
pub fn collect_spans(e: &Expr, out: &mut Vec<(u32, u32, String)>) {
	use jrsonnet_ir::Span;
	fn sp(s: &Span, label: &str, out: &mut Vec<(u32, u32, String)>) {
		out.push((s.1, s.2, label.to_owned()));
	}
	fn params(ps: &ExprParams, out: &mut Vec<(u32, u32, String)>) {
		for p in ps.exprs.iter() {
			if let Some(d) = &p.default {
				collect_spans(d, out);
			}
		}
	}
	fn bind(b: &BindSpec, out: &mut Vec<(u32, u32, String)>) {
		match b {
			BindSpec::Field { value, .. } => collect_spans(value, out),
			BindSpec::Function { params: ps, value, .. } => {
				params(ps, out);
				collect_spans(value, out);
			}
		}
	}
	fn fieldm(f: &FieldMember, out: &mut Vec<(u32, u32, String)>) {
		match &f.name.value {
			FieldName::Fixed(n) => sp(&f.name.span, &format!("fieldname:{n}"), out),
			FieldName::Dyn(e) => {
				sp(&f.name.span, "fieldname-dyn", out);
				collect_spans(e, out);
			}
		}
		if let Some(ps) = &f.params {
			params(ps, out);
		}
		collect_spans(&f.value, out);
	}
	fn comps(cs: &[CompSpec], out: &mut Vec<(u32, u32, String)>) {
		for c in cs {
			match c {
				CompSpec::ForSpec(f) => collect_spans(&f.over, out),
				CompSpec::IfSpec(i) => {
					sp(&i.span, "ifspec", out);
					collect_spans(&i.cond, out);
				}
			}
		}
	}
	fn body(b: &ObjBody, out: &mut Vec<(u32, u32, String)>) {
		match b {
			ObjBody::MemberList(m) => {
				for l in m.locals.iter() {
					bind(l, out);
				}
				for a in m.asserts.iter() {
					sp(&a.0.span, "assert-cond", out);
					collect_spans(&a.0.value, out);
					if let Some(m) = &a.1 {
						sp(&m.span, "assert-msg", out);
						collect_spans(&m.value, out);
					}
				}
				for f in &m.fields {
					fieldm(f, out);
				}
			}
			ObjBody::ObjComp(c) => {
				for l in c.locals.iter() {
					bind(l, out);
				}
				fieldm(&c.field, out);
				comps(&c.compspecs, out);
			}
		}
	}
	match e {
		Expr::Literal(_) | Expr::Str(_) | Expr::Num(_) => {}
		Expr::Var(v) => sp(&v.span, &format!("var:{}", v.value), out),
		Expr::Arr(xs) => xs.iter().for_each(|x| collect_spans(x, out)),
		Expr::ArrComp(x, cs) => {
			collect_spans(x, out);
			comps(cs, out);
		}
		Expr::Obj(b) => body(b, out),
		Expr::ObjExtend(x, b) => {
			collect_spans(x, out);
			body(b, out);
		}
		Expr::UnaryOp(_, x) => collect_spans(x, out),
		Expr::BinaryOp(b) => {
			collect_spans(&b.lhs, out);
			collect_spans(&b.rhs, out);
		}
		Expr::AssertExpr(a) => {
			sp(&a.assert.0.span, "assert-cond", out);
			collect_spans(&a.assert.0.value, out);
			if let Some(m) = &a.assert.1 {
				sp(&m.span, "assert-msg", out);
				collect_spans(&m.value, out);
			}
			collect_spans(&a.rest, out);
		}
		Expr::LocalExpr(bs, b) => {
			bs.iter().for_each(|x| bind(x, out));
			collect_spans(b, out);
		}
		Expr::Import(k, p) => {
			sp(&k.span, "import", out);
			collect_spans(p, out);
		}
		Expr::ErrorStmt(s, x) => {
			sp(s, "error", out);
			collect_spans(x, out);
		}
		Expr::Apply(f, args, _) => {
			collect_spans(f, out);
			sp(&args.span, "args", out);
			args.value.unnamed.iter().for_each(|x| collect_spans(x, out));
			args.value.named.iter().for_each(|(_, x)| collect_spans(x, out));
		}
		Expr::Index { indexable, parts } => {
			collect_spans(indexable, out);
			for p in parts {
				sp(&p.span, "indexpart", out);
				collect_spans(&p.value, out);
			}
		}
		Expr::Function(ps, b) => {
			params(ps, out);
			collect_spans(b, out);
		}
		Expr::IfElse(i) => {
			sp(&i.cond.span, "ifcond", out);
			collect_spans(&i.cond.cond, out);
			collect_spans(&i.cond_then, out);
			if let Some(el) = &i.cond_else {
				collect_spans(el, out);
			}
		}
		Expr::Slice(s) => {
			collect_spans(&s.value, out);
			for x in [&s.slice.start, &s.slice.end, &s.slice.step].into_iter().flatten() {
				sp(&x.span, "slicepart", out);
				collect_spans(&x.value, out);
			}
		}
	}
}
