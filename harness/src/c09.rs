//! C09 — numbers are IEEE-754 doubles with checked range and coherent comparison.
//!
//! All pairs from a boundary-dense set of doubles under every numeric operator and two-argument std math
//! function, all singles under every unary std math function, all triples of a subset under std.clamp and
//! the ==/</sort/set coherence laws.  Reference: Rust's f64 operators and methods (IEEE correctly rounded /
//! the platform libm) and i64 arithmetic for the bitwise operators.

use jrsonnet_evaluator::Val;
use serde_json::{json, Value};

use crate::{
	common::{fnv, guarded, panic_class, CheckSpec, Journal, PartSpec, Report, Shard, Tier, Violation},
	imp::{error_class, Imp},
	json,
	Check,
};

pub const CHECK: Check = Check {
	id: "C09",
	spec,
	work,
	replay,
};

fn spec(tier: Tier) -> CheckSpec {
	let n = crate::common::ncpu();
	CheckSpec {
		property: "C09",
		level: "exploration",
		rule: "exhaustive over a boundary set D of doubles (zeros, subnormal min/max, min-normal, 1 and 2^53 with their one-ulp neighbours, +-max, powers of ten, small integers, halves, thirds, 0.1, +-2^63, 2^64, shift counts 31/32/52/53/62/63/64/65): (pairs) every ordered pair of D under + - * / % < <= > >= == != & | ^ << >> and std.pow, atan2, hypot, modulo, mod, min, max, __compare; (unary) every element of D under unary - + ~ and every one-argument std math function; (triples) every ordered triple of a 30-value subset under std.clamp and the coherence laws (exactly one of <, ==, >; != <= >= agree; std.sort, std.set, std.setMember agree with ==/<). \
			Oracle: the result read from the value (bit pattern) equals the Rust f64 operation; a non-finite reference result must be an error; the manifested text re-parses to the same double and never contains NaN/inf. non-trivial = distinct expression text"
			.into(),
		assumptions: vec![
			"Rust's f64 arithmetic is IEEE-754 correctly rounded and its math methods are the platform double-precision library".into(),
			"shift counts >= 64, fractional operands of bitwise operators between -1 and 0 and std.round on exact halves are not judged (the property does not fix them); counted".into(),
		],
		parts: vec![PartSpec::new("pairs", n, tier.q(900, 7200)), PartSpec::new("unary", n.min(4), tier.q(900, 7200)), PartSpec::new("triples", n, tier.q(900, 7200))],
		totality: true,
		exhaustive: true,
		min_outcomes: 20,
	}
}

pub fn boundary_set(tier: Tier) -> Vec<f64> {
	let mut d: Vec<f64> = Vec::new();
	let ulp_up = |x: f64| f64::from_bits(x.to_bits() + 1);
	let ulp_dn = |x: f64| f64::from_bits(x.to_bits().saturating_sub(1));
	let base: Vec<f64> = vec![
		0.0,
		5e-324,
		f64::from_bits(0x000f_ffff_ffff_ffff),
		f64::MIN_POSITIVE,
		1e-300,
		1e-17,
		f64::EPSILON,
		f64::EPSILON / 2.0,
		1e-9,
		0.1,
		0.3,
		1.0 / 3.0,
		0.5,
		ulp_dn(1.0),
		1.0,
		ulp_up(1.0),
		1.5,
		2.0,
		2.5,
		3.0,
		7.0,
		10.0,
		31.0,
		32.0,
		52.0,
		53.0,
		62.0,
		63.0,
		64.0,
		65.0,
		100.0,
		255.0,
		256.0,
		1000.0,
		65536.0,
		2147483647.0,
		2147483648.0,
		4294967296.0,
		1e10,
		1e15,
		9007199254740991.0,
		9007199254740992.0,
		ulp_up(9007199254740992.0),
		1e17,
		9223372036854775808.0,
		18446744073709551616.0,
		1e100,
		1e154,
		1e155,
		1e300,
		1e308,
		ulp_dn(f64::MAX),
		f64::MAX,
		std::f64::consts::PI,
		std::f64::consts::E,
	];
	for x in &base {
		d.push(*x);
		d.push(-*x);
	}
	if tier == Tier::Thorough {
		for k in [-1074i32, -1022, -537, -52, -1, 1, 10, 52, 53, 54, 100, 511, 512, 1023] {
			let p = 2f64.powi(k);
			for x in [ulp_dn(p), p, ulp_up(p)] {
				d.push(x);
				d.push(-x);
			}
		}
	}
	d.sort_by(|a, b| a.total_cmp(b));
	d.dedup_by(|a, b| a.to_bits() == b.to_bits());
	d
}

pub fn lit(x: f64) -> String {
	if x == 0.0 {
		return if x.is_sign_negative() { "(-0)".into() } else { "0".into() };
	}
	let body = if x.abs() >= 1e-5 && x.abs() < 1e17 && x == x.trunc() { format!("{:.0}", x.abs()) } else { format!("{:e}", x.abs()) };
	if x < 0.0 {
		format!("(-{body})")
	} else {
		body
	}
}

#[derive(Debug, Clone, PartialEq)]
pub enum Exp {
	Num(f64),
	Bool(bool),
	Error,
	/// the property does not fix the outcome
	Unjudged,
}

#[derive(Debug, Clone)]
pub enum Got {
	Num(f64),
	Bool(bool),
	Other(String),
	Error(String, String),
	Panic(String),
	/// manifestation problems
	BadText(String),
}

fn run(imp: &Imp, code: &str) -> Got {
	let r = guarded(|| -> Result<(Val, String), jrsonnet_evaluator::Error> {
		let v = imp.eval(code)?;
		let t = imp.manifest_min(&v)?;
		Ok((v, t))
	});
	match r {
		Err(p) => Got::Panic(p),
		Ok(Err(e)) => Got::Error(error_class(&e), format!("{}", e.error())),
		Ok(Ok((v, text))) => match v {
			Val::Num(n) => {
				let x = n.get();
				if !x.is_finite() {
					return Got::BadText(format!("non-finite value {x} is observable"));
				}
				match json::parse(&text) {
					Ok(json::J::Num(y)) if y.to_bits() == x.to_bits() || (x == 0.0 && y == 0.0) => Got::Num(x),
					Ok(other) => Got::BadText(format!("manifested text {text:?} re-parses to {other:?}, value is {x:e}")),
					Err(e) => Got::BadText(format!("manifested text {text:?} is not JSON: {e}")),
				}
			}
			Val::Bool(b) => Got::Bool(b),
			_ => Got::Other(text),
		},
	}
}

fn safe(x: f64) -> bool {
	x.abs() <= 9007199254740991.0
}

pub const BIN_OPS: &[&str] = &["+", "-", "*", "/", "%", "<", "<=", ">", ">=", "==", "!=", "&", "|", "^", "<<", ">>"];
pub const BIN_FNS: &[&str] = &["pow", "atan2", "hypot", "modulo", "mod", "min", "max", "__compare"];

pub fn expect_bin(op: &str, a: f64, b: f64) -> Exp {
	let fin = |x: f64| if x.is_finite() { Exp::Num(x) } else { Exp::Error };
	match op {
		"+" => fin(a + b),
		"-" => fin(a - b),
		"*" => fin(a * b),
		"/" => {
			if b == 0.0 {
				Exp::Error
			} else {
				fin(a / b)
			}
		}
		"%" | "modulo" | "mod" => {
			if b == 0.0 {
				Exp::Error
			} else {
				fin(a % b)
			}
		}
		"<" => Exp::Bool(a < b),
		"<=" => Exp::Bool(a <= b),
		">" => Exp::Bool(a > b),
		">=" => Exp::Bool(a >= b),
		"==" => Exp::Bool(a == b),
		"!=" => Exp::Bool(a != b),
		"&" | "|" | "^" | "<<" | ">>" => {
			if !safe(a) || !safe(b) {
				return Exp::Error;
			}
			if (a != a.trunc() && a.abs() < 1.0 && a < 0.0) || (b != b.trunc() && b.abs() < 1.0 && b < 0.0) {
				return Exp::Unjudged;
			}
			let (x, y) = (a.trunc() as i64, b.trunc() as i64);
			match op {
				"&" => Exp::Num((x & y) as f64),
				"|" => Exp::Num((x | y) as f64),
				"^" => Exp::Num((x ^ y) as f64),
				_ => {
					if y < 0 {
						return Exp::Error;
					}
					if y >= 64 {
						return Exp::Unjudged;
					}
					if op == ">>" {
						Exp::Num((x >> y) as f64)
					} else {
						let r = i128::from(x) << y;
						if r > i128::from(i64::MAX) || r < i128::from(i64::MIN) {
							Exp::Error
						} else {
							Exp::Num(r as i64 as f64)
						}
					}
				}
			}
		}
		"pow" => fin(a.powf(b)),
		"atan2" => fin(a.atan2(b)),
		"hypot" => fin(a.hypot(b)),
		"min" => Exp::Num(a.min(b)),
		"max" => Exp::Num(a.max(b)),
		"__compare" => Exp::Num(if a < b {
			-1.0
		} else if a > b {
			1.0
		} else {
			0.0
		}),
		_ => unreachable!(),
	}
}

pub const UN_FNS: &[&str] = &[
	"-", "+", "~", "abs", "sign", "floor", "ceil", "round", "sqrt", "sin", "cos", "tan", "asin", "acos", "atan", "exp", "log", "log2", "log10", "mantissa", "exponent", "isEven", "isOdd", "isInteger", "isDecimal", "deg2rad", "rad2deg",
];

fn frexp(x: f64) -> (f64, i32) {
	if x == 0.0 || !x.is_finite() {
		return (x, 0);
	}
	let bits = x.to_bits();
	let exp = ((bits >> 52) & 0x7ff) as i32;
	if exp == 0 {
		// subnormal: scale up
		let (m, e) = frexp(x * 2f64.powi(64));
		return (m, e - 64);
	}
	let m = f64::from_bits((bits & !(0x7ff << 52)) | (1022u64 << 52));
	(m, exp - 1022)
}

pub fn expect_un(f: &str, a: f64) -> Exp {
	let fin = |x: f64| if x.is_finite() { Exp::Num(x) } else { Exp::Error };
	match f {
		"-" => Exp::Num(-a),
		"+" => Exp::Num(a),
		"~" => {
			if !safe(a) {
				// the property speaks of the *binary* bitwise operators only
				Exp::Unjudged
			} else if a != a.trunc() && a.abs() < 1.0 && a < 0.0 {
				Exp::Unjudged
			} else {
				Exp::Num(!(a.trunc() as i64) as f64)
			}
		}
		"abs" => Exp::Num(a.abs()),
		"sign" => Exp::Num(if a > 0.0 {
			1.0
		} else if a < 0.0 {
			-1.0
		} else {
			0.0
		}),
		"floor" => Exp::Num(a.floor()),
		"ceil" => Exp::Num(a.ceil()),
		"round" => {
			let away = a.round();
			let up = (a + 0.5).floor();
			if away.to_bits() == up.to_bits() {
				Exp::Num(away)
			} else {
				Exp::Unjudged
			}
		}
		"sqrt" => fin(a.sqrt()),
		"sin" => fin(a.sin()),
		"cos" => fin(a.cos()),
		"tan" => fin(a.tan()),
		"asin" => fin(a.asin()),
		"acos" => fin(a.acos()),
		"atan" => fin(a.atan()),
		"exp" => fin(a.exp()),
		"log" => fin(a.ln()),
		"log2" => fin(a.log2()),
		"log10" => fin(a.log10()),
		"mantissa" => Exp::Num(frexp(a).0),
		"exponent" => Exp::Num(f64::from(frexp(a).1)),
		"isEven" => {
			if a != a.trunc() {
				Exp::Unjudged
			} else {
				Exp::Bool(a % 2.0 == 0.0)
			}
		}
		"isOdd" => {
			if a != a.trunc() {
				Exp::Unjudged
			} else {
				Exp::Bool(a % 2.0 != 0.0)
			}
		}
		"isInteger" => Exp::Bool(a == a.round()),
		"isDecimal" => Exp::Bool(a != a.round()),
		// documented as x * pi / 180; multiplying by the precomputed factor is an equally valid reading
		"deg2rad" => {
			let (x, y) = (a * std::f64::consts::PI / 180.0, a * (std::f64::consts::PI / 180.0));
			if x.to_bits() == y.to_bits() {
				fin(x)
			} else {
				Exp::Unjudged
			}
		}
		"rad2deg" => {
			let (x, y) = (a * 180.0 / std::f64::consts::PI, a * (180.0 / std::f64::consts::PI));
			if x.to_bits() == y.to_bits() {
				fin(x)
			} else {
				Exp::Unjudged
			}
		}
		_ => unreachable!(),
	}
}

fn mag_class(x: f64) -> &'static str {
	let a = x.abs();
	if a == 0.0 {
		"zero"
	} else if a < f64::MIN_POSITIVE {
		"subnormal"
	} else if a < 1e-9 {
		"tiny"
	} else if a != a.trunc() {
		"fraction"
	} else if a <= 64.0 {
		"small-int"
	} else if a <= 9007199254740991.0 {
		"safe-int"
	} else if a < 9.3e18 {
		"above-2^53"
	} else {
		"huge"
	}
}

/// compares and records; returns a short outcome key
fn judge(rep: &mut Report, what: &str, code: &str, exp: &Exp, got: &Got, operands: &[f64]) -> u64 {
	let ok = match (exp, got) {
		(_, Got::Panic(_)) | (_, Got::BadText(_)) => false,
		(Exp::Unjudged, _) => true,
		(Exp::Num(e), Got::Num(g)) => e.to_bits() == g.to_bits(),
		(Exp::Bool(e), Got::Bool(g)) => e == g,
		(Exp::Error, Got::Error(..)) => true,
		_ => false,
	};
	if matches!(exp, Exp::Unjudged) {
		rep.count("unjudged", 1);
	}
	if !ok {
		let kind = match (exp, got) {
			(_, Got::Panic(p)) => panic_class(p),
			(_, Got::BadText(_)) => "manifested text does not denote the value".to_owned(),
			(Exp::Error, _) => "expected an error, got a value".to_owned(),
			(_, Got::Error(c, _)) => format!("expected a value, got error {c}"),
			(Exp::Num(e), Got::Num(g)) => {
				if e == g {
					"wrong sign of zero".to_owned()
				} else if ((e - g) / e).abs() < 1e-12 {
					"result off by a few ulps".to_owned()
				} else {
					"wrong result".to_owned()
				}
			}
			_ => "wrong result".to_owned(),
		};
		let shape: Vec<&str> = operands.iter().map(|x| mag_class(*x)).collect();
		rep.violation(Violation {
			class: format!("{what}: {kind} [{}]", shape.join(", ")),
			witness: code.to_owned(),
			detail: format!("expected {exp:?}, implementation {got:?}"),
			cost: operands.iter().map(|x| lit(*x).len() as u32).sum(),
			replay: json!({"kind": "expr", "code": code, "what": what, "operands": operands.iter().map(|x| x.to_bits().to_string()).collect::<Vec<_>>()}),
		});
	}
	fnv(format!("{exp:?}").as_bytes())
}

fn work(shard: &Shard, journal: &Journal, rep: &mut Report) {
	crate::common::limit_memory(6 << 30);
	match shard.part.as_str() {
		"pairs" => part_pairs(shard, journal, rep),
		"unary" => part_unary(shard, journal, rep),
		"triples" => part_triples(shard, journal, rep),
		p => panic!("unknown part {p}"),
	}
}

fn bin_code(op: &str, a: f64, b: f64) -> String {
	if BIN_OPS.contains(&op) {
		format!("{} {op} {}", lit(a), lit(b))
	} else {
		format!("std.{op}({}, {})", lit(a), lit(b))
	}
}

fn part_pairs(shard: &Shard, journal: &Journal, rep: &mut Report) {
	let d = boundary_set(shard.tier);
	let imp = Imp::new();
	let mut idx = 0u64;
	for op in BIN_OPS.iter().chain(BIN_FNS) {
		for a in &d {
			for b in &d {
				if shard.mine(idx) {
					let code = bin_code(op, *a, *b);
					journal.note(idx, "pairs", &code);
					let exp = expect_bin(op, *a, *b);
					let got = run(&imp, &code);
					let k = judge(rep, &format!("`{op}`"), &code, &exp, &got, &[*a, *b]);
					rep.case(Some(fnv(code.as_bytes())), k);
					if idx % 40_009 == 0 {
						rep.sample(|| json!({"expr": code, "expected": format!("{exp:?}"), "got": format!("{got:?}")}));
					}
				}
				idx += 1;
			}
		}
	}
	rep.count("pairs_indexed", idx / shard.n);
}

fn part_unary(shard: &Shard, journal: &Journal, rep: &mut Report) {
	let d = boundary_set(shard.tier);
	let imp = Imp::new();
	let mut idx = 0u64;
	for f in UN_FNS {
		for a in &d {
			if shard.mine(idx) {
				let code = if ["-", "+", "~"].contains(f) { format!("{f}{}", lit(*a)) } else { format!("std.{f}({})", lit(*a)) };
				journal.note(idx, "unary", &code);
				let exp = expect_un(f, *a);
				let got = run(&imp, &code);
				let k = judge(rep, &format!("`{f}`"), &code, &exp, &got, &[*a]);
				rep.case(Some(fnv(code.as_bytes())), k);
				if idx % 397 == 0 {
					rep.sample(|| json!({"expr": code, "expected": format!("{exp:?}"), "got": format!("{got:?}")}));
				}
			}
			idx += 1;
		}
	}
	rep.count("unary_indexed", idx / shard.n);
}

fn part_triples(shard: &Shard, journal: &Journal, rep: &mut Report) {
	// subset: every other element around the interesting boundaries
	let d = boundary_set(Tier::Quick);
	let pick: Vec<f64> = d.iter().copied().filter(|x| [0.0, 5e-324, 1e-17, f64::EPSILON, 0.5, 1.0, 2.0, 3.0, 9007199254740992.0, 1e308, f64::MAX].iter().any(|y| x.abs() == *y) || *x == f64::from_bits(1.0f64.to_bits() + 1) || *x == f64::from_bits(1.0f64.to_bits() - 1)).collect();
	let imp = Imp::new();
	let mut idx = 0u64;
	rep.count("triple_subset", pick.len() as u64 / shard.n.max(1));
	// coherence laws on pairs (evaluated in one program each)
	for a in &d {
		for b in &d {
			if shard.mine(idx) {
				let (la, lb) = (lit(*a), lit(*b));
				let code = format!(
					"local a = {la}, b = {lb}; [a < b, a == b, a > b, a != b, a <= b, a >= b, std.sort([a, b]) == (if b < a then [b, a] else [a, b]), std.length(std.set([a, b])), std.setMember(a, [b]), std.sort([b, a])[0] <= std.sort([b, a])[1], std.equals(a, b), std.primitiveEquals(a, b), std.member([b], a), std.count([b], a), std.length(std.uniq([a, b]))]"
				);
				journal.note(idx, "coherence", &code);
				let (lt, eq, gt) = (a < b, a == b, a > b);
				let one = |x: bool| if x { "true" } else { "false" };
				let expect = format!(
					"[{},{},{},{},{},{},true,{},{},true,{},{},{},{},{}]",
					one(lt),
					one(eq),
					one(gt),
					one(!eq),
					one(lt || eq),
					one(gt || eq),
					if eq { 1 } else { 2 },
					one(eq),
					one(eq),
					one(eq),
					one(eq),
					if eq { 1 } else { 0 },
					if eq { 1 } else { 2 }
				);
				let o = imp.run(&code);
				let got = match &o {
					crate::imp::Out::Json(s) => s.clone(),
					other => other.short(),
				};
				rep.case(Some(fnv(code.as_bytes())), fnv(expect.as_bytes()));
				if got != expect {
					// which law fails first
					let names = ["<", "==", ">", "!=", "<=", ">=", "sort order", "std.set length", "std.setMember", "sorted pair ordered", "std.equals", "std.primitiveEquals", "std.member", "std.count", "std.uniq length"];
					let ge: Vec<&str> = got.trim_matches(|c| c == '[' || c == ']').split(',').collect();
					let ee: Vec<&str> = expect.trim_matches(|c| c == '[' || c == ']').split(',').collect();
					let first = ge.iter().zip(&ee).position(|(x, y)| x != y).map_or("evaluation".to_owned(), |i| names[i].to_owned());
					let rel = if eq {
						"equal"
					} else if (a - b).abs() <= f64::EPSILON {
						"differ by <= epsilon"
					} else {
						"differ"
					};
					rep.violation(Violation {
						class: format!("coherence: `{first}` disagrees with IEEE comparison [operands {rel}]"),
						witness: code.clone(),
						detail: format!("expected {expect}\ngot      {got}"),
						cost: (la.len() + lb.len()) as u32,
						replay: json!({"kind": "law", "code": code, "expect": expect}),
					});
				}
			}
			idx += 1;
		}
	}
	// clamp on triples
	for x in &pick {
		for lo in &pick {
			for hi in &pick {
				if shard.mine(idx) {
					let code = format!("std.clamp({}, {}, {})", lit(*x), lit(*lo), lit(*hi));
					journal.note(idx, "clamp", &code);
					// definition: if x < lo then lo else if x > hi then hi else x
					let e = if x < lo {
						*lo
					} else if x > hi {
						*hi
					} else {
						*x
					};
					let got = run(&imp, &code);
					let k = judge(rep, "`clamp`", &code, &Exp::Num(e), &got, &[*x, *lo, *hi]);
					rep.case(Some(fnv(code.as_bytes())), k);
				}
				idx += 1;
			}
		}
	}
	rep.count("triples_indexed", idx / shard.n);
}

fn replay(v: &Value) -> (bool, String) {
	let imp = Imp::new();
	let code = v["code"].as_str().unwrap_or("");
	match v["kind"].as_str().unwrap_or("") {
		"law" => {
			let o = imp.run(code);
			let got = match &o {
				crate::imp::Out::Json(s) => s.clone(),
				other => other.short(),
			};
			let expect = v["expect"].as_str().unwrap_or("");
			(got != expect, format!("{code}\nexpected {expect}\ngot      {got}"))
		}
		_ => {
			let ops: Vec<f64> = v["operands"].as_array().map(|a| a.iter().filter_map(|x| x.as_str().and_then(|s| s.parse::<u64>().ok()).map(f64::from_bits)).collect()).unwrap_or_default();
			let what = v["what"].as_str().unwrap_or("").trim_matches('`').to_owned();
			let exp = match ops.len() {
				1 => expect_un(&what, ops[0]),
				2 => expect_bin(&what, ops[0], ops[1]),
				3 => {
					let (x, lo, hi) = (ops[0], ops[1], ops[2]);
					Exp::Num(if x < lo {
						lo
					} else if x > hi {
						hi
					} else {
						x
					})
				}
				_ => Exp::Unjudged,
			};
			let got = run(&imp, code);
			let mut rep = Report::new();
			judge(&mut rep, &what, code, &exp, &got, &ops);
			(!rep.violations.is_empty(), format!("{code}\nexpected {exp:?}\ngot {got:?}"))
		}
	}
}
