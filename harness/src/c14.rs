//! C14 — YAML, TOML, Python, XML and INI manifestation denote the same data (E1 + independent parsers in Python).

use std::{
	io::Write as _,
	process::{Command, Stdio},
};

use clap::Parser as _;
use jrsonnet_cli::ManifestOpts;
use serde_json::{json, Map, Value};

use crate::{
	common::{fnv, guarded, panic_class, verif_root, CheckSpec, Journal, PartSpec, Report, Shard, Tier, Violation},
	imp::{error_out, maybe_collect, Imp, Out},
	Check,
};

pub const CHECK: Check = Check {
	id: "C14",
	spec,
	work,
	replay,
};

fn spec(tier: Tier) -> CheckSpec {
	let n = crate::common::ncpu();
	CheckSpec {
		property: "C14",
		level: "exploration",
		rule: format!(
			"exhaustive: for each writer, every value of: each of {} format-hostile atoms as a string value, as a key, {} as key/value pairs, every tree of depth <= 2 and width <= 2 over {{number, string, true, null, [], {{}}}}, hostile atoms at every nesting position, and 40 YAML 1.1 keyword / special-number spellings in every letter case as values and keys; restricted per format to its domain (TOML: objects without null; XML: JSONML shapes with name-safe tags/attribute names and hostile texts/attribute values; INI: main/sections of scalars and arrays of scalars over INI-safe atoms), multi-line strings from the block-scalar-safe class. Writers and options: std.manifestYamlDoc x indent_array_in_object x quote_keys, std.manifestYamlStream x c_document_end, CLI -f yaml x --line-padding {{1,2,4}}, CLI -y; std.manifestToml, std.manifestTomlEx with indent '' and tab, CLI -f toml; std.manifestPython, std.manifestPythonVars; std.manifestXmlJsonml, CLI -f xml-jsonml; std.manifestIni, CLI -f ini. Oracle: PyYAML safe loader, tomllib, ast.literal_eval, ElementTree, a line reader for INI: the parsed data equals the source value (strings code point for code point, numbers by value, booleans/null/strings kept apart, sequence order). One out-of-domain value per rule (null/function in TOML, function anywhere, non-JSONML shapes, non-INI shapes) must be an error. non-trivial = distinct (writer, options, value) that produces text",
			ATOMS.len(),
			tier.q("all pairs over a 16-atom subset", "all pairs"),
		),
		assumptions: vec![
			"the Python readers (PyYAML 6 = YAML 1.1 typing, tomllib = TOML 1.0, ElementTree, ast.literal_eval) define well-formedness and the data denoted; the INI reader is the 25-line reader in oracles/manifest_oracle.py (configparser merges repeated keys)".into(),
			"a YAML document is read as the executable writes it to a file, i.e. followed by a newline (a block scalar that ends the text otherwise loses its final line break, as in the reference implementation); INI scalars are compared as the text std.toString gives; XML expectations merge adjacent text children and drop empty attribute objects (JSONML equivalences)".into(),
		],
		parts: vec![PartSpec::new("yaml", n, tier.q(900, 14400)), PartSpec::new("toml", n, tier.q(900, 7200)), PartSpec::new("python", n.min(8), tier.q(900, 3600)), PartSpec::new("xml", n.min(8), tier.q(900, 3600)), PartSpec::new("ini", n.min(4), tier.q(900, 3600))],
		totality: false,
		exhaustive: true,
		min_outcomes: 2,
	}
}

pub const ATOMS: [&str; 52] = [
	"", " ", "a", "a b", "\"", "'", "\\", "#", ":", ": ", "-", "- ", "=", "[", "]", "{", ",", "&", "*", "!", "|", ">", "%", "@", "\t", "\u{1}", "\u{7f}", "é", "😀", "yes", "No", "on", "~", "null", "true", "1", "1.0", "1e3", "0x1f", "0o7", "1_000", ".5", ".inf", "2001-01-01", "12:30", "<<", "---", "a: b", " a", "a ", "\u{80}", "\u{85}",
];
const YAML_WORDS: [&str; 40] = [
	"y", "Y", "yes", "Yes", "YES", "n", "N", "no", "NO", "true", "True", "TRUE", "false", "False", "FALSE", "on", "On", "ON", "off", "Off", "OFF", "null", "Null", "NULL", ".inf", ".Inf", ".INF", "-.inf", "-.INF", "+.inf", ".nan", ".NaN", ".NAN", "0b101", "0o17", "017", "1:30:00", "-0x1F", "1e3", "+1",
];
const MULTILINE: [&str; 5] = ["a\nb", "a\nb\n", "a\n\nb", "é\n#x\n", "- a\n: b"];
/// atoms used for the quick pair grid
const PAIR_ATOMS: [usize; 16] = [0, 1, 2, 4, 5, 6, 7, 8, 10, 12, 24, 26, 29, 33, 35, 43];

fn s(x: &str) -> Value {
	Value::String(x.to_owned())
}
fn obj1(k: &str, v: Value) -> Value {
	let mut m = Map::new();
	m.insert(k.to_owned(), v);
	Value::Object(m)
}

/// generic JSON-like values (the domain of YAML and Python)
fn generic_values(tier: Tier, with_null: bool) -> Vec<Value> {
	let mut out = Vec::new();
	for a in ATOMS {
		out.push(obj1("k", s(a)));
		out.push(obj1(a, json!(1)));
		out.push(json!([a]));
		out.push(obj1("a", obj1(a, json!([a]))));
		out.push(json!([[a], obj1(a, s(a))]));
	}
	// every YAML 1.1 keyword and special float spelling, as a value and as a key
	for a in YAML_WORDS {
		out.push(obj1("k", s(a)));
		out.push(obj1(a, json!(1)));
		out.push(json!([a, a]));
	}
	for m in MULTILINE {
		out.push(obj1("k", s(m)));
		out.push(json!([m, 1]));
		out.push(obj1("a", obj1("b", s(m))));
		out.push(json!([[m]]));
	}
	let pairs: Vec<usize> = if tier == Tier::Quick { PAIR_ATOMS.to_vec() } else { (0..ATOMS.len()).collect() };
	for i in &pairs {
		for j in &pairs {
			out.push(obj1(ATOMS[*i], s(ATOMS[*j])));
		}
	}
	// every tree of depth <= 2, width <= 2
	let mut leaves: Vec<Value> = vec![json!(0), json!(-1.5), json!(1e21), s("s"), json!(true), json!([]), json!({})];
	if with_null {
		leaves.push(Value::Null);
	}
	let mut level1: Vec<Value> = leaves.clone();
	for a in &leaves {
		level1.push(json!([a]));
		level1.push(obj1("p", a.clone()));
		for b in &leaves {
			level1.push(json!([a, b]));
			let mut m = Map::new();
			m.insert("p".into(), a.clone());
			m.insert("q".into(), b.clone());
			level1.push(Value::Object(m));
		}
	}
	out.extend(level1.iter().cloned());
	let reps: Vec<Value> = vec![json!(1), s("s"), json!([]), json!({}), json!([1]), json!([1, "s"]), obj1("p", json!(1)), json!({"p": 1, "q": "s"}), json!([[]]), json!([{}])];
	for a in &reps {
		out.push(json!([a]));
		out.push(obj1("p", a.clone()));
		for b in &reps {
			out.push(json!([a, b]));
			let mut m = Map::new();
			m.insert("p".into(), a.clone());
			m.insert("q".into(), b.clone());
			out.push(Value::Object(m));
		}
	}
	out
}

fn has_null(v: &Value) -> bool {
	match v {
		Value::Null => true,
		Value::Array(a) => a.iter().any(has_null),
		Value::Object(o) => o.values().any(has_null),
		_ => false,
	}
}

#[derive(Clone, Debug)]
struct Doc {
	/// writer + options, for class keys and the witness
	writer: String,
	/// format name understood by the oracle
	fmt: &'static str,
	/// Jsonnet program producing the text, or CLI flags applied to the value
	how: How,
	expect: Value,
	/// the value is outside the writer's domain: an error is required
	must_fail: bool,
}
#[derive(Clone, Debug)]
enum How {
	Std(String),
	Cli(Vec<&'static str>, Value),
}

/// writer family for class keys: the options that select a different quoting path stay, layout options go
fn family(writer: &str) -> String {
	if writer.starts_with("std.manifestYamlDoc(") {
		return format!("YAML std [{} keys, quoted values]", if writer.contains("quote_keys=true") { "quoted" } else { "bare" });
	}
	if writer.starts_with("std.manifestYamlStream(") {
		return "YAML stream std".into();
	}
	if writer.starts_with("CLI -f yaml") {
		return format!("YAML CLI [bare keys, bare values]{}", if writer.ends_with(" 2") { "" } else { " with --line-padding other than 2" });
	}
	if writer.starts_with("std.manifestTomlEx") || writer == "std.manifestToml" {
		return "TOML std".into();
	}
	writer.to_owned()
}

fn js(v: &Value) -> String {
	serde_json::to_string(v).expect("json")
}

fn produce(d: &Doc) -> Out {
	maybe_collect();
	let imp = Imp::new();
	match &d.how {
		How::Std(code) => match guarded(|| imp.eval(code).and_then(|v| v.manifest(jrsonnet_evaluator::manifest::StringFormat))) {
			Ok(Ok(s)) => Out::Json(s),
			Ok(Err(e)) => error_out(&e),
			Err(p) => Out::Panic(p),
		},
		How::Cli(flags, value) => {
			let mut args = vec!["jrsonnet"];
			args.extend(flags.iter());
			let opts = ManifestOpts::try_parse_from(args).expect("flags accepted by clap");
			match guarded(|| imp.eval(&js(value)).and_then(|v| {
				let _g = imp.state.try_enter();
				v.manifest(opts.manifest_format())
			})) {
				Ok(Ok(s)) => Out::Json(s),
				Ok(Err(e)) => error_out(&e),
				Err(p) => Out::Panic(p),
			}
		}
	}
}

fn oracle(cases: &[(String, &'static str, Value)]) -> Option<Vec<Value>> {
	let script = format!("{}/oracles/manifest_oracle.py", verif_root());
	let mut child = Command::new(crate::common::python()).arg(&script).stdin(Stdio::piped()).stdout(Stdio::piped()).spawn().ok()?;
	let mut stdin = child.stdin.take()?;
	let payload: String = cases.iter().map(|(text, fmt, expect)| format!("{}\n", json!({"fmt": fmt, "text": text, "expect": expect}))).collect();
	let writer = std::thread::spawn(move || {
		let _ = stdin.write_all(payload.as_bytes());
	});
	let out = child.wait_with_output().ok()?;
	let _ = writer.join();
	if !out.status.success() {
		return None;
	}
	let text = String::from_utf8(out.stdout).ok()?;
	let v: Vec<Value> = text.lines().filter_map(|l| serde_json::from_str(l).ok()).collect();
	(v.len() == cases.len()).then_some(v)
}

/// what in the value provokes the difference: the most hostile atom present
fn culprit(v: &Value) -> String {
	fn strings(v: &Value, out: &mut Vec<String>) {
		match v {
			Value::String(s) => out.push(s.clone()),
			Value::Array(a) => a.iter().for_each(|x| strings(x, out)),
			Value::Object(o) => {
				for (k, x) in o {
					out.push(k.clone());
					strings(x, out);
				}
			}
			_ => {}
		}
	}
	let mut all = Vec::new();
	strings(v, &mut all);
	all.retain(|x| !matches!(x.as_str(), "k" | "a" | "b" | "p" | "q" | "s" | "sections" | "main" | "t" | "x1" | "b-c"));
	all.sort_by_key(|x| (x.chars().all(|c| c.is_ascii_alphanumeric()), x.len()));
	match all.first() {
		Some(x) if x.contains('\n') => "multi-line string".to_owned(),
		Some(x) => format!("{x:?}"),
		None => "structure".to_owned(),
	}
}

fn judge_docs(rep: &mut Report, journal: &Journal, docs: Vec<(u64, Doc)>) {
	let mut pending: Vec<(usize, String)> = Vec::new();
	for (k, (idx, d)) in docs.iter().enumerate() {
		journal.note(*idx, &d.writer, &js(&d.expect));
		let replay = json!({"kind": "doc", "writer": d.writer, "fmt": d.fmt, "how": match &d.how { How::Std(c) => json!({"std": c}), How::Cli(f, v) => json!({"cli": f, "value": v}) }, "expect": d.expect, "must_fail": d.must_fail});
		match produce(d) {
			Out::Panic(p) => {
				rep.case(None, 3);
				rep.violation(Violation { class: format!("{}: {}", d.writer, panic_class(&p)), witness: js(&d.expect), detail: p, cost: 1, replay });
			}
			Out::Err(c, m) => {
				rep.case(d.must_fail.then(|| fnv(format!("{}{}", d.writer, js(&d.expect)).as_bytes())), 2);
				if !d.must_fail {
					rep.violation(Violation {
						class: format!("{}: a value in the format's domain is rejected ({c}) [{}]", family(&d.writer), culprit(&d.expect)),
						witness: js(&d.expect),
						detail: format!("error: {m}"),
						cost: 1,
						replay,
					});
				}
			}
			Out::Json(text) => {
				if d.must_fail {
					rep.case(Some(fnv(format!("{}{}", d.writer, js(&d.expect)).as_bytes())), 4);
					rep.violation(Violation {
						class: format!("{}: a value outside the format's domain is written instead of rejected", d.writer),
						witness: js(&d.expect),
						detail: format!("text: {text:?}"),
						cost: 1,
						replay,
					});
				} else {
					pending.push((k, text));
				}
			}
		}
	}
	if pending.is_empty() {
		return;
	}
	let cases: Vec<(String, &'static str, Value)> = pending.iter().map(|(k, t)| (t.clone(), docs[*k].1.fmt, docs[*k].1.expect.clone())).collect();
	let Some(verdicts) = oracle(&cases) else {
		rep.violation(Violation { class: "MACHINERY: the Python oracle did not answer".into(), witness: String::new(), detail: String::new(), cost: 0, replay: json!({"kind": "none"}) });
		return;
	};
	for ((k, text), v) in pending.iter().zip(verdicts) {
		let d = &docs[*k].1;
		let ok = v["ok"].as_bool() == Some(true);
		rep.case(Some(fnv(format!("{}{}", d.writer, js(&d.expect)).as_bytes())), u64::from(ok));
		if docs[*k].0 % 997 == 0 {
			rep.sample(|| json!({"writer": d.writer, "value": d.expect, "text": text, "oracle": v}));
		}
		if !ok {
			let why = v["why"].as_str().unwrap_or("?");
			// malformed text: the parser's own message names the offending character; otherwise the hostile atom of the value
			let what = if why.starts_with("not well-formed") {
				let msg: String = v["got"].as_str().unwrap_or("").lines().next().unwrap_or("").chars().map(|c| if c.is_ascii_digit() { '#' } else { c }).take(60).collect();
				format!("`{msg}`")
			} else {
				format!("[{}]", culprit(&d.expect))
			};
			rep.violation(Violation {
				class: format!("{}: {} {}", family(&d.writer), why, what),
				witness: js(&d.expect),
				detail: format!("{}\ntext:\n{text}\nthe independent parser read: {}", d.writer, v["got"].as_str().unwrap_or("")),
				cost: 1,
				replay: json!({"kind": "doc", "writer": d.writer, "fmt": d.fmt, "how": match &d.how { How::Std(c) => json!({"std": c}), How::Cli(f, v) => json!({"cli": f, "value": v}) }, "expect": d.expect, "must_fail": false}),
			});
		}
	}
}

fn run_docs(shard: &Shard, journal: &Journal, rep: &mut Report, docs: Vec<Doc>) {
	rep.count("documents", docs.len() as u64 / shard.n.max(1));
	let mine: Vec<(u64, Doc)> = docs.into_iter().enumerate().filter(|(i, _)| shard.mine(*i as u64)).map(|(i, d)| (i as u64, d)).collect();
	for chunk in mine.chunks(2000) {
		judge_docs(rep, journal, chunk.to_vec());
	}
}

fn work(shard: &Shard, journal: &Journal, rep: &mut Report) {
	crate::common::limit_memory(6 << 30);
	let docs = match shard.part.as_str() {
		"yaml" => yaml_docs(shard.tier),
		"toml" => toml_docs(shard.tier),
		"python" => python_docs(shard.tier),
		"xml" => xml_docs(),
		"ini" => ini_docs(),
		p => panic!("unknown part {p}"),
	};
	run_docs(shard, journal, rep, docs);
}

fn yaml_docs(tier: Tier) -> Vec<Doc> {
	let mut out = Vec::new();
	let values = generic_values(tier, true);
	for v in &values {
		for iaio in [false, true] {
			for qk in [true, false] {
				out.push(Doc { writer: format!("std.manifestYamlDoc(indent_array_in_object={iaio}, quote_keys={qk})"), fmt: "yaml", how: How::Std(format!("std.manifestYamlDoc({}, {iaio}, {qk})", js(v))), expect: v.clone(), must_fail: false });
			}
		}
		for pad in ["1", "2", "4"] {
			out.push(Doc { writer: format!("CLI -f yaml --line-padding {pad}"), fmt: "yaml", how: How::Cli(vec!["-f", "yaml", "--line-padding", pad], v.clone()), expect: v.clone(), must_fail: false });
		}
		for cde in [true, false] {
			let stream = json!([v, 1, v]);
			out.push(Doc { writer: format!("std.manifestYamlStream(c_document_end={cde})"), fmt: "yaml-stream", how: How::Std(format!("std.manifestYamlStream({}, false, {cde}, false)", js(&stream))), expect: stream, must_fail: false });
		}
		let stream = json!([v, v]);
		out.push(Doc { writer: "CLI -y".into(), fmt: "yaml-stream", how: How::Cli(vec!["-y"], stream.clone()), expect: stream, must_fail: false });
	}
	out.push(Doc { writer: "std.manifestYamlDoc (function)".into(), fmt: "yaml", how: How::Std("std.manifestYamlDoc({ a: function(x) x })".into()), expect: json!("function"), must_fail: true });
	out.push(Doc { writer: "std.manifestYamlStream (not an array)".into(), fmt: "yaml-stream", how: How::Std("std.manifestYamlStream({ a: 1 })".into()), expect: json!("object"), must_fail: true });
	out
}

fn toml_docs(tier: Tier) -> Vec<Doc> {
	let mut out = Vec::new();
	for v in generic_values(tier, false) {
		if !v.is_object() || has_null(&v) {
			continue;
		}
		out.push(Doc { writer: "std.manifestToml".into(), fmt: "toml", how: How::Std(format!("std.manifestToml({})", js(&v))), expect: v.clone(), must_fail: false });
		for (name, ind) in [("''", ""), ("tab", "\\t")] {
			out.push(Doc { writer: format!("std.manifestTomlEx(indent={name})"), fmt: "toml", how: How::Std(format!("std.manifestTomlEx({}, \"{ind}\")", js(&v))), expect: v.clone(), must_fail: false });
		}
		out.push(Doc { writer: "CLI -f toml".into(), fmt: "toml", how: How::Cli(vec!["-f", "toml"], v.clone()), expect: v.clone(), must_fail: false });
	}
	// arrays of tables and nested tables
	for v in [
		json!({"t": [{"a": 1}, {"a": 2}]}),
		json!({"t": [{}, {"a": 1}, {"b": {"c": 1}}]}),
		json!({"t": [{"a": [{"x": 1}, {}]}, {}]}),
		json!({"a": {"b": {"c": {}}}, "d": 1}),
		json!({"a": {}, "b": [{}], "c": [[{}]], "d": [[1, 2], ["s"]]}),
		json!({"t": [{"k k": {"#": [1, {"=": "]"}]}}]}),
		json!({"a.b": {"c.d": 1}, "a": {"b": 2}}),
	] {
		for (w, how) in [("std.manifestToml", How::Std(format!("std.manifestToml({})", js(&v)))), ("std.manifestTomlEx(indent='')", How::Std(format!("std.manifestTomlEx({}, '')", js(&v)))), ("CLI -f toml", How::Cli(vec!["-f", "toml"], v.clone()))] {
			out.push(Doc { writer: w.into(), fmt: "toml", how, expect: v.clone(), must_fail: false });
		}
	}
	for (what, code) in [("null value", "std.manifestToml({ a: null })"), ("null in array", "std.manifestToml({ a: [1, null] })"), ("function", "std.manifestToml({ a: function(x) x })"), ("top-level array", "std.manifestToml([1])"), ("null in a table of an array", "std.manifestToml({ t: [{ a: null }] })")] {
		out.push(Doc { writer: format!("std.manifestToml ({what})"), fmt: "toml", how: How::Std(code.into()), expect: json!(what), must_fail: true });
	}
	out
}

fn python_docs(tier: Tier) -> Vec<Doc> {
	let mut out = Vec::new();
	for v in generic_values(tier, true) {
		out.push(Doc { writer: "std.manifestPython".into(), fmt: "python", how: How::Std(format!("std.manifestPython({})", js(&v))), expect: v.clone(), must_fail: false });
		// variable names must be identifiers: the value goes under fixed names
		let vars = json!({"x": v, "y_1": 1});
		out.push(Doc { writer: "std.manifestPythonVars".into(), fmt: "python-vars", how: How::Std(format!("std.manifestPythonVars({})", js(&vars))), expect: vars, must_fail: false });
	}
	out.push(Doc { writer: "std.manifestPython (function)".into(), fmt: "python", how: How::Std("std.manifestPython([function(x) x])".into()), expect: json!("function"), must_fail: true });
	out.push(Doc { writer: "std.manifestPythonVars (not an object)".into(), fmt: "python-vars", how: How::Std("std.manifestPythonVars([1])".into()), expect: json!("array"), must_fail: true });
	out
}

const XML_TEXTS: [&str; 22] = ["a", "a b", "\"", "'", "<", ">", "&", "&amp;", "&lt;", "]]>", "<!--", "é", "😀", "a\nb", "\t", " a ", "<a>", "&#10;", "=", "/", "%", "\u{7f}"];
fn xml_docs() -> Vec<Doc> {
	let mut vals: Vec<Value> = Vec::new();
	for t in XML_TEXTS {
		vals.push(json!(["a", t]));
		vals.push(json!(["a", {"k": t}]));
		vals.push(json!(["a", {"k": t, "x1": "v"}, t, ["b-c", t], t]));
		vals.push(json!(["a", ["b-c", {"k": t}], t]));
	}
	for v in [json!(["a"]), json!(["a", {}]), json!(["a", {}, ""]), json!(["a", "x", "y"]), json!(["a", ["b-c"], ["b-c"]]), json!(["a", ["x1", ["b-c", ["a", "deep"]]]]), json!(["a", {"k": "v"}, ["b-c", {}, "t"], "tail"]), json!(["a", "x", ["b-c"], "y", ["b-c"], "z"])] {
		vals.push(v);
	}
	let mut out = Vec::new();
	for v in vals {
		out.push(Doc { writer: "std.manifestXmlJsonml".into(), fmt: "xml", how: How::Std(format!("std.manifestXmlJsonml({})", js(&v))), expect: v.clone(), must_fail: false });
		out.push(Doc { writer: "CLI -f xml-jsonml".into(), fmt: "xml", how: How::Cli(vec!["-f", "xml-jsonml"], v.clone()), expect: v, must_fail: false });
	}
	for (what, code) in [("object", "std.manifestXmlJsonml({ a: 1 })"), ("empty array", "std.manifestXmlJsonml([])"), ("tag is not a string", "std.manifestXmlJsonml([1, 'x'])"), ("number child", "std.manifestXmlJsonml(['a', 1])"), ("attributes not first", "std.manifestXmlJsonml(['a', 'x', { k: 'v' }])"), ("function child", "std.manifestXmlJsonml(['a', function(x) x])")] {
		out.push(Doc { writer: format!("std.manifestXmlJsonml ({what})"), fmt: "xml", how: How::Std(code.into()), expect: json!(what), must_fail: true });
	}
	out
}

const INI_ATOMS: [&str; 18] = ["a", "a b", "\"", "'", "\\", "é", "😀", "yes", "1", "1.0", "x=y", "a:b", "[x]", "#c", ";c", "%(a)s", "${a}", "a # b"];
fn ini_docs() -> Vec<Doc> {
	let mut vals: Vec<Value> = Vec::new();
	// keys: INI-safe atoms that carry no separator
	let keys: Vec<&str> = INI_ATOMS.iter().copied().filter(|a| !a.contains('=') && !a.starts_with('[') && !a.starts_with('#') && !a.starts_with(';')).collect();
	for v in INI_ATOMS {
		vals.push(json!({"sections": {"s": {"k": v}}}));
		vals.push(json!({"main": {"k": v}, "sections": {}}));
		vals.push(json!({"sections": {"s": {"k": [v, "z", v]}}}));
	}
	for k in &keys {
		vals.push(json!({"sections": {"s": {*k: "v"}}}));
		vals.push(json!({"sections": {*k: {"k": "v"}}}));
		vals.push(json!({"main": {*k: 1}, "sections": {"s": {*k: [1, 2]}}}));
	}
	for v in [
		json!({"sections": {}}),
		json!({"main": {}, "sections": {}}),
		json!({"sections": {"s": {}}}),
		json!({"sections": {"s": {}, "t": {"a": 1}}}),
		json!({"main": {"a": 1, "b": true, "c": null, "d": 1.5}, "sections": {"s": {"a": [], "b": [1], "c": [1, "x", false]}, "t": {"z": "last"}}}),
		json!({"main": {"a": "1"}, "sections": {"s": {"a": "2"}, "s2": {"a": "3"}}}),
	] {
		vals.push(v);
	}
	let mut out = Vec::new();
	for v in vals {
		out.push(Doc { writer: "std.manifestIni".into(), fmt: "ini", how: How::Std(format!("std.manifestIni({})", js(&v))), expect: v.clone(), must_fail: false });
		out.push(Doc { writer: "CLI -f ini".into(), fmt: "ini", how: How::Cli(vec!["-f", "ini"], v.clone()), expect: v, must_fail: false });
	}
	for (what, code) in [("no sections", "std.manifestIni({ main: { a: 1 } })"), ("not an object", "std.manifestIni([1])"), ("section is not an object", "std.manifestIni({ sections: { s: 1 } })"), ("function value", "std.manifestIni({ sections: { s: { a: function(x) x } } })")] {
		out.push(Doc { writer: format!("std.manifestIni ({what})"), fmt: "ini", how: How::Std(code.into()), expect: json!(what), must_fail: true });
	}
	out
}

fn replay(v: &Value) -> (bool, String) {
	let fmt: &'static str = match v["fmt"].as_str().unwrap_or("") {
		"yaml" => "yaml",
		"yaml-stream" => "yaml-stream",
		"toml" => "toml",
		"python" => "python",
		"python-vars" => "python-vars",
		"xml" => "xml",
		_ => "ini",
	};
	const FLAGS: [&str; 12] = ["-f", "yaml", "toml", "xml-jsonml", "ini", "--line-padding", "1", "2", "4", "-y", "json", "string"];
	let how = if let Some(c) = v["how"]["std"].as_str() {
		How::Std(c.to_owned())
	} else {
		let flags: Vec<&'static str> = v["how"]["cli"].as_array().map(|a| a.iter().filter_map(|x| FLAGS.iter().find(|f| Some(**f) == x.as_str()).copied()).collect()).unwrap_or_default();
		How::Cli(flags, v["how"]["value"].clone())
	};
	let d = Doc { writer: v["writer"].as_str().unwrap_or("").to_owned(), fmt, how, expect: v["expect"].clone(), must_fail: v["must_fail"].as_bool().unwrap_or(false) };
	let mut rep = Report::new();
	let journal = Journal::open(None);
	judge_docs(&mut rep, &journal, vec![(0, d.clone())]);
	let mut out = format!("{}: {}\n", d.writer, js(&d.expect));
	for (c, (_, ws)) in &rep.violations {
		out.push_str(&format!("class: {c}\n{}\n", ws[0].detail));
	}
	(!rep.violations.is_empty(), out)
}
