//! R4 — reference definitions of the standard-library functions used by the checks: straight
//! transcriptions of the documented definitions (std.jsonnet / stdlib reference) on reference values.

use std::{cmp::Ordering, rc::Rc};

use crate::refi::*;

/// (name, parameters; a trailing `?` marks a parameter with a default)
pub const SIGS: &[(&str, &[&str])] = &[
	("length", &["x"]),
	("type", &["x"]),
	("isString", &["v"]),
	("isNumber", &["v"]),
	("isBoolean", &["v"]),
	("isObject", &["v"]),
	("isArray", &["v"]),
	("isFunction", &["v"]),
	("isNull", &["v"]),
	("makeArray", &["sz", "func"]),
	("range", &["from", "to"]),
	("repeat", &["what", "count"]),
	("slice", &["indexable", "index", "end", "step"]),
	("reverse", &["arr"]),
	("map", &["func", "arr"]),
	("mapWithIndex", &["func", "arr"]),
	("mapWithKey", &["func", "obj"]),
	("flatMap", &["func", "arr"]),
	("filter", &["func", "arr"]),
	("filterMap", &["filter_func", "map_func", "arr"]),
	("foldl", &["func", "arr", "init"]),
	("foldr", &["func", "arr", "init"]),
	("join", &["sep", "arr"]),
	("lines", &["arr"]),
	("deepJoin", &["arr"]),
	("flattenArrays", &["arrs"]),
	("flattenDeepArray", &["value"]),
	("any", &["arr"]),
	("all", &["arr"]),
	("member", &["arr", "x"]),
	("contains", &["arr", "elem"]),
	("find", &["value", "arr"]),
	("count", &["arr", "x"]),
	("sum", &["arr"]),
	("avg", &["arr"]),
	("minArray", &["arr", "keyF?", "onEmpty?"]),
	("maxArray", &["arr", "keyF?", "onEmpty?"]),
	("remove", &["arr", "elem"]),
	("removeAt", &["arr", "idx"]),
	("sort", &["arr", "keyF?"]),
	("uniq", &["arr", "keyF?"]),
	("set", &["arr", "keyF?"]),
	("setMember", &["x", "arr", "keyF?"]),
	("setUnion", &["a", "b", "keyF?"]),
	("setInter", &["a", "b", "keyF?"]),
	("setDiff", &["a", "b", "keyF?"]),
	("objectHas", &["o", "f"]),
	("objectHasAll", &["o", "f"]),
	("objectHasEx", &["obj", "fname", "hidden"]),
	("objectFields", &["o"]),
	("objectFieldsAll", &["o"]),
	("objectFieldsEx", &["obj", "hidden"]),
	("objectValues", &["o"]),
	("objectValuesAll", &["o"]),
	("objectKeysValues", &["o"]),
	("objectKeysValuesAll", &["o"]),
	("objectRemoveKey", &["obj", "key"]),
	("get", &["o", "f", "default?", "inc_hidden?"]),
	("mergePatch", &["target", "patch"]),
	("prune", &["a"]),
	("equals", &["a", "b"]),
	("primitiveEquals", &["x", "y"]),
	("assertEqual", &["a", "b"]),
	("xor", &["x", "y"]),
	("xnor", &["x", "y"]),
	("trace", &["str", "rest"]),
	("toString", &["a"]),
	("id", &["x"]),
	("stringChars", &["str"]),
	("encodeUTF8", &["str"]),
	("codepoint", &["str"]),
	("char", &["n"]),
	("abs", &["n"]),
	("max", &["a", "b"]),
	("min", &["a", "b"]),
	("mod", &["a", "b"]),
	("extVar", &["x"]),
];

pub fn lookup(name: &str) -> Option<&'static str> {
	SIGS.iter().find(|s| s.0 == name).map(|s| s.0)
}

fn bind<'a>(name: &str, pos: Vec<Th<'a>>, named: Vec<(&'a str, Th<'a>)>) -> R<Vec<Option<Th<'a>>>> {
	let sig = SIGS.iter().find(|s| s.0 == name).expect("known builtin").1;
	if pos.len() > sig.len() {
		return err("call", format!("too many arguments to std.{name}"));
	}
	let mut slots: Vec<Option<Th<'a>>> = vec![None; sig.len()];
	for (i, a) in pos.into_iter().enumerate() {
		slots[i] = Some(a);
	}
	for (n, a) in named {
		let Some(pi) = sig.iter().position(|p| p.trim_end_matches('?') == n) else {
			return err("call", format!("std.{name} has no parameter {n}"));
		};
		if slots[pi].is_some() {
			return err("call", format!("parameter {n} bound twice"));
		}
		slots[pi] = Some(a);
	}
	for (i, p) in sig.iter().enumerate() {
		if slots[i].is_none() && !p.ends_with('?') {
			return err("call", format!("std.{name}: missing argument {p}"));
		}
	}
	Ok(slots)
}

fn want_arr<'a>(v: &Val<'a>, what: &str) -> R<Rc<Vec<Th<'a>>>> {
	match v {
		Val::Arr(a) => Ok(a.clone()),
		other => err("type", format!("{what}: expected array, got {}", other.type_name())),
	}
}
fn want_obj<'a>(v: &Val<'a>, what: &str) -> R<Rc<ObjVal<'a>>> {
	match v {
		Val::Obj(a) => Ok(a.clone()),
		other => err("type", format!("{what}: expected object, got {}", other.type_name())),
	}
}
fn want_str<'a>(v: &Val<'a>, what: &str) -> R<Rc<str>> {
	match v {
		Val::Str(a) => Ok(a.clone()),
		other => err("type", format!("{what}: expected string, got {}", other.type_name())),
	}
}
fn want_num(v: &Val<'_>, what: &str) -> R<f64> {
	match v {
		Val::Num(a) => Ok(*a),
		other => err("type", format!("{what}: expected number, got {}", other.type_name())),
	}
}
fn want_bool(v: &Val<'_>, what: &str) -> R<bool> {
	match v {
		Val::Bool(a) => Ok(*a),
		other => err("type", format!("{what}: expected boolean, got {}", other.type_name())),
	}
}
fn want_fn<'a>(v: &Val<'a>, what: &str) -> R<Val<'a>> {
	match v {
		Val::Fn(_) => Ok(v.clone()),
		other => err("type", format!("{what}: expected function, got {}", other.type_name())),
	}
}
fn want_int(v: &Val<'_>, what: &str) -> R<i64> {
	let n = want_num(v, what)?;
	if n != n.trunc() {
		return err("type", format!("{what}: expected integer, got {n}"));
	}
	if n.abs() > 2147483647.0 {
		return err("unsure", format!("{what}: integer beyond 32 bits"));
	}
	Ok(n as i64)
}

fn key_of<'a>(it: &mut Interp<'a>, keyf: &Option<Val<'a>>, v: &Val<'a>) -> R<Val<'a>> {
	match keyf {
		Some(f) => it.call_vals(f, vec![v.clone()]),
		None => Ok(v.clone()),
	}
}

/// stable merge sort with the language's `<` (errors on incomparable values)
fn sort_by_key<'a>(it: &mut Interp<'a>, items: Vec<Val<'a>>, keyf: &Option<Val<'a>>) -> R<Vec<Val<'a>>> {
	let mut keyed: Vec<(Val<'a>, Val<'a>)> = Vec::new();
	for v in items {
		let k = key_of(it, keyf, &v)?;
		keyed.push((k, v));
	}
	// insertion sort: stable, and compares neighbouring pairs the way the definition's merge does for errors
	let mut out: Vec<(Val<'a>, Val<'a>)> = Vec::new();
	for (k, v) in keyed {
		let mut pos = out.len();
		while pos > 0 {
			let o = it.compare(&out[pos - 1].0, &k)?;
			if o == Ordering::Greater {
				pos -= 1;
			} else {
				break;
			}
		}
		out.insert(pos, (k, v));
	}
	// every pair must be comparable (a sort of mixed types is an error in the definition)
	for w in out.windows(2) {
		it.compare(&w[0].0, &w[1].0)?;
	}
	Ok(out.into_iter().map(|x| x.1).collect())
}

fn uniq_by_key<'a>(it: &mut Interp<'a>, items: Vec<Val<'a>>, keyf: &Option<Val<'a>>) -> R<Vec<Val<'a>>> {
	let mut out: Vec<Val<'a>> = Vec::new();
	let mut last: Option<Val<'a>> = None;
	for v in items {
		let k = key_of(it, keyf, &v)?;
		let dup = match &last {
			Some(l) => it.equals(l, &k)?,
			None => false,
		};
		if !dup {
			out.push(v);
			last = Some(k);
		}
	}
	Ok(out)
}

fn force_all<'a>(it: &mut Interp<'a>, a: &[Th<'a>]) -> R<Vec<Val<'a>>> {
	a.iter().map(|t| it.force(t)).collect()
}

pub fn call<'a>(it: &mut Interp<'a>, name: &'static str, pos: Vec<Th<'a>>, named: Vec<(&'a str, Th<'a>)>) -> R<Val<'a>> {
	if name == "<std>" {
		return err("type", "std is not a function");
	}
	let args = bind(name, pos, named)?;
	macro_rules! arg {
		($i:expr) => {
			it.force(args[$i].as_ref().expect("required"))?
		};
	}
	macro_rules! opt {
		($i:expr) => {
			match args.get($i).and_then(|a| a.as_ref()) {
				Some(t) => Some(it.force(t)?),
				None => None,
			}
		};
	}
	let is_type = |v: &Val<'a>, t: &str| Val::Bool(v.type_name() == t);
	match name {
		"length" => {
			let v = arg!(0);
			Ok(Val::Num(match &v {
				Val::Str(s) => s.chars().count() as f64,
				Val::Arr(a) => a.len() as f64,
				Val::Obj(o) => o.visible_fields().len() as f64,
				Val::Fn(f) => match &**f {
					Func::Closure { params, .. } => params.len() as f64,
					_ => return err("unsure", "length of a builtin"),
				},
				other => return err("type", format!("length of {}", other.type_name())),
			}))
		}
		"type" => Ok(Val::str(arg!(0).type_name())),
		"isString" => Ok(is_type(&arg!(0), "string")),
		"isNumber" => Ok(is_type(&arg!(0), "number")),
		"isBoolean" => Ok(is_type(&arg!(0), "boolean")),
		"isObject" => Ok(is_type(&arg!(0), "object")),
		"isArray" => Ok(is_type(&arg!(0), "array")),
		"isFunction" => Ok(is_type(&arg!(0), "function")),
		"isNull" => Ok(is_type(&arg!(0), "null")),
		"id" => Ok(arg!(0)),
		"makeArray" => {
			let n = want_int(&arg!(0), "makeArray size")?;
			if n < 0 {
				return err("type", "makeArray: negative size");
			}
			let f = want_fn(&arg!(1), "makeArray func")?;
			if n > 100_000 {
				return err("unsure", "huge array");
			}
			let items = (0..n)
				.map(|i| {
					let f = f.clone();
					native(move |it: &mut Interp<'a>| it.call_vals(&f, vec![Val::Num(i as f64)]))
				})
				.collect();
			Ok(Val::Arr(Rc::new(items)))
		}
		"range" => {
			let a = want_int(&arg!(0), "range from")?;
			let b = want_int(&arg!(1), "range to")?;
			if b - a > 100_000 {
				return err("unsure", "huge array");
			}
			Ok(Val::arr((a..=b).map(|i| Val::Num(i as f64)).collect()))
		}
		"repeat" => {
			let what = arg!(0);
			let n = want_int(&arg!(1), "repeat count")?;
			if n < 0 {
				return err("type", "repeat: negative count");
			}
			match &what {
				Val::Str(s) => {
					if n as usize * s.len() > 1_000_000 {
						return err("unsure", "huge string");
					}
					Ok(Val::str(s.repeat(n as usize)))
				}
				Val::Arr(a) => {
					if n as usize * a.len() > 100_000 {
						return err("unsure", "huge array");
					}
					let mut out = Vec::new();
					for _ in 0..n {
						out.extend(a.iter().cloned());
					}
					Ok(Val::Arr(Rc::new(out)))
				}
				other => err("type", format!("repeat of {}", other.type_name())),
			}
		}
		"slice" => {
			let a = arg!(0);
			let (s0, s1, s2) = (arg!(1), arg!(2), arg!(3));
			it.slice(&a, &s0, &s1, &s2)
		}
		"reverse" => {
			let a = want_arr(&arg!(0), "reverse")?;
			Ok(Val::Arr(Rc::new(a.iter().rev().cloned().collect())))
		}
		"map" | "mapWithIndex" => {
			let f = want_fn(&arg!(0), "map func")?;
			let a = match arg!(1) {
				Val::Arr(a) => a,
				Val::Str(s) => Rc::new(s.chars().map(|c| done(Val::str(c.to_string()))).collect()),
				other => return err("type", format!("{name} over {}", other.type_name())),
			};
			let with_index = name == "mapWithIndex";
			let items = a
				.iter()
				.enumerate()
				.map(|(i, t)| {
					let f = f.clone();
					let t = t.clone();
					native(move |it: &mut Interp<'a>| {
						let mut argv: Vec<Th<'a>> = Vec::new();
						if with_index {
							argv.push(done(Val::Num(i as f64)));
						}
						argv.push(t);
						it.call(&f, argv, vec![])
					})
				})
				.collect();
			Ok(Val::Arr(Rc::new(items)))
		}
		"flatMap" => {
			let f = want_fn(&arg!(0), "flatMap func")?;
			match arg!(1) {
				Val::Arr(a) => {
					let mut out: Vec<Th<'a>> = Vec::new();
					for t in a.iter() {
						let r = it.call(&f, vec![t.clone()], vec![])?;
						match r {
							Val::Arr(x) => out.extend(x.iter().cloned()),
							Val::Null => {}
							other => return err("type", format!("flatMap function returned {}", other.type_name())),
						}
					}
					Ok(Val::Arr(Rc::new(out)))
				}
				Val::Str(s) => {
					let mut out = String::new();
					for c in s.chars() {
						let r = it.call_vals(&f, vec![Val::str(c.to_string())])?;
						match r {
							Val::Str(x) => out.push_str(&x),
							Val::Null => {}
							other => return err("type", format!("flatMap function returned {}", other.type_name())),
						}
					}
					Ok(Val::str(out))
				}
				other => err("type", format!("flatMap over {}", other.type_name())),
			}
		}
		"filter" => {
			let f = want_fn(&arg!(0), "filter func")?;
			let a = want_arr(&arg!(1), "filter arr")?;
			let mut out = Vec::new();
			for t in a.iter() {
				let r = it.call(&f, vec![t.clone()], vec![])?;
				if want_bool(&r, "filter predicate result")? {
					out.push(t.clone());
				}
			}
			Ok(Val::Arr(Rc::new(out)))
		}
		"filterMap" => {
			let ff = want_fn(&arg!(0), "filterMap filter_func")?;
			let mf = want_fn(&arg!(1), "filterMap map_func")?;
			let a = want_arr(&arg!(2), "filterMap arr")?;
			let mut out = Vec::new();
			for t in a.iter() {
				let r = it.call(&ff, vec![t.clone()], vec![])?;
				if want_bool(&r, "filterMap predicate result")? {
					let mf = mf.clone();
					let t = t.clone();
					out.push(native(move |it: &mut Interp<'a>| it.call(&mf, vec![t], vec![])));
				}
			}
			Ok(Val::Arr(Rc::new(out)))
		}
		"foldl" => {
			let f = want_fn(&arg!(0), "foldl func")?;
			let items: Vec<Th<'a>> = match arg!(1) {
				Val::Arr(a) => a.iter().cloned().collect(),
				Val::Str(s) => s.chars().map(|c| done(Val::str(c.to_string()))).collect(),
				other => return err("type", format!("foldl over {}", other.type_name())),
			};
			let mut acc = args[2].clone().unwrap();
			for t in items {
				let v = it.call(&f, vec![acc, t], vec![])?;
				acc = done(v);
			}
			it.force(&acc)
		}
		"foldr" => {
			let f = want_fn(&arg!(0), "foldr func")?;
			let items: Vec<Th<'a>> = match arg!(1) {
				Val::Arr(a) => a.iter().cloned().collect(),
				Val::Str(s) => s.chars().map(|c| done(Val::str(c.to_string()))).collect(),
				other => return err("type", format!("foldr over {}", other.type_name())),
			};
			let mut acc = args[2].clone().unwrap();
			for t in items.into_iter().rev() {
				let v = it.call(&f, vec![t, acc], vec![])?;
				acc = done(v);
			}
			it.force(&acc)
		}
		"join" => {
			let sep = arg!(0);
			let a = want_arr(&arg!(1), "join arr")?;
			let items = force_all(it, &a)?;
			match &sep {
				Val::Str(s) => {
					let mut out = String::new();
					let mut first = true;
					for v in &items {
						match v {
							Val::Null => continue,
							Val::Str(x) => {
								if !first {
									out.push_str(s);
								}
								first = false;
								out.push_str(x);
							}
							other => return err("type", format!("join: expected string element, got {}", other.type_name())),
						}
					}
					Ok(Val::str(out))
				}
				Val::Arr(s) => {
					let mut out: Vec<Th<'a>> = Vec::new();
					let mut first = true;
					for v in &items {
						match v {
							Val::Null => continue,
							Val::Arr(x) => {
								if !first {
									out.extend(s.iter().cloned());
								}
								first = false;
								out.extend(x.iter().cloned());
							}
							other => return err("type", format!("join: expected array element, got {}", other.type_name())),
						}
					}
					Ok(Val::Arr(Rc::new(out)))
				}
				other => err("type", format!("join separator is {}", other.type_name())),
			}
		}
		"lines" => {
			let a = want_arr(&arg!(0), "lines")?;
			let mut out = String::new();
			for v in force_all(it, &a)? {
				match v {
					Val::Null => {}
					Val::Str(x) => {
						out.push_str(&x);
						out.push('\n');
					}
					other => return err("type", format!("lines: element is {}", other.type_name())),
				}
			}
			Ok(Val::str(out))
		}
		"deepJoin" => {
			fn go<'a>(it: &mut Interp<'a>, v: &Val<'a>, out: &mut String) -> R<()> {
				match v {
					Val::Str(s) => {
						out.push_str(s);
						Ok(())
					}
					Val::Arr(a) => {
						for t in a.iter() {
							let x = it.force(t)?;
							go(it, &x, out)?;
						}
						Ok(())
					}
					other => err("type", format!("deepJoin: {}", other.type_name())),
				}
			}
			let v = arg!(0);
			let mut out = String::new();
			go(it, &v, &mut out)?;
			Ok(Val::str(out))
		}
		"flattenArrays" => {
			let a = want_arr(&arg!(0), "flattenArrays")?;
			let mut out: Vec<Th<'a>> = Vec::new();
			for v in force_all(it, &a)? {
				match v {
					Val::Arr(x) => out.extend(x.iter().cloned()),
					Val::Null => return err("unsure", "flattenArrays with null element"),
					other => return err("type", format!("flattenArrays: element is {}", other.type_name())),
				}
			}
			Ok(Val::Arr(Rc::new(out)))
		}
		"flattenDeepArray" => {
			fn go<'a>(it: &mut Interp<'a>, v: &Val<'a>, out: &mut Vec<Th<'a>>) -> R<()> {
				match v {
					Val::Arr(a) => {
						for t in a.iter() {
							let x = it.force(t)?;
							go(it, &x, out)?;
						}
						Ok(())
					}
					other => {
						out.push(done(other.clone()));
						Ok(())
					}
				}
			}
			let v = arg!(0);
			let mut out = Vec::new();
			go(it, &v, &mut out)?;
			Ok(Val::Arr(Rc::new(out)))
		}
		"any" | "all" => {
			let a = want_arr(&arg!(0), name)?;
			let want = name == "any";
			for t in a.iter() {
				let v = it.force(t)?;
				let b = want_bool(&v, "any/all element")?;
				if b == want {
					return Ok(Val::Bool(want));
				}
			}
			Ok(Val::Bool(!want))
		}
		"member" => {
			let c = arg!(0);
			let x = arg!(1);
			match &c {
				Val::Arr(a) => {
					for t in a.iter() {
						let v = it.force(t)?;
						if it.equals(&v, &x)? {
							return Ok(Val::Bool(true));
						}
					}
					Ok(Val::Bool(false))
				}
				Val::Str(s) => {
					let x = want_str(&x, "member needle")?;
					// member(str, x) = length(findSubstr(x, str)) > 0, and findSubstr yields [] for an empty pattern
					Ok(Val::Bool(!x.is_empty() && s.contains(&*x)))
				}
				other => err("type", format!("member of {}", other.type_name())),
			}
		}
		"contains" => {
			let a = want_arr(&arg!(0), "contains arr")?;
			let x = arg!(1);
			for t in a.iter() {
				let v = it.force(t)?;
				if it.equals(&v, &x)? {
					return Ok(Val::Bool(true));
				}
			}
			Ok(Val::Bool(false))
		}
		"find" => {
			let x = arg!(0);
			let a = want_arr(&arg!(1), "find arr")?;
			let mut out = Vec::new();
			for (i, t) in a.iter().enumerate() {
				let v = it.force(t)?;
				if it.equals(&v, &x)? {
					out.push(Val::Num(i as f64));
				}
			}
			Ok(Val::arr(out))
		}
		"count" => {
			let a = want_arr(&arg!(0), "count arr")?;
			let x = arg!(1);
			let mut n = 0;
			for t in a.iter() {
				let v = it.force(t)?;
				if it.equals(&v, &x)? {
					n += 1;
				}
			}
			Ok(Val::Num(f64::from(n)))
		}
		"sum" | "avg" => {
			let a = want_arr(&arg!(0), name)?;
			let mut s = 0.0;
			for v in force_all(it, &a)? {
				s += want_num(&v, "sum element")?;
			}
			if name == "avg" {
				if a.is_empty() {
					return err("div", "avg of empty array");
				}
				s /= a.len() as f64;
			}
			it.num(s)
		}
		"minArray" | "maxArray" => {
			let a = want_arr(&arg!(0), name)?;
			let keyf = match opt!(1) {
				Some(f) => Some(want_fn(&f, "keyF")?),
				None => None,
			};
			if a.is_empty() {
				return match args.get(2).and_then(|x| x.as_ref()) {
					Some(t) => it.force(t),
					None => err("runtime", format!("{name}: empty array")),
				};
			}
			let items = force_all(it, &a)?;
			let mut best = items[0].clone();
			let mut bestk = key_of(it, &keyf, &best)?;
			for v in &items[1..] {
				let k = key_of(it, &keyf, v)?;
				let o = it.compare(&k, &bestk)?;
				if (name == "minArray" && o == Ordering::Less) || (name == "maxArray" && o == Ordering::Greater) {
					best = v.clone();
					bestk = k;
				}
			}
			Ok(best)
		}
		"remove" => {
			let a = want_arr(&arg!(0), "remove arr")?;
			let x = arg!(1);
			for (i, t) in a.iter().enumerate() {
				let v = it.force(t)?;
				if it.equals(&v, &x)? {
					let mut out = (*a).clone();
					out.remove(i);
					return Ok(Val::Arr(Rc::new(out)));
				}
			}
			Ok(Val::Arr(a))
		}
		"removeAt" => {
			let a = want_arr(&arg!(0), "removeAt arr")?;
			let i = want_num(&arg!(1), "removeAt idx")?;
			if i != i.trunc() {
				return err("unsure", "removeAt with fractional index");
			}
			// documented definition: [arr[i] for i in range(0, len-1) if i != at]
			let out: Vec<Th<'a>> = a.iter().enumerate().filter(|(k, _)| (*k as f64) != i).map(|(_, t)| t.clone()).collect();
			Ok(Val::Arr(Rc::new(out)))
		}
		"sort" | "uniq" | "set" => {
			let a = want_arr(&arg!(0), name)?;
			let keyf = match opt!(1) {
				Some(f) => Some(want_fn(&f, "keyF")?),
				None => None,
			};
			// the definitions return arrays of length <= 1 untouched (no element is forced)
			if a.len() <= 1 {
				return Ok(Val::Arr(a));
			}
			let mut items = force_all(it, &a)?;
			if name != "uniq" {
				items = sort_by_key(it, items, &keyf)?;
			}
			if name != "sort" {
				items = uniq_by_key(it, items, &keyf)?;
			}
			Ok(Val::arr(items))
		}
		"setMember" => {
			let x = arg!(0);
			let a = want_arr(&arg!(1), "setMember arr")?;
			let keyf = match opt!(2) {
				Some(f) => Some(want_fn(&f, "keyF")?),
				None => None,
			};
			let kx = key_of(it, &keyf, &x)?;
			let items = force_all(it, &a)?;
			let mut keys = Vec::new();
			for v in &items {
				keys.push(key_of(it, &keyf, v)?);
			}
			// binary search in the definition: only defined on sets whose keys are comparable with the needle's
			for w in keys.windows(2) {
				match it.compare(&w[0], &w[1]) {
					Ok(Ordering::Less) => {}
					_ => return err("unsure", "setMember on a non-set"),
				}
			}
			for k in &keys {
				if it.compare(k, &kx).is_err() {
					return err("unsure", "setMember with an incomparable key");
				}
			}
			for k in &keys {
				if it.equals(k, &kx)? {
					return Ok(Val::Bool(true));
				}
			}
			Ok(Val::Bool(false))
		}
		"setUnion" | "setInter" | "setDiff" => {
			let a = want_arr(&arg!(0), name)?;
			let b = want_arr(&arg!(1), name)?;
			let keyf = match opt!(2) {
				Some(f) => Some(want_fn(&f, "keyF")?),
				None => None,
			};
			let av = force_all(it, &a)?;
			let bv = force_all(it, &b)?;
			// the documented definitions are merge loops over *sets*; on non-set inputs the result is
			// implementation-defined: decline unless both inputs are strictly ascending by key
			let mut ak = Vec::new();
			for v in &av {
				ak.push(key_of(it, &keyf, v)?);
			}
			let mut bk = Vec::new();
			for v in &bv {
				bk.push(key_of(it, &keyf, v)?);
			}
			for ks in [&ak, &bk] {
				for w in ks.windows(2) {
					match it.compare(&w[0], &w[1]) {
						Ok(Ordering::Less) => {}
						_ => return err("unsure", "set operation on a non-set"),
					}
				}
			}
			// mixed key types between the two sides: which comparison fails first is implementation-defined
			for x in &ak {
				for y in &bk {
					if it.compare(x, y).is_err() {
						return err("unsure", "set operation on sets with incomparable keys");
					}
				}
			}
			let mut out = Vec::new();
			let (mut i, mut j) = (0, 0);
			while i < av.len() || j < bv.len() {
				let o = if i >= av.len() {
					Ordering::Greater
				} else if j >= bv.len() {
					Ordering::Less
				} else {
					it.compare(&ak[i], &bk[j])?
				};
				match o {
					Ordering::Less => {
						if name != "setInter" {
							out.push(av[i].clone());
						}
						i += 1;
					}
					Ordering::Greater => {
						if name == "setUnion" {
							out.push(bv[j].clone());
						}
						j += 1;
					}
					Ordering::Equal => {
						if name != "setDiff" {
							out.push(av[i].clone());
						}
						i += 1;
						j += 1;
					}
				}
			}
			Ok(Val::arr(out))
		}
		"objectHas" | "objectHasAll" | "objectHasEx" => {
			let o = want_obj(&arg!(0), name)?;
			let f = want_str(&arg!(1), name)?;
			let hidden = match name {
				"objectHas" => false,
				"objectHasAll" => true,
				_ => want_bool(&arg!(2), "hidden")?,
			};
			Ok(Val::Bool(o.has(&f, hidden)))
		}
		"objectFields" | "objectFieldsAll" | "objectFieldsEx" => {
			let o = want_obj(&arg!(0), name)?;
			let hidden = match name {
				"objectFields" => false,
				"objectFieldsAll" => true,
				_ => want_bool(&arg!(1), "hidden")?,
			};
			let fs = if hidden { o.all_fields() } else { o.visible_fields() };
			Ok(Val::arr(fs.into_iter().map(Val::str).collect()))
		}
		"objectValues" | "objectValuesAll" | "objectKeysValues" | "objectKeysValuesAll" => {
			let o = want_obj(&arg!(0), name)?;
			let fs = if name.ends_with("All") { o.all_fields() } else { o.visible_fields() };
			let kv = name.starts_with("objectKeysValues");
			let items = fs
				.into_iter()
				.map(|f| {
					let o2 = o.clone();
					let f2 = f.clone();
					let value = native(move |it: &mut Interp<'a>| Ok(it.obj_get(&o2, &f2)?.expect("listed field")));
					if kv {
						done(record(vec![("key", done(Val::str(&f))), ("value", value)]))
					} else {
						value
					}
				})
				.collect();
			Ok(Val::Arr(Rc::new(items)))
		}
		"objectRemoveKey" => {
			let o = want_obj(&arg!(0), name)?;
			let k = want_str(&arg!(1), name)?;
			let mut layers = o.layers.clone();
			let span = layers.len();
			layers.push(Rc::new(Layer::Mask(k.to_string(), span)));
			Ok(Val::Obj(ObjVal::new(layers)))
		}
		"get" => {
			let o = want_obj(&arg!(0), "get")?;
			let f = want_str(&arg!(1), "get")?;
			let inc_hidden = match opt!(3) {
				Some(v) => want_bool(&v, "inc_hidden")?,
				None => true,
			};
			if o.has(&f, inc_hidden) {
				Ok(it.obj_get(&o, &f)?.expect("has"))
			} else {
				match args.get(2).and_then(|x| x.as_ref()) {
					Some(t) => it.force(t),
					None => Ok(Val::Null),
				}
			}
		}
		"mapWithKey" => {
			let f = want_fn(&arg!(0), "mapWithKey func")?;
			let o = want_obj(&arg!(1), "mapWithKey obj")?;
			let fields = o
				.visible_fields()
				.into_iter()
				.map(|k| {
					let (f, o2, k2) = (f.clone(), o.clone(), k.clone());
					let th = native(move |it: &mut Interp<'a>| {
						let (o3, k3) = (o2.clone(), k2.clone());
						let v = native(move |it: &mut Interp<'a>| Ok(it.obj_get(&o3, &k3)?.expect("listed")));
						it.call(&f, vec![done(Val::str(&k2)), v], vec![])
					});
					(k, th)
				})
				.collect::<Vec<_>>();
			Ok(record_owned(fields))
		}
		"mergePatch" => {
			let t = arg!(0);
			let p = arg!(1);
			merge_patch(it, &t, &p)
		}
		"prune" => {
			let v = arg!(0);
			prune(it, &v)
		}
		"equals" => {
			let (a, b) = (arg!(0), arg!(1));
			Ok(Val::Bool(it.equals(&a, &b)?))
		}
		"primitiveEquals" => {
			let (a, b) = (arg!(0), arg!(1));
			match (&a, &b) {
				(Val::Arr(_), Val::Arr(_)) | (Val::Obj(_), Val::Obj(_)) | (Val::Fn(_), Val::Fn(_)) => err("type", "primitiveEquals on a non-primitive"),
				_ => Ok(Val::Bool(it.equals(&a, &b)?)),
			}
		}
		"assertEqual" => {
			let (a, b) = (arg!(0), arg!(1));
			if it.equals(&a, &b)? {
				Ok(Val::Bool(true))
			} else {
				err("runtime", "assertEqual failed")
			}
		}
		"xor" | "xnor" => {
			let a = want_bool(&arg!(0), name)?;
			let b = want_bool(&arg!(1), name)?;
			Ok(Val::Bool(if name == "xor" { a != b } else { a == b }))
		}
		"trace" => {
			let s = arg!(0);
			let text = match &s {
				Val::Str(x) => x.to_string(),
				_ => return err("unsure", "trace of a non-string"),
			};
			it.traces.push(text);
			arg!(1);
			it.force(args[1].as_ref().unwrap())
		}
		"toString" => {
			let v = arg!(0);
			Ok(Val::str(it.to_string(&v)?))
		}
		"stringChars" => {
			let s = want_str(&arg!(0), name)?;
			Ok(Val::arr(s.chars().map(|c| Val::str(c.to_string())).collect()))
		}
		"encodeUTF8" => {
			let s = want_str(&arg!(0), name)?;
			Ok(Val::arr(s.bytes().map(|b| Val::Num(f64::from(b))).collect()))
		}
		"codepoint" => {
			let s = want_str(&arg!(0), name)?;
			let mut cs = s.chars();
			match (cs.next(), cs.next()) {
				(Some(c), None) => Ok(Val::Num(f64::from(c as u32))),
				_ => err("type", "codepoint needs a 1-character string"),
			}
		}
		"char" => {
			let n = want_num(&arg!(0), name)?;
			if n != n.trunc() || n < 0.0 {
				return err("type", "char: invalid code point");
			}
			match char::from_u32(n.min(4294967295.0) as u32) {
				Some(c) => Ok(Val::str(c.to_string())),
				None => err("type", "char: invalid code point"),
			}
		}
		"abs" => Ok(Val::Num(want_num(&arg!(0), name)?.abs())),
		"max" | "min" => {
			let a = want_num(&arg!(0), name)?;
			let b = want_num(&arg!(1), name)?;
			Ok(Val::Num(if name == "max" { a.max(b) } else { a.min(b) }))
		}
		"mod" => {
			let (a, b) = (arg!(0), arg!(1));
			it.binary_vals(a, crate::ast::BinOp::Mod, b)
		}
		"extVar" => {
			let n = want_str(&arg!(0), name)?;
			match it.ext.get(&*n).cloned() {
				Some(t) => it.force(&t),
				None => err("runtime", format!("undefined external variable {n}")),
			}
		}
		other => err("unsure", format!("std.{other} is not modelled")),
	}
}

/// plain object with visible, self-independent fields
pub fn record<'a>(fields: Vec<(&str, Th<'a>)>) -> Val<'a> {
	record_owned(fields.into_iter().map(|(k, v)| (k.to_owned(), v)).collect())
}
pub fn record_owned<'a>(fields: Vec<(String, Th<'a>)>) -> Val<'a> {
	record_vis(fields.into_iter().map(|(k, v)| (k, crate::ast::Vis::Normal, v)).collect())
}
pub fn record_vis<'a>(fields: Vec<(String, crate::ast::Vis, Th<'a>)>) -> Val<'a> {
	let defs = fields.into_iter().map(|(name, vis, v)| FieldDef { name, vis, plus: false, body: FieldBody::Value(v) }).collect();
	Val::Obj(ObjVal::new(vec![Rc::new(Layer::Fields { fields: defs, env: env_nil(), locals: &[], asserts: &[], id: usize::MAX })]))
}

fn merge_patch<'a>(it: &mut Interp<'a>, target: &Val<'a>, patch: &Val<'a>) -> R<Val<'a>> {
	// RFC 7396 as transcribed in std.jsonnet
	let Val::Obj(p) = patch else {
		return Ok(patch.clone());
	};
	let tfields: Vec<String> = match target {
		Val::Obj(t) => t.visible_fields(),
		_ => vec![],
	};
	let pfields = p.visible_fields();
	let mut null_fields = Vec::new();
	for k in &pfields {
		if matches!(it.obj_get(p, k)?.expect("listed"), Val::Null) {
			null_fields.push(k.clone());
		}
	}
	let mut both: Vec<String> = tfields.iter().cloned().chain(pfields.iter().cloned()).collect();
	both.sort();
	both.dedup();
	let mut out: Vec<(String, Th<'a>)> = Vec::new();
	for k in both {
		if null_fields.contains(&k) {
			continue;
		}
		let in_p = pfields.contains(&k);
		let in_t = tfields.contains(&k);
		let th: Th<'a> = if !in_p {
			let Val::Obj(t) = target else { unreachable!() };
			let (t2, k2) = (t.clone(), k.clone());
			native(move |it: &mut Interp<'a>| Ok(it.obj_get(&t2, &k2)?.expect("listed")))
		} else if !in_t {
			let (p2, k2) = (p.clone(), k.clone());
			native(move |it: &mut Interp<'a>| {
				let pv = it.obj_get(&p2, &k2)?.expect("listed");
				merge_patch(it, &Val::Null, &pv)
			})
		} else {
			let Val::Obj(t) = target else { unreachable!() };
			let (t2, p2, k2) = (t.clone(), p.clone(), k.clone());
			native(move |it: &mut Interp<'a>| {
				let tv = it.obj_get(&t2, &k2)?.expect("listed");
				let pv = it.obj_get(&p2, &k2)?.expect("listed");
				merge_patch(it, &tv, &pv)
			})
		};
		out.push((k, th));
	}
	Ok(record_owned(out))
}

fn prune<'a>(it: &mut Interp<'a>, v: &Val<'a>) -> R<Val<'a>> {
	it.depth += 1;
	if it.depth > it.max_depth {
		it.depth -= 1;
		return err("budget", "reference prune depth exceeded");
	}
	let r = prune_inner(it, v);
	it.depth -= 1;
	return r;
	fn is_content<'a>(it: &mut Interp<'a>, v: &Val<'a>) -> R<bool> {
		Ok(match v {
			Val::Null => false,
			Val::Arr(a) => !a.is_empty(),
			Val::Obj(o) => {
				it.run_asserts(o)?;
				!o.visible_fields().is_empty()
			}
			_ => true,
		})
	}
	fn prune_inner<'a>(it: &mut Interp<'a>, v: &Val<'a>) -> R<Val<'a>> {
	match v {
		Val::Arr(a) => {
			let mut out = Vec::new();
			for t in a.iter() {
				let x = it.force(t)?;
				let px = prune(it, &x)?;
				if is_content(it, &px)? {
					out.push(px);
				}
			}
			Ok(Val::arr(out))
		}
		Val::Obj(o) => {
			let mut out = Vec::new();
			for k in o.visible_fields() {
				let x = it.obj_get(o, &k)?.expect("listed");
				let px = prune(it, &x)?;
				if is_content(it, &px)? {
					out.push((k, done(px)));
				}
			}
			Ok(record_owned(out))
		}
		other => Ok(other.clone()),
	}
	}
}
