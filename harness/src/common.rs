//! Shared machinery: worker/coordinator protocol, reports, evidence, known findings, replay files.
//!
//! A check is a function `fn(&Shard, &mut Report)`.  The coordinator process spawns N worker
//! processes of the same executable (`--worker i/n --out file`), each of which runs the check's
//! enumeration restricted to the cases whose index is congruent to `i` modulo `n`, and writes its
//! `Report` as JSON.  The coordinator merges the reports, matches violation classes against
//! KNOWN_FINDINGS.txt, confirms new violations by replaying them twice in fresh processes, writes
//! the evidence file and decides the exit status (0 held, 1 violation, 2 machinery failure).

use std::{
	collections::{BTreeMap, BTreeSet, HashSet},
	fs,
	io::Write as _,
	path::{Path, PathBuf},
	process::{Command, Stdio},
	time::Instant,
};

use serde_json::{json, Map, Value};

/// root of the verification tree (the directory holding `check`); `VERIF_ROOT` is exported by ./check
pub fn verif_root() -> String {
	std::env::var("VERIF_ROOT").unwrap_or_else(|_| "/verif".to_owned())
}

#[derive(Clone, Copy, PartialEq, Eq, Debug)]
pub enum Tier {
	Quick,
	Thorough,
}
impl Tier {
	pub fn name(self) -> &'static str {
		match self {
			Tier::Quick => "quick",
			Tier::Thorough => "thorough",
		}
	}
	pub fn q<T>(self, quick: T, thorough: T) -> T {
		match self {
			Tier::Quick => quick,
			Tier::Thorough => thorough,
		}
	}
}

#[derive(Clone, Debug)]
pub struct Shard {
	pub idx: u64,
	pub n: u64,
	pub tier: Tier,
	/// sub-check selector (a check may consist of several independently sharded parts)
	pub part: String,
	/// case indexes that killed an earlier incarnation of this worker (reported by the coordinator, not re-run)
	pub skip: Vec<u64>,
}
impl Shard {
	#[inline]
	pub fn mine(&self, case_index: u64) -> bool {
		case_index % self.n == self.idx && (self.skip.is_empty() || !self.skip.contains(&case_index))
	}
}

pub fn fnv(bytes: &[u8]) -> u64 {
	let mut h: u64 = 0xcbf29ce484222325;
	for b in bytes {
		h ^= u64::from(*b);
		h = h.wrapping_mul(0x100000001b3);
	}
	// final avalanche so that low bits are usable
	h ^= h >> 32;
	h = h.wrapping_mul(0x9E3779B97F4A7C15);
	h ^ (h >> 29)
}

#[derive(Clone, Debug)]
pub struct Violation {
	/// class key: fine enough that a different violation of the same property has another key
	pub class: String,
	/// short rendering of the failing case (program / input / history)
	pub witness: String,
	/// expected vs observed
	pub detail: String,
	/// number of deviations (non-default choices) of the case, used to report the simplest first
	pub cost: u32,
	/// machine readable replay payload for `jv replay`
	pub replay: Value,
}

/// Worker-side accumulator
pub struct Report {
	pub evaluations: u64,
	/// hashes of distinct non-trivial cases
	pub nontrivial: HashSet<u64>,
	/// hashes of distinct outcomes (reference verdicts / observations)
	pub outcomes: HashSet<u64>,
	pub samples: Vec<Value>,
	pub sample_cap: usize,
	/// violations, at most `per_class_cap` witnesses kept per class (count kept for all)
	pub violations: BTreeMap<String, (u64, Vec<Violation>)>,
	pub counters: BTreeMap<String, u64>,
	pub states: HashSet<u64>,
	pub transitions: u64,
	pub traces_validated: u64,
	pub notes: Vec<String>,
	pub capped: bool,
}
impl Default for Report {
	fn default() -> Self {
		Self::new()
	}
}
impl Report {
	pub fn new() -> Self {
		Self {
			evaluations: 0,
			nontrivial: HashSet::new(),
			outcomes: HashSet::new(),
			samples: Vec::new(),
			sample_cap: 6,
			violations: BTreeMap::new(),
			counters: BTreeMap::new(),
			states: HashSet::new(),
			transitions: 0,
			traces_validated: 0,
			notes: Vec::new(),
			capped: false,
		}
	}
	#[inline]
	pub fn case(&mut self, nontrivial_key: Option<u64>, outcome: u64) {
		self.evaluations += 1;
		if let Some(k) = nontrivial_key {
			self.nontrivial.insert(k);
		}
		self.outcomes.insert(outcome);
	}
	pub fn sample(&mut self, v: impl FnOnce() -> Value) {
		if self.samples.len() < self.sample_cap {
			self.samples.push(v());
		}
	}
	pub fn count(&mut self, name: &str, by: u64) {
		*self.counters.entry(name.to_owned()).or_insert(0) += by;
	}
	pub fn violation(&mut self, v: Violation) {
		let e = self.violations.entry(v.class.clone()).or_insert((0, Vec::new()));
		e.0 += 1;
		if e.1.len() < 3 {
			e.1.push(v);
		} else if let Some(max) = e.1.iter_mut().max_by_key(|x| (x.cost, x.witness.len())) {
			if (v.cost, v.witness.len()) < (max.cost, max.witness.len()) {
				*max = v;
			}
		}
	}
	pub fn to_json(&self, hash_file: &Path) -> Value {
		// distinct hashes go to a side file (binary, little endian u64)
		let mut buf = Vec::with_capacity((self.nontrivial.len() + self.outcomes.len() + self.states.len()) * 8 + 24);
		for set in [&self.nontrivial, &self.outcomes, &self.states] {
			buf.extend_from_slice(&(set.len() as u64).to_le_bytes());
			for h in set {
				buf.extend_from_slice(&h.to_le_bytes());
			}
		}
		fs::write(hash_file, buf).expect("write hash file");
		let mut viol = Vec::new();
		for (class, (n, ws)) in &self.violations {
			viol.push(json!({
				"class": class, "count": n,
				"witnesses": ws.iter().map(|w| json!({"witness": w.witness, "detail": w.detail, "cost": w.cost, "replay": w.replay})).collect::<Vec<_>>()
			}));
		}
		json!({
			"evaluations": self.evaluations,
			"samples": self.samples,
			"violations": viol,
			"counters": self.counters,
			"transitions": self.transitions,
			"traces_validated": self.traces_validated,
			"notes": self.notes,
			"capped": self.capped,
		})
	}
}

// ---------------------------------------------------------------------------------------------
// Known findings

#[derive(Debug, Clone)]
pub struct KnownFinding {
	pub property: String,
	pub class: String,
	pub what: String,
}
pub fn load_known_findings() -> Vec<KnownFinding> {
	let mut out = Vec::new();
	let Ok(text) = fs::read_to_string(format!("{}/KNOWN_FINDINGS.txt", verif_root())) else {
		return out;
	};
	for line in text.lines() {
		let line = line.trim();
		if let Some(rest) = line.strip_prefix("finding:") {
			// finding: property=<id> class=<key> :: <what fails>
			let (head, what) = rest.split_once("::").unwrap_or((rest, ""));
			let mut property = String::new();
			let mut class = String::new();
			let head = head.trim();
			if let Some(p) = head.strip_prefix("property=") {
				let (pid, tail) = p.split_once(' ').unwrap_or((p, ""));
				property = pid.to_owned();
				if let Some(c) = tail.trim().strip_prefix("class=") {
					class = c.trim().to_owned();
				}
			}
			if !property.is_empty() && !class.is_empty() {
				out.push(KnownFinding {
					property,
					class,
					what: what.trim().to_owned(),
				});
			}
		}
	}
	out
}

// ---------------------------------------------------------------------------------------------
// Coordinator

pub struct CheckSpec {
	pub property: &'static str,
	/// evidence level
	pub level: &'static str,
	pub rule: String,
	pub assumptions: Vec<String>,
	/// parts to run: (part name, number of worker processes, per-worker wall limit seconds)
	pub parts: Vec<PartSpec>,
	/// if true a worker death is attributed to the journalled case and reported as a violation
	pub totality: bool,
	pub exhaustive: bool,
	pub min_outcomes: u64,
}
#[derive(Clone)]
pub struct PartSpec {
	pub name: String,
	pub workers: u64,
	pub wall_limit_s: u64,
}
impl PartSpec {
	pub fn new(name: &str, workers: u64, wall_limit_s: u64) -> Self {
		Self {
			name: name.to_owned(),
			workers,
			wall_limit_s,
		}
	}
}

/// the Python interpreter used by the oracle scripts (`VERIF_PYTHON` is exported by ./check)
pub fn python() -> String {
	std::env::var("VERIF_PYTHON").unwrap_or_else(|_| "python3".to_owned())
}

pub fn scratch_dir() -> PathBuf {
	let p = PathBuf::from(format!("{}/target/scratch/{}", verif_root(), std::process::id()));
	fs::create_dir_all(&p).expect("scratch");
	p
}

pub fn ncpu() -> u64 {
	std::env::var("VERIF_WORKERS")
		.ok()
		.and_then(|v| v.parse().ok())
		.unwrap_or_else(|| std::thread::available_parallelism().map_or(8, |n| n.get() as u64))
}

pub fn seed() -> i64 {
	std::env::var("VERIF_SEED")
		.ok()
		.and_then(|v| v.parse().ok())
		.unwrap_or(0)
}

struct WorkerOut {
	part: String,
	idx: u64,
	status: Option<i32>,
	signal: Option<i32>,
	timed_out: bool,
	json: Option<Value>,
	hashes: Option<[Vec<u64>; 3]>,
	journal: String,
	stderr_tail: String,
	/// cases that killed earlier incarnations of this worker: (case index, journal text, description)
	deaths: Vec<(u64, String, String)>,
}

fn read_hashes(p: &Path) -> Option<[Vec<u64>; 3]> {
	let data = fs::read(p).ok()?;
	let mut off = 0usize;
	let mut out: [Vec<u64>; 3] = [Vec::new(), Vec::new(), Vec::new()];
	for slot in &mut out {
		let n = u64::from_le_bytes(data.get(off..off + 8)?.try_into().ok()?) as usize;
		off += 8;
		slot.reserve(n);
		for _ in 0..n {
			slot.push(u64::from_le_bytes(data.get(off..off + 8)?.try_into().ok()?));
			off += 8;
		}
	}
	Some(out)
}

pub const JOURNAL_SIZE: usize = 1 << 16;

fn read_journal(p: &Path) -> (u64, String) {
	let Ok(data) = fs::read(p) else {
		return (0, String::new());
	};
	if data.len() < 12 {
		return (0, String::new());
	}
	let idx = u64::from_le_bytes(data[0..8].try_into().unwrap());
	let n = u32::from_le_bytes([data[8], data[9], data[10], data[11]]) as usize;
	let n = n.min(data.len() - 12);
	(idx, String::from_utf8_lossy(&data[12..12 + n]).into_owned())
}

fn spawn_worker(spec: &CheckSpec, tier: Tier, part: &PartSpec, i: u64, dir: &Path, skip: &[u64]) -> (std::process::Child, PathBuf, PathBuf, PathBuf) {
	let exe = std::env::current_exe().expect("current_exe");
	let out = dir.join(format!("{}-{}-{}.json", spec.property, part.name, i));
	let journal = dir.join(format!("{}-{}-{}.journal", spec.property, part.name, i));
	let errf = dir.join(format!("{}-{}-{}.stderr", spec.property, part.name, i));
	let _ = fs::remove_file(&out);
	let _ = fs::remove_file(&journal);
	let mut cmd = Command::new(&exe);
	cmd.arg(spec.property)
		.arg(tier.name())
		.arg("--worker")
		.arg(format!("{}/{}", i, part.workers))
		.arg("--part")
		.arg(&part.name)
		.arg("--out")
		.arg(&out)
		.arg("--journal")
		.arg(&journal);
	if !skip.is_empty() {
		cmd.arg("--skip").arg(skip.iter().map(u64::to_string).collect::<Vec<_>>().join(","));
	}
	let child = cmd
		.stdin(Stdio::null())
		.stdout(Stdio::null())
		.stderr(fs::File::create(&errf).expect("stderr file"))
		.spawn()
		.expect("spawn worker");
	(child, out, journal, errf)
}

struct Slot {
	i: u64,
	child: std::process::Child,
	out: PathBuf,
	journal: PathBuf,
	errf: PathBuf,
	skip: Vec<u64>,
	deaths: Vec<(u64, String, String)>,
}

const MAX_RESPAWNS: usize = 40;

fn run_workers(spec: &CheckSpec, tier: Tier, dir: &Path) -> Vec<WorkerOut> {
	let mut outs = Vec::new();
	for part in &spec.parts {
		let start = Instant::now();
		let mut pending: Vec<Option<Slot>> = (0..part.workers)
			.map(|i| {
				let (child, out, journal, errf) = spawn_worker(spec, tier, part, i, dir, &[]);
				Some(Slot {
					i,
					child,
					out,
					journal,
					errf,
					skip: Vec::new(),
					deaths: Vec::new(),
				})
			})
			.collect();
		let mut done = 0;
		while done < pending.len() {
			let mut progressed = false;
			for slot_opt in &mut pending {
				let Some(slot) = slot_opt else {
					continue;
				};
				let mut timed_out = false;
				let st = match slot.child.try_wait().expect("try_wait") {
					Some(st) => Some(st),
					None => {
						if start.elapsed().as_secs() > part.wall_limit_s {
							let _ = slot.child.kill();
							timed_out = true;
							Some(slot.child.wait().expect("wait"))
						} else {
							None
						}
					}
				};
				let Some(st) = st else {
					continue;
				};
				progressed = true;
				use std::os::unix::process::ExitStatusExt;
				let json: Option<Value> = fs::read_to_string(&slot.out).ok().and_then(|t| serde_json::from_str(&t).ok());
				let hashes = read_hashes(&slot.out.with_extension("hashes"));
				let err = fs::read_to_string(&slot.errf).unwrap_or_default();
				let tail: String = {
					let lines: Vec<&str> = err.lines().collect();
					lines[lines.len().saturating_sub(15)..].join("\n")
				};
				let (jidx, jtext) = read_journal(&slot.journal);
				let ok = st.code() == Some(0) && json.is_some() && hashes.is_some();
				if !ok && spec.totality && !jtext.is_empty() && !timed_out && slot.deaths.len() < MAX_RESPAWNS && !err.contains("HARNESS PANIC") {
					// the journalled case killed the worker: record it and re-run the shard without it
					let desc = format!("process died: status={:?} signal={:?}{}; stderr tail: {}", st.code(), st.signal(), if err.contains("memory allocation of") { " (memory allocation of N bytes failed)" } else { "" }, tail.chars().rev().take(600).collect::<String>().chars().rev().collect::<String>());
					slot.deaths.push((jidx, jtext, desc));
					slot.skip.push(jidx);
					let (child, out, journal, errf) = spawn_worker(spec, tier, part, slot.i, dir, &slot.skip);
					slot.child = child;
					slot.out = out;
					slot.journal = journal;
					slot.errf = errf;
					continue;
				}
				outs.push(WorkerOut {
					part: part.name.clone(),
					idx: slot.i,
					status: st.code(),
					signal: st.signal(),
					timed_out,
					json,
					hashes,
					journal: jtext,
					stderr_tail: tail,
					deaths: std::mem::take(&mut slot.deaths),
				});
				let _ = fs::remove_file(&slot.out);
				let _ = fs::remove_file(slot.out.with_extension("hashes"));
				let _ = fs::remove_file(&slot.journal);
				let _ = fs::remove_file(&slot.errf);
				*slot_opt = None;
				done += 1;
			}
			if !progressed {
				std::thread::sleep(std::time::Duration::from_millis(20));
			}
		}
	}
	outs
}

/// Runs `jv replay <file>` in a fresh process, returns (exit code, stdout)
fn replay_fresh(path: &Path) -> (Option<i32>, String) {
	let exe = std::env::current_exe().expect("current_exe");
	let out = Command::new(exe)
		.arg("replay")
		.arg(path)
		.stdin(Stdio::null())
		.output()
		.expect("spawn replay");
	(out.status.code(), String::from_utf8_lossy(&out.stdout).into_owned())
}

pub fn coordinate(spec: CheckSpec, tier: Tier) -> i32 {
	let start = Instant::now();
	let dir = scratch_dir();
	let outs = run_workers(&spec, tier, &dir);
	let known = load_known_findings();
	let known: Vec<_> = known.into_iter().filter(|k| k.property == spec.property).collect();

	let mut machinery_errors: Vec<String> = Vec::new();
	let mut evaluations: u64 = 0;
	let mut transitions: u64 = 0;
	let mut traces_validated: u64 = 0;
	let mut samples: Vec<Value> = Vec::new();
	let mut counters: BTreeMap<String, u64> = BTreeMap::new();
	let mut notes: BTreeSet<String> = BTreeSet::new();
	let mut capped = false;
	let mut hs: [Vec<u64>; 3] = [Vec::new(), Vec::new(), Vec::new()];
	// class -> (count, witnesses)
	let mut classes: BTreeMap<String, (u64, Vec<Value>)> = BTreeMap::new();

	for w in &outs {
		for (didx, jtext, desc) in &w.deaths {
			let (class, witness) = jtext.split_once('\u{1}').unwrap_or(("worker-death", jtext));
			let kind = if desc.contains("memory allocation of") { "resource-exhaustion" } else { "process-death" };
			if kind == "resource-exhaustion" {
				// allocation failure under the memory cap is not a verdict (DESIGN C04.2); counted
				*counters.entry("resource_exhaustion_cases".into()).or_insert(0) += 1;
				notes.insert(format!("resource exhaustion (not a verdict): {witness}"));
				continue;
			}
			let class = format!("{kind} {class}");
			let e = classes.entry(class).or_insert((0, Vec::new()));
			e.0 += 1;
			e.1.push(json!({"witness": witness, "detail": desc, "cost": 0, "replay": {"kind": "journal", "part": w.part, "index": didx, "case": witness}}));
		}
		let ok = w.status == Some(0) && w.json.is_some() && w.hashes.is_some();
		if !ok {
			machinery_errors.push(format!(
				"worker {}#{} failed: status={:?} signal={:?} timed_out={} journal={:?}\n{}",
				w.part, w.idx, w.status, w.signal, w.timed_out, w.journal, w.stderr_tail
			));
			continue;
		}
		let j = w.json.as_ref().unwrap();
		evaluations += j["evaluations"].as_u64().unwrap_or(0);
		transitions += j["transitions"].as_u64().unwrap_or(0);
		traces_validated += j["traces_validated"].as_u64().unwrap_or(0);
		capped |= j["capped"].as_bool().unwrap_or(false);
		if let Some(s) = j["samples"].as_array() {
			for x in s {
				if samples.len() < 8 {
					samples.push(x.clone());
				}
			}
		}
		if let Some(c) = j["counters"].as_object() {
			for (k, v) in c {
				*counters.entry(k.clone()).or_insert(0) += v.as_u64().unwrap_or(0);
			}
		}
		if let Some(n) = j["notes"].as_array() {
			for x in n {
				notes.insert(x.as_str().unwrap_or("").to_owned());
			}
		}
		if let Some(vs) = j["violations"].as_array() {
			for v in vs {
				let class = v["class"].as_str().unwrap_or("?").to_owned();
				let e = classes.entry(class).or_insert((0, Vec::new()));
				e.0 += v["count"].as_u64().unwrap_or(1);
				if let Some(ws) = v["witnesses"].as_array() {
					e.1.extend(ws.iter().cloned());
				}
			}
		}
		let h = w.hashes.as_ref().unwrap();
		for k in 0..3 {
			hs[k].extend_from_slice(&h[k]);
		}
	}
	for h in &mut hs {
		h.sort_unstable();
		h.dedup();
	}
	let distinct_nontrivial = hs[0].len() as u64;
	let distinct_outcomes = hs[1].len() as u64;
	let states = hs[2].len() as u64;

	// Triage violations
	let mut new_violations: Vec<(String, Value)> = Vec::new();
	let mut violation_lines: usize;
	let mut known_seen: BTreeSet<String> = BTreeSet::new();
	let mut stdout = std::io::stdout().lock();
	for (class, (count, ws)) in &mut classes {
		ws.sort_by_key(|w| (w["cost"].as_u64().unwrap_or(0), w["witness"].as_str().map_or(0, str::len)));
		if let Some(k) = known.iter().find(|k| &k.class == class) {
			if known_seen.insert(class.clone()) {
				let _ = writeln!(stdout, "KNOWN-FINDING: property={} {} [class={} occurrences={}]", spec.property, k.what, class, count);
			}
		} else {
			new_violations.push((class.clone(), ws[0].clone()));
		}
	}
	let stale: Vec<String> = known.iter().filter(|k| !known_seen.contains(&k.class)).map(|k| k.class.clone()).collect();

	// Confirm and write replay artefacts
	let replays = PathBuf::from(format!("{}/replays", verif_root()));
	fs::create_dir_all(&replays).expect("replays dir");
	violation_lines = 0;
	// simplest witnesses first; only the first few classes are confirmed by fresh-process replays
	new_violations.sort_by_key(|(_, w)| (w["cost"].as_u64().unwrap_or(0), w["witness"].as_str().map_or(0, str::len)));
	const MAX_CONFIRMED: usize = 12;
	const MAX_REPORTED: usize = 200;
	for (vi, (class, w)) in new_violations.iter().enumerate() {
		if vi >= MAX_REPORTED {
			let _ = writeln!(stdout, "... {} more violation classes not listed (see evidence violation_classes)", new_violations.len() - MAX_REPORTED);
			violation_lines += new_violations.len() - MAX_REPORTED;
			break;
		}
		let total = classes[class].0;
		let payload = json!({
			"property": spec.property, "tier": tier.name(), "class": class,
			"witness": w["witness"], "detail": w["detail"], "replay": w["replay"], "occurrences": total,
		});
		let text = serde_json::to_string_pretty(&payload).unwrap();
		let path = replays.join(format!("{}-{:016x}.json", spec.property, fnv(class.as_bytes()) ^ fnv(w["witness"].as_str().unwrap_or("").as_bytes())));
		fs::write(&path, &text).expect("write replay");
		let journal_kind = w["replay"]["kind"] == "journal";
		if !journal_kind && vi < MAX_CONFIRMED {
			let (c1, o1) = replay_fresh(&path);
			let (c2, o2) = replay_fresh(&path);
			if c1 != c2 || o1 != o2 {
				machinery_errors.push(format!("NONDETERMINISTIC-REPLAY class={class} replay={} ({c1:?} vs {c2:?})", path.display()));
				continue;
			}
			if c1 != Some(1) {
				machinery_errors.push(format!("REPLAY-DID-NOT-REPRODUCE class={class} replay={} exit={c1:?} out={o1}", path.display()));
				continue;
			}
		}
		let _ = writeln!(stdout, "VIOLATION property={} replay={}", spec.property, path.display());
		let _ = writeln!(stdout, "  class: {class} (x{total})\n  witness: {}\n  detail: {}", w["witness"].as_str().unwrap_or(""), w["detail"].as_str().unwrap_or(""));
		violation_lines += 1;
	}

	// Vacuity
	if evaluations == 0 {
		machinery_errors.push("vacuous: zero evaluations".into());
	}
	if distinct_outcomes < spec.min_outcomes {
		machinery_errors.push(format!("vacuous: only {distinct_outcomes} distinct outcomes (< {})", spec.min_outcomes));
	}

	let wall = start.elapsed().as_secs_f64();
	let mut coverage = Map::new();
	coverage.insert("evaluations".into(), json!(evaluations));
	coverage.insert("distinct_nontrivial".into(), json!(distinct_nontrivial));
	coverage.insert("distinct_outcomes".into(), json!(distinct_outcomes));
	coverage.insert("rule".into(), json!(spec.rule));
	coverage.insert("samples".into(), Value::Array(if samples.is_empty() { vec![json!("no samples recorded")] } else { samples }));
	coverage.insert("exhaustive".into(), json!(spec.exhaustive && !capped && machinery_errors.is_empty()));
	if spec.level == "model_checking" || states > 0 {
		coverage.insert("states".into(), json!(states));
		coverage.insert("transitions".into(), json!(transitions));
		coverage.insert("traces_validated_against_impl".into(), json!(traces_validated));
	}
	coverage.insert("counters".into(), json!(counters));
	coverage.insert("known_findings_observed".into(), json!(known_seen.iter().collect::<Vec<_>>()));
	coverage.insert("known_findings_not_observed".into(), json!(stale));
	coverage.insert("violation_classes".into(), json!(classes.iter().map(|(k, v)| json!({"class": k, "occurrences": v.0})).collect::<Vec<_>>()));
	coverage.insert("notes".into(), json!(notes.iter().collect::<Vec<_>>()));
	coverage.insert("machinery_errors".into(), json!(machinery_errors));
	coverage.insert("workers".into(), json!(outs.len()));
	let evidence = json!({
		"property_id": spec.property,
		"tier": tier.name(),
		"seed": seed(),
		"level": spec.level,
		"coverage": Value::Object(coverage),
		"assumptions": spec.assumptions,
		"wall_s": (wall * 1000.0).round() / 1000.0,
		"violations": violation_lines,
	});
	let evdir = PathBuf::from(format!("{}/evidence", verif_root()));
	fs::create_dir_all(&evdir).expect("evidence dir");
	fs::write(evdir.join(format!("{}.json", spec.property)), serde_json::to_string_pretty(&evidence).unwrap() + "\n").expect("write evidence");
	let _ = fs::remove_dir_all(&dir);

	let _ = writeln!(
		stdout,
		"{} {}: evaluations={evaluations} distinct_nontrivial={distinct_nontrivial} outcomes={distinct_outcomes} states={states} transitions={transitions} classes={} known={} new={} wall={wall:.1}s",
		spec.property,
		tier.name(),
		classes.len(),
		known_seen.len(),
		violation_lines
	);
	if violation_lines > 0 {
		return 1;
	}
	if !machinery_errors.is_empty() {
		for e in &machinery_errors {
			let _ = writeln!(stdout, "MACHINERY-ERROR: {e}");
		}
		return 2;
	}
	0
}

// ---------------------------------------------------------------------------------------------
// Worker side helpers

pub struct Journal {
	ptr: *mut u8,
}
impl Journal {
	pub fn open(path: Option<&str>) -> Self {
		let Some(path) = path else {
			return Self { ptr: std::ptr::null_mut() };
		};
		let f = fs::OpenOptions::new().read(true).write(true).create(true).truncate(true).open(path).expect("journal");
		f.set_len(JOURNAL_SIZE as u64).expect("set_len");
		use std::os::fd::AsRawFd;
		// SAFETY: fresh file of JOURNAL_SIZE bytes, mapped shared read/write
		let ptr = unsafe { libc::mmap(std::ptr::null_mut(), JOURNAL_SIZE, libc::PROT_READ | libc::PROT_WRITE, libc::MAP_SHARED, f.as_raw_fd(), 0) };
		assert!(ptr != libc::MAP_FAILED, "mmap journal");
		Self { ptr: ptr.cast() }
	}
	/// Record the case about to be executed: index, then `class \x01 witness`
	#[inline]
	pub fn note(&self, idx: u64, class: &str, witness: &str) {
		CASE_SEQ.fetch_add(1, std::sync::atomic::Ordering::Relaxed);
		if self.ptr.is_null() {
			return;
		}
		let total = (class.len() + 1 + witness.len()).min(JOURNAL_SIZE - 12);
		// SAFETY: ptr maps JOURNAL_SIZE bytes; lengths are clamped
		unsafe {
			let mut off = 12;
			let c = class.len().min(total);
			std::ptr::copy_nonoverlapping(class.as_ptr(), self.ptr.add(off), c);
			off += c;
			if off - 12 < total {
				*self.ptr.add(off) = 1;
				off += 1;
			}
			let w = total.saturating_sub(off - 12);
			std::ptr::copy_nonoverlapping(witness.as_ptr(), self.ptr.add(off), w);
			std::ptr::copy_nonoverlapping(idx.to_le_bytes().as_ptr(), self.ptr, 8);
			std::ptr::copy_nonoverlapping((total as u32).to_le_bytes().as_ptr(), self.ptr.add(8), 4);
		}
	}
	pub fn clear(&self) {
		if self.ptr.is_null() {
			return;
		}
		// SAFETY: ptr maps JOURNAL_SIZE bytes
		unsafe { std::ptr::copy_nonoverlapping(0u32.to_le_bytes().as_ptr(), self.ptr.add(8), 4) };
	}
}

static CASE_SEQ: std::sync::atomic::AtomicU64 = std::sync::atomic::AtomicU64::new(0);
static WATCHDOG_OFF: std::sync::atomic::AtomicBool = std::sync::atomic::AtomicBool::new(false);
pub fn stop_watchdog() {
	WATCHDOG_OFF.store(true, std::sync::atomic::Ordering::SeqCst);
}
/// Per-case time limit for termination properties: if no new case is journalled for `limit_s` seconds the worker
/// aborts; the coordinator then attributes the death to the journalled case (class "process-death"), skips it and goes on.
pub fn start_watchdog(limit_s: u64) {
	std::thread::spawn(move || {
		let mut last = CASE_SEQ.load(std::sync::atomic::Ordering::Relaxed);
		let mut since = Instant::now();
		loop {
			std::thread::sleep(std::time::Duration::from_millis(250));
			if WATCHDOG_OFF.load(std::sync::atomic::Ordering::SeqCst) {
				return;
			}
			let now = CASE_SEQ.load(std::sync::atomic::Ordering::Relaxed);
			if now != last {
				last = now;
				since = Instant::now();
			} else if last > 0 && since.elapsed().as_secs() >= limit_s {
				eprintln!("WATCHDOG: the journalled case did not finish within {limit_s} s (hang)");
				// SAFETY: plain process abort
				unsafe { libc::abort() };
			}
		}
	});
}

pub fn limit_memory(bytes: u64) {
	let lim = libc::rlimit {
		rlim_cur: bytes,
		rlim_max: bytes,
	};
	// SAFETY: plain syscall
	unsafe {
		libc::setrlimit(libc::RLIMIT_AS, &lim);
	}
}

thread_local! {
	pub static LAST_PANIC: std::cell::RefCell<Option<String>> = const { std::cell::RefCell::new(None) };
	static IN_GUARD: std::cell::Cell<u32> = const { std::cell::Cell::new(0) };
}
pub fn install_panic_hook() {
	if std::env::var_os("JV_BACKTRACE").is_some() {
		return;
	}
	std::panic::set_hook(Box::new(|info| {
		let loc = info.location().map_or_else(|| "?".to_owned(), |l| format!("{}:{}", l.file(), l.line()));
		let msg = info
			.payload()
			.downcast_ref::<&str>()
			.map(|s| (*s).to_owned())
			.or_else(|| info.payload().downcast_ref::<String>().cloned())
			.unwrap_or_else(|| "<non-string panic>".into());
		if IN_GUARD.with(std::cell::Cell::get) == 0 {
			eprintln!("HARNESS PANIC (outside a guarded call) at {loc}: {msg}");
		}
		LAST_PANIC.with(|p| *p.borrow_mut() = Some(format!("{loc}: {msg}")));
	}));
}
/// Runs `f`, converting a panic into `Err(location: message)`
pub fn guarded<T>(f: impl FnOnce() -> T) -> Result<T, String> {
	LAST_PANIC.with(|p| *p.borrow_mut() = None);
	IN_GUARD.with(|g| g.set(g.get() + 1));
	let r = std::panic::catch_unwind(std::panic::AssertUnwindSafe(f));
	IN_GUARD.with(|g| g.set(g.get() - 1));
	match r {
		Ok(v) => Ok(v),
		Err(_) => Err(LAST_PANIC.with(|p| p.borrow_mut().take()).unwrap_or_else(|| "panic".into())),
	}
}
/// Strip the line number and repo prefix so that the class key is stable: `crates/x/src/y.rs: message-head`
pub fn panic_class(p: &str) -> String {
	let p = p.replace("/repo/", "");
	let (loc, msg) = p.split_once(": ").unwrap_or((&p, ""));
	let file = loc.rsplit_once(':').map_or(loc, |(f, _)| f);
	let file = file.rsplit_once("/library/").map_or(file.to_owned(), |(_, f)| format!("rust-std/{f}"));
	let msg: String = msg.lines().next().unwrap_or("").chars().take_while(|c| !c.is_ascii_digit()).take(60).collect();
	format!("panic {file}: {}", msg.trim_end().replace("::", ":"))
}
