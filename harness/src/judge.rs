//! Comparing the implementation's outcome with the reference verdict; shrinking failing programs to a
//! minimal form that serves as the class key of the violation.

use crate::{
	ast::*,
	imp::Out,
	json::{self, J},
	refi::Verdict,
};

/// coarse relation between reference error classes and implementation error kinds
pub fn class_compatible(ref_class: &str, imp_kind: &str) -> bool {
	let ok: &[&str] = match ref_class {
		"runtime" => &["RuntimeError"],
		"assert" => &["AssertionFailed"],
		"type" => &[
			"TypeMismatch",
			"BinaryOperatorDoesNotOperateOnValues",
			"UnaryOperatorDoesNotOperateOnType",
			"ValueIndexMustBeTypeGot",
			"CantIndexInto",
			"ValueIsNotIndexable",
			"OnlyFunctionsCanBeCalledGot",
			"TypeError",
			"FractionalIndex",
			"InComprehensionCanOnlyIterateOverArray",
			"FieldMustBeStringGot",
			"AttemptedIndexAnArrayWithString",
			"RuntimeError",
			"ConvertNumValue",
			"NoSuchField",
		],
		"bounds" => &["ArrayBoundsError", "StringBoundsError", "RuntimeError"],
		"lookup" => &["NoSuchField", "NoSuperFound"],
		"div" => &["DivisionByZero", "RuntimeError"],
		"overflow" => &["RuntimeError", "ConvertNumValue", "TypeError"],
		"recursion" => &["InfiniteRecursionDetected", "StackOverflow"],
		"call" => &["TooManyArgsFunctionHas", "UnknownFunctionParameter", "BindingParameterASecondTime", "FunctionParameterNotBoundInCall"],
		"unbound" => &["VariableIsNotDefined", "CantUseSelfSupOutsideOfObject", "NoSuperFound", "StandaloneSuper"],
		"static" => &["DuplicateFieldName", "DuplicateLocalVar", "VariableIsNotDefined", "ImportSyntaxError", "CantUseSelfSupOutsideOfObject"],
		"manifest" => &["RuntimeError", "TypeMismatch"],
		"import" => &["ImportFileNotFound", "ImportBadFileUtf8", "ImportIo", "RuntimeError", "ResolvedFileNotFound", "ImportSyntaxError", "ImportNotSupported"],
		_ => &[],
	};
	ok.contains(&imp_kind)
}

#[derive(Debug, Clone, PartialEq)]
pub enum Mismatch {
	/// reference has a value, implementation an error (class)
	ValueVsError(String),
	/// reference has an error (class), implementation a value
	ErrorVsValue(String),
	/// both values, different
	ValueDiffers,
	/// implementation output is not valid JSON
	BadJson(String),
	Panic(String),
	/// both errors but of unrelated classes (weak)
	ErrorClass(String, String),
}
impl Mismatch {
	pub fn key(&self) -> String {
		match self {
			Mismatch::ValueVsError(c) => format!("expected value, got error {c}"),
			Mismatch::ErrorVsValue(c) => format!("expected {c} error, got value"),
			Mismatch::ValueDiffers => "wrong value".into(),
			Mismatch::BadJson(_) => "invalid JSON output".into(),
			Mismatch::Panic(p) => crate::common::panic_class(p),
			Mismatch::ErrorClass(a, b) => format!("expected {a} error, got {b} error"),
		}
	}
	pub fn is_weak(&self) -> bool {
		matches!(self, Mismatch::ErrorClass(..))
	}
}

/// None = agreement (or the reference is unsure)
pub fn compare(v: &Verdict, o: &Out) -> Option<Mismatch> {
	match (v, o) {
		(Verdict::Unsure(_), Out::Panic(p)) => Some(Mismatch::Panic(p.clone())),
		(Verdict::Unsure(_), _) => None,
		(_, Out::Panic(p)) => Some(Mismatch::Panic(p.clone())),
		(Verdict::Value(a), Out::Json(b)) => {
			if a == b {
				return None;
			}
			let ja = json::parse(a).unwrap_or_else(|e| panic!("reference produced invalid JSON {a:?}: {e}"));
			match json::parse(b) {
				Ok(jb) => {
					if ja == jb {
						None
					} else {
						Some(Mismatch::ValueDiffers)
					}
				}
				Err(e) => Some(Mismatch::BadJson(e)),
			}
		}
		(Verdict::Value(_), Out::Err(c, _)) => Some(Mismatch::ValueVsError(c.clone())),
		(Verdict::Error(c, _), Out::Json(_)) => Some(Mismatch::ErrorVsValue((*c).to_owned())),
		(Verdict::Error(c, _), Out::Err(k, _)) => {
			if class_compatible(c, k) {
				None
			} else {
				Some(Mismatch::ErrorClass((*c).to_owned(), k.clone()))
			}
		}
	}
}

pub fn json_eq(a: &str, b: &str) -> bool {
	a == b || matches!((json::parse(a), json::parse(b)), (Ok(x), Ok(y)) if x == y)
}
pub fn parse_json(a: &str) -> Option<J> {
	json::parse(a).ok()
}

// ---------------------------------------------------------------------------------------------
// shrinking

fn children(e: &Ex) -> Vec<Ex> {
	let mut out = Vec::new();
	match e {
		Ex::Arr(xs) => out.extend(xs.iter().cloned()),
		Ex::ArrComp(x, cs) => {
			out.push((**x).clone());
			for c in cs {
				match c {
					Comp::For(_, e) | Comp::If(e) => out.push(e.clone()),
				}
			}
		}
		Ex::Un(_, x) | Ex::Error(x) => out.push((**x).clone()),
		Ex::Bin(l, _, r) | Ex::Index(l, r) => {
			out.push((**l).clone());
			out.push((**r).clone());
		}
		Ex::Assert(c, m, r) => {
			out.push((**c).clone());
			if let Some(m) = m {
				out.push((**m).clone());
			}
			out.push((**r).clone());
		}
		Ex::Local(bs, b) => {
			for bd in bs {
				match bd {
					Bind::Val(_, v) | Bind::Func(_, _, v) => out.push(v.clone()),
				}
			}
			out.push((**b).clone());
		}
		Ex::Apply(f, pos, named, _) => {
			// the body of a directly applied function literal (closed bodies survive the hoist)
			if let Ex::Fn(_, body) = &**f {
				out.push((**body).clone());
			}
			out.push((**f).clone());
			out.extend(pos.iter().cloned());
			out.extend(named.iter().map(|x| x.1.clone()));
		}
		Ex::Fn(_, b) => out.push((**b).clone()),
		Ex::If(c, t, el) => {
			out.push((**c).clone());
			out.push((**t).clone());
			if let Some(el) = el {
				out.push((**el).clone());
			}
		}
		Ex::Slice(a, s0, s1, s2) => {
			out.push((**a).clone());
			for x in [s0, s1, s2].into_iter().flatten() {
				out.push((**x).clone());
			}
		}
		Ex::ObjExt(b, body) => {
			out.push((**b).clone());
			out.extend(body_values(body));
		}
		Ex::Obj(body) => out.extend(body_values(body)),
		_ => {}
	}
	out
}
fn body_values(b: &ObjBody) -> Vec<Ex> {
	let mut out = Vec::new();
	match b {
		ObjBody::Members { fields, asserts, locals } => {
			for f in fields {
				out.push(f.value.clone());
				if let FName::Dyn(e) = &f.name {
					out.push(e.clone());
				}
			}
			for (c, _) in asserts {
				out.push(c.clone());
			}
			for l in locals {
				match l {
					Bind::Val(_, v) | Bind::Func(_, _, v) => out.push(v.clone()),
				}
			}
		}
		ObjBody::Comp { field, specs, .. } => {
			out.push(field.value.clone());
			if let FName::Dyn(e) = &field.name {
				out.push(e.clone());
			}
			for c in specs {
				match c {
					Comp::For(_, e) | Comp::If(e) => out.push(e.clone()),
				}
			}
		}
	}
	out
}

/// structural triggers of known parser-level defects: a failure whose *minimal* program still contains the
/// trigger is keyed by the trigger (one defect = one class per mismatch kind)
pub fn trigger(e: &Ex) -> Option<&'static str> {
	let mut found = None;
	fn ends_in_unary(l: &Ex) -> bool {
		match l {
			Ex::Un(..) => true,
			// only multiplicative operators can be unparenthesised left operands of a multiplicative operator
			Ex::Bin(_, op, r) if matches!(op, BinOp::Mul | BinOp::Div | BinOp::Mod) => ends_in_unary(r),
			_ => false,
		}
	}
	crate::gen::walk(e, &mut |x| {
		if let Ex::Bin(l, op, _) = x {
			if matches!(op, BinOp::Mul | BinOp::Div | BinOp::Mod) && ends_in_unary(l) {
				found = Some("unary operator as left operand of * / %");
			}
		}
	});
	found
}

/// structural trigger of a known deviation, given the kind of mismatch: the precedence trigger above, or a `*` next to a
/// string literal when a type error was expected and a value came out (string repetition, an extension of this
/// implementation: `"s" * 2`)
pub fn trigger_for(mismatch_key: &str, e: &Ex) -> Option<&'static str> {
	if let Some(t) = trigger(e) {
		return Some(t);
	}
	if mismatch_key.contains("expected type error, got value") {
		let (mut mul, mut string) = (false, false);
		crate::gen::walk(e, &mut |x| match x {
			Ex::Bin(_, BinOp::Mul, _) => mul = true,
			Ex::Str(_) => string = true,
			_ => {}
		});
		if mul && string {
			return Some("string * number");
		}
	}
	None
}

/// all single-step simplifications of `e`: a sub-expression replaced by `1`, `null`, or hoisted child
fn simplifications(e: &Ex) -> Vec<Ex> {
	let mut out = Vec::new();
	// replace whole by a child (hoist) or by a literal
	for c in children(e) {
		out.push(c);
	}
	if !matches!(e, Ex::Num(_) | Ex::Null) {
		out.push(Ex::Num(1.0));
	}
	// simplify inside each position
	macro_rules! inside {
		($sub:expr, $rebuild:expr) => {
			for s in simplifications($sub) {
				out.push($rebuild(s));
			}
		};
	}
	match e {
		Ex::Arr(xs) => {
			for i in 0..xs.len() {
				let mut v = xs.clone();
				v.remove(i);
				out.push(Ex::Arr(v));
				inside!(&xs[i], |s: Ex| {
					let mut v = xs.clone();
					v[i] = s;
					Ex::Arr(v)
				});
			}
		}
		Ex::Un(op, x) => inside!(x, |s: Ex| Ex::Un(*op, Box::new(s))),
		Ex::Error(x) => inside!(x, |s: Ex| Ex::Error(Box::new(s))),
		Ex::Bin(l, op, r) => {
			inside!(l, |s: Ex| Ex::Bin(Box::new(s), *op, r.clone()));
			inside!(r, |s: Ex| Ex::Bin(l.clone(), *op, Box::new(s)));
		}
		Ex::Index(l, r) => {
			inside!(l, |s: Ex| Ex::Index(Box::new(s), r.clone()));
			inside!(r, |s: Ex| Ex::Index(l.clone(), Box::new(s)));
		}
		Ex::If(c, t, el) => {
			inside!(c, |s: Ex| Ex::If(Box::new(s), t.clone(), el.clone()));
			inside!(t, |s: Ex| Ex::If(c.clone(), Box::new(s), el.clone()));
			if let Some(elx) = el {
				out.push(Ex::If(c.clone(), t.clone(), None));
				inside!(elx, |s: Ex| Ex::If(c.clone(), t.clone(), Some(Box::new(s))));
			}
		}
		Ex::Local(bs, b) => {
			inside!(b, |s: Ex| Ex::Local(bs.clone(), Box::new(s)));
			for i in 0..bs.len() {
				if bs.len() > 1 {
					let mut v = bs.clone();
					v.remove(i);
					out.push(Ex::Local(v, b.clone()));
				}
				match &bs[i] {
					Bind::Val(n, v) => inside!(v, |s: Ex| {
						let mut nb = bs.clone();
						nb[i] = Bind::Val(n.clone(), s);
						Ex::Local(nb, b.clone())
					}),
					Bind::Func(n, ps, v) => inside!(v, |s: Ex| {
						let mut nb = bs.clone();
						nb[i] = Bind::Func(n.clone(), ps.clone(), s);
						Ex::Local(nb, b.clone())
					}),
				}
			}
		}
		Ex::Apply(f, pos, named, ts) => {
			inside!(f, |s: Ex| Ex::Apply(Box::new(s), pos.clone(), named.clone(), *ts));
			for i in 0..pos.len() {
				inside!(&pos[i], |s: Ex| {
					let mut p = pos.clone();
					p[i] = s;
					Ex::Apply(f.clone(), p, named.clone(), *ts)
				});
			}
			for i in 0..named.len() {
				inside!(&named[i].1, |s: Ex| {
					let mut p = named.clone();
					p[i].1 = s;
					Ex::Apply(f.clone(), pos.clone(), p, *ts)
				});
			}
			if *ts {
				out.push(Ex::Apply(f.clone(), pos.clone(), named.clone(), false));
			}
		}
		Ex::Fn(ps, b) => inside!(b, |s: Ex| Ex::Fn(ps.clone(), Box::new(s))),
		Ex::Assert(c, m, r) => {
			inside!(c, |s: Ex| Ex::Assert(Box::new(s), m.clone(), r.clone()));
			inside!(r, |s: Ex| Ex::Assert(c.clone(), m.clone(), Box::new(s)));
			if let Some(mx) = m {
				out.push(Ex::Assert(c.clone(), None, r.clone()));
				inside!(mx, |s: Ex| Ex::Assert(c.clone(), Some(Box::new(s)), r.clone()));
			}
		}
		Ex::ArrComp(x, cs) => {
			inside!(x, |s: Ex| Ex::ArrComp(Box::new(s), cs.clone()));
			for i in 0..cs.len() {
				match &cs[i] {
					Comp::For(v, e2) => inside!(e2, |s: Ex| {
						let mut c2 = cs.clone();
						c2[i] = Comp::For(v.clone(), s);
						Ex::ArrComp(x.clone(), c2)
					}),
					Comp::If(e2) => {
						let mut c2 = cs.clone();
						c2.remove(i);
						out.push(Ex::ArrComp(x.clone(), c2));
						inside!(e2, |s: Ex| {
							let mut c2 = cs.clone();
							c2[i] = Comp::If(s);
							Ex::ArrComp(x.clone(), c2)
						});
					}
				}
			}
		}
		Ex::Slice(a, s0, s1, s2) => {
			inside!(a, |s: Ex| Ex::Slice(Box::new(s), s0.clone(), s1.clone(), s2.clone()));
			if s0.is_some() {
				out.push(Ex::Slice(a.clone(), None, s1.clone(), s2.clone()));
			}
			if s1.is_some() {
				out.push(Ex::Slice(a.clone(), s0.clone(), None, s2.clone()));
			}
			if s2.is_some() {
				out.push(Ex::Slice(a.clone(), s0.clone(), s1.clone(), None));
			}
		}
		Ex::Obj(b) => {
			for nb in body_simpl(b) {
				out.push(Ex::Obj(nb));
			}
		}
		Ex::ObjExt(base, b) => {
			inside!(base, |s: Ex| Ex::ObjExt(Box::new(s), b.clone()));
			for nb in body_simpl(b) {
				out.push(Ex::ObjExt(base.clone(), nb));
			}
		}
		_ => {}
	}
	out
}
fn body_simpl(b: &ObjBody) -> Vec<ObjBody> {
	let mut out = Vec::new();
	if let ObjBody::Members { locals, asserts, fields } = b {
		for i in 0..fields.len() {
			let mut f2 = fields.clone();
			f2.remove(i);
			out.push(ObjBody::Members { locals: locals.clone(), asserts: asserts.clone(), fields: f2 });
			for s in simplifications(&fields[i].value) {
				let mut f2 = fields.clone();
				f2[i].value = s;
				out.push(ObjBody::Members { locals: locals.clone(), asserts: asserts.clone(), fields: f2 });
			}
			if fields[i].plus {
				let mut f2 = fields.clone();
				f2[i].plus = false;
				out.push(ObjBody::Members { locals: locals.clone(), asserts: asserts.clone(), fields: f2 });
			}
			if fields[i].vis != Vis::Normal {
				let mut f2 = fields.clone();
				f2[i].vis = Vis::Normal;
				out.push(ObjBody::Members { locals: locals.clone(), asserts: asserts.clone(), fields: f2 });
			}
		}
		for i in 0..locals.len() {
			let mut l2 = locals.clone();
			l2.remove(i);
			out.push(ObjBody::Members { locals: l2, asserts: asserts.clone(), fields: fields.clone() });
		}
		for i in 0..asserts.len() {
			let mut a2 = asserts.clone();
			a2.remove(i);
			out.push(ObjBody::Members { locals: locals.clone(), asserts: a2, fields: fields.clone() });
		}
	}
	out
}

/// greedy shrink: repeatedly take the first simplification that still fails the same way
pub fn shrink(e: &Ex, still_fails: &mut dyn FnMut(&Ex) -> bool) -> Ex {
	let mut cur = e.clone();
	let mut rounds = 0;
	'outer: loop {
		rounds += 1;
		if rounds > 60 {
			break;
		}
		let mut cands = simplifications(&cur);
		// smaller first
		cands.sort_by_key(|c| crate::gen::size(c));
		let cur_size = crate::gen::size(&cur);
		for c in cands {
			if crate::gen::size(&c) >= cur_size && c != cur {
				// only strictly smaller or equal-size-with-simpler-attributes candidates
				if crate::gen::size(&c) > cur_size {
					continue;
				}
			}
			if c == cur {
				continue;
			}
			if still_fails(&c) {
				cur = c;
				continue 'outer;
			}
		}
		break;
	}
	cur
}

/// abstract rendering of a (minimal) program used inside class keys
pub fn skeleton(e: &Ex) -> String {
	let text = print(e);
	// numbers -> N, short string contents kept (they are part of the generator's alphabet)
	let mut out = String::new();
	let mut chars = text.chars().peekable();
	while let Some(c) = chars.next() {
		if c.is_ascii_digit() {
			while matches!(chars.peek(), Some(d) if d.is_ascii_digit() || *d == '.') {
				chars.next();
			}
			out.push('N');
		} else {
			out.push(c);
		}
		if out.len() > 100 {
			out.push('~');
			break;
		}
	}
	out
}
