//! C17 — source text is never lost and reported positions are accurate (E3 tiling/losslessness + E1 planted positions).

use std::{
	fs,
	io::{Read, Seek, SeekFrom},
	os::fd::AsRawFd,
	rc::Rc,
};

use jrsonnet_evaluator::{
	trace::{CompactFormat, PathResolver, TraceFormat},
	State,
};
use jrsonnet_stdlib::{ContextInitializer, StdTracePrinter};
use serde_json::{json, Value};

use crate::{
	c04::src_spaces,
	c06::repo_inputs,
	canon::collect_spans,
	common::{fnv, guarded, panic_class, scratch_dir, CheckSpec, Journal, PartSpec, Report, Shard, Tier, Violation},
	enumr::{for_each_product, for_each_seq},
	imp::maybe_collect,
	Check,
};

pub const CHECK: Check = Check {
	id: "C17",
	spec,
	work,
	replay,
};

fn spec(tier: Tier) -> CheckSpec {
	let n = crate::common::ncpu();
	CheckSpec {
		property: "C17",
		level: "exploration",
		rule: format!(
			"exhaustive: (tile) every token sequence, character string, number-like and text-block-like string of the C06 sequence spaces (same bounds) and the repository inputs: the lexer's tokens tile [0, len) without gap or overlap on character boundaries, the formatter's syntax tree prints back the input byte for byte (valid or not), and for input the evaluator's parser accepts every span of the tree lies on character boundaries inside the text, start <= end, and covers what it labels (variable = that identifier, field name = that name, argument list starts at `(`, `error`/`import`/`assert` spans start at the keyword's expression); \
			(planted) one of {} constructs (error, failing assert, std.trace, undefined variable, missing field, call with a missing argument, stray `)`; single-line and two-line spellings) placed after every sequence of <= {} preceding lines over {{ASCII code, string with a 2-/3-/4-byte character, non-ASCII comment, blank, CRLF-terminated code}}, behind every same-line prefix in {{none, spaces, tab, ASCII code, code with a non-ASCII string}}, followed by {{nothing, non-ASCII comment, blank line}}: the line printed by the real CompactFormat trace / syntax-error location / real StdTracePrinter output (captured from fd 2) equals the planted line always, and the printed location equals the location printed for the same construct alone in a file, shifted by the number of preceding lines and prefix characters, whenever the prefix is ASCII. non-trivial = distinct input text (tile) / distinct planted file that reports a location (planted)",
			CONSTRUCTS.len(),
			tier.q(2, 3)
		),
		assumptions: vec!["the location of a construct standing alone at the start of a file is taken as the definition of which characters the implementation points at (sanity-checked to lie inside the construct); every other placement is compared against it".into()],
		parts: vec![PartSpec::new("tile", n, tier.q(900, 14400)), PartSpec::new("planted", n, tier.q(900, 7200))],
		totality: true,
		exhaustive: true,
		min_outcomes: 3,
	}
}

fn work(shard: &Shard, journal: &Journal, rep: &mut Report) {
	crate::common::limit_memory(6 << 30);
	crate::common::start_watchdog(20);
	match shard.part.as_str() {
		"tile" => part_tile(shard, journal, rep),
		"planted" => part_planted(shard, journal, rep),
		p => panic!("unknown part {p}"),
	}
}

// ---------------------------------------------------------------------------------------------
// tiling / losslessness / spans

fn tile_case(rep: &mut Report, text: &str, cost: u32) {
	let replay = json!({"kind": "tile", "text": text});
	let mut v = |class: String, detail: String| {
		rep.violation(Violation { class, witness: text.to_owned(), detail, cost, replay: replay.clone() });
	};
	// lexer tiling
	match guarded(|| jrsonnet_lexer::Lexer::new(text).map(|l| (format!("{:?}", l.kind), l.range.0 as usize, l.range.1 as usize, l.text.to_owned())).collect::<Vec<_>>()) {
		Err(p) => v(format!("lexer panic: {}", panic_class(&p)), p),
		Ok(toks) => {
			let mut at = 0usize;
			for (kind, s, e, t) in &toks {
				if *s != at {
					v(format!("lexer tokens do not tile the input: {} at {kind}", if *s > at { "gap" } else { "overlap" }), format!("token {kind} covers {s}..{e}, previous token ended at {at}"));
					break;
				}
				if e < s || *e > text.len() || !text.is_char_boundary(*s) || !text.is_char_boundary(*e) {
					v(format!("lexer token range is not a character range of the input at {kind}"), format!("token {kind} covers {s}..{e} of {} bytes", text.len()));
					break;
				}
				if &text[*s..*e] != t {
					v(format!("lexer token text differs from its range at {kind}"), format!("token {kind} {s}..{e}: text {t:?}, input slice {:?}", &text[*s..*e]));
					break;
				}
				at = *e;
			}
			if toks.iter().all(|(_, s, e, _)| s <= e) && at != text.len() && toks.last().map_or(true, |l| l.2 == at) {
				v("lexer tokens do not tile the input: tail not covered".into(), format!("tokens end at {at}, input has {} bytes", text.len()));
			}
		}
	}
	// syntax tree prints back the input
	match guarded(|| {
		use jrsonnet_rowan_parser::AstNode;
		jrsonnet_rowan_parser::parse(text).0.syntax().to_string()
	}) {
		Err(p) => v(format!("syntax-tree parser panic: {}", panic_class(&p)), p),
		Ok(back) => {
			if back != text {
				v("the syntax tree does not reproduce the input".into(), format!("tree text: {back:?}"));
			}
		}
	}
	// spans of the evaluator's tree
	let source = jrsonnet_ir::Source::new_virtual("<c17>".into(), text.into());
	let parsed = guarded(|| jrsonnet_ir_parser::parse(text, &jrsonnet_ir_parser::ParserSettings { source }).ok());
	let mut valid = false;
	match parsed {
		Err(p) => v(format!("parser panic: {}", panic_class(&p)), p),
		Ok(None) => {}
		Ok(Some(e)) => {
			valid = true;
			let mut spans = Vec::new();
			collect_spans(&e, &mut spans);
			for (s, en, label) in spans {
				let (s, en) = (s as usize, en as usize);
				let kind = label.split(':').next().unwrap_or("").to_owned();
				if s > en || en > text.len() || !text.is_char_boundary(s) || !text.is_char_boundary(en) {
					v(format!("span of `{kind}` is not a character range inside the text"), format!("{label}: {s}..{en} of {} bytes", text.len()));
					continue;
				}
				let t = &text[s..en];
				let ok = match kind.as_str() {
					"var" => t == &label[4..],
					"fieldname" => {
						let name = &label[10..];
						t == name || t.starts_with(['"', '\'', '@', '|'])
					}
					"fieldname-dyn" => t.starts_with('['),
					"args" => t.starts_with('('),
					"error" => t.starts_with("error"),
					"import" => t.starts_with("import"),
					_ => !t.is_empty(),
				};
				if !ok {
					v(format!("span of `{kind}` does not cover the construct it labels"), format!("{label}: {s}..{en} is {t:?}"));
				}
			}
		}
	}
	rep.case(Some(fnv(text.as_bytes())), u64::from(valid));
}

fn part_tile(shard: &Shard, journal: &Journal, rep: &mut Report) {
	let mut spaces: Vec<(&str, Vec<&str>, &str, usize, &str)> = src_spaces(shard.tier).into_iter().map(|(n, a, j, l)| (n, a, j, l, "")).collect();
	spaces.push(("numbers", vec!["0", "1", "9", "_", ".", "e", "E", "+", "-", "x"], "", shard.tier.q(5, 6), ""));
	spaces.push(("textblock", vec!["|", "\n", " ", "\t", "a", "-"], "", shard.tier.q(6, 8), "|||"));
	// multi-byte characters and CRLF next to every token kind
	spaces.push(("unicode", vec!["é", "😀", "\r\n", "\"", "a", "/*", "*/", "//", "\n", "'", ":", "{", "}"], "", shard.tier.q(4, 5), ""));
	let mut base = 0u64;
	for (name, alpha, join, maxlen, prefix) in spaces {
		let n = for_each_seq(alpha.len(), 0, maxlen, |i, seq| {
			let idx = base + i;
			if !shard.mine(idx) {
				return;
			}
			let mut text: String = prefix.to_owned();
			text.push_str(&seq.iter().map(|s| alpha[*s]).collect::<Vec<_>>().join(join));
			journal.note(idx, "tile", &text);
			tile_case(rep, &text, seq.len() as u32);
			if idx % 100_003 == 0 {
				rep.sample(|| json!({"space": name, "text": text}));
			}
		});
		base += n;
	}
	for (name, text) in repo_inputs() {
		base += 1;
		if shard.mine(base) {
			journal.note(base, "tile", &name);
			tile_case(rep, &text, 0);
		}
	}
	rep.count("tile_indexed", base / shard.n);
}

// ---------------------------------------------------------------------------------------------
// planted positions

/// (name, text of the construct; `\n` inside = two-line spelling). Every construct is a complete program tail.
const CONSTRUCTS: [(&str, &str); 12] = [
	("error", "error \"boom\""),
	("error (two lines)", "error\n \"boom\""),
	("assert", "assert false : \"m\"; 1"),
	("assert (two lines)", "assert false :\n \"m\"; 1"),
	("std.trace", "std.trace(\"t\", 1)"),
	("std.trace (two lines)", "std.trace\n(\"t\", 1)"),
	("undefined variable", "nope"),
	("missing field", "{}.f"),
	("missing argument", "(function(x) x)()"),
	("missing argument (two lines)", "(function(x) x)(\n)"),
	("stray )", ")"),
	("error in object field", "{ a: error \"boom\" }"),
];
const PRE: [(&str, &str); 7] = [
	("ascii", "local a = 1;\n"),
	("2-byte", "local s2 = \"é\";\n"),
	("3-byte", "local s3 = \"€\";\n"),
	("4-byte", "local s4 = \"😀\";\n"),
	("comment", "// ü ∑\n"),
	("blank", "\n"),
	("crlf", "local c = 1;\r\n"),
];
const PREFIX: [(&str, &str, bool); 5] = [("none", "", true), ("spaces", "  ", true), ("tab", "\t", true), ("ascii code", "local z = 1; ", true), ("non-ascii code", "local z = \"é€\"; ", false)];
const POST: [(&str, &str); 3] = [("none", ""), ("comment", "\n// ü"), ("blank", "\n\n")];

struct Capture {
	file: fs::File,
}
impl Capture {
	fn new(tag: u64) -> Self {
		let path = scratch_dir().join(format!("c17-stderr-{tag}"));
		let file = fs::OpenOptions::new().read(true).write(true).create(true).truncate(true).open(&path).expect("capture file");
		let _ = fs::remove_file(&path);
		Self { file }
	}
	/// runs `f` with fd 2 pointing at the capture file; returns what was written there
	fn run<T>(&mut self, f: impl FnOnce() -> T) -> (T, String) {
		self.file.set_len(0).expect("truncate");
		self.file.seek(SeekFrom::Start(0)).expect("seek");
		// SAFETY: plain descriptor juggling on this process' own descriptors
		let saved = unsafe { libc::dup(2) };
		assert!(saved >= 0, "dup");
		unsafe { libc::dup2(self.file.as_raw_fd(), 2) };
		let r = f();
		unsafe {
			libc::dup2(saved, 2);
			libc::close(saved);
		}
		self.file.seek(SeekFrom::Start(0)).expect("seek");
		let mut s = String::new();
		let _ = self.file.read_to_string(&mut s);
		(r, s)
	}
}

#[derive(Clone, Debug, PartialEq)]
struct Loc {
	line: usize,
	/// line of the end of the span when it is printed (spans over several lines)
	end_line: Option<usize>,
	/// the printed location after the line, e.g. "4-10", "2" or "3-2:9" — compared after shifting
	cols: Vec<usize>,
	raw: String,
}
#[derive(Clone, Debug, PartialEq)]
enum Obs {
	Value,
	/// first frame location of the formatted trace (or syntax error location), if any
	Error(Option<Loc>, String),
	Panic(String),
}

fn parse_loc(s: &str) -> Option<Loc> {
	// <c17>:L:C | <c17>:L:C-C2 | <c17>:L:C-L2:C2   -> cols = [C] | [C, C2] | [C, C2] with end_line
	let rest = s.split("<c17>:").nth(1)?;
	let raw: String = rest.chars().take_while(|c| c.is_ascii_digit() || *c == ':' || *c == '-').collect();
	let raw = raw.trim_end_matches(':').to_owned();
	let (left, right) = raw.split_once('-').map_or((raw.as_str(), None), |(l, r)| (l, Some(r)));
	let (line, col) = left.split_once(':')?;
	let line: usize = line.parse().ok()?;
	let mut cols = vec![col.parse().ok()?];
	let mut end_line = None;
	if let Some(r) = right {
		if let Some((l2, c2)) = r.split_once(':') {
			end_line = Some(l2.parse().ok()?);
			cols.push(c2.parse().ok()?);
		} else {
			cols.push(r.parse().ok()?);
		}
	}
	Some(Loc { line, end_line, cols, raw })
}

struct Runner {
	cap: Capture,
}
impl Runner {
	fn observe(&mut self, code: &str) -> (Obs, Vec<(usize, String)>) {
		maybe_collect();
		let (r, err) = self.cap.run(|| {
			guarded(|| {
				let ci = ContextInitializer::new(PathResolver::Absolute);
				ci.settings_mut().trace_printer = Rc::new(StdTracePrinter::new(PathResolver::Absolute));
				let mut b = State::builder();
				b.context_initializer(ci);
				let state = b.build();
				let _g = state.try_enter();
				match state.evaluate_snippet("<c17>", code).and_then(|v| v.manifest(jrsonnet_evaluator::manifest::JsonFormat::minify())) {
					Ok(_) => Obs::Value,
					Err(e) => {
						let text = CompactFormat { resolver: PathResolver::Absolute, max_trace: 20, padding: 4 }.format(&e).unwrap_or_default();
						let loc = text.lines().find(|l| l.contains("<c17>:")).and_then(parse_loc);
						Obs::Error(loc, text)
					}
				}
			})
		});
		let traces: Vec<(usize, String)> = err
			.lines()
			.filter_map(|l| l.strip_prefix("TRACE: "))
			.filter_map(|l| {
				let rest = l.split("<c17>:").nth(1)?;
				let n: String = rest.chars().take_while(char::is_ascii_digit).collect();
				Some((n.parse().ok()?, rest[n.len()..].trim().to_owned()))
			})
			.collect();
		match r {
			Ok(o) => (o, traces),
			Err(p) => (Obs::Panic(p), traces),
		}
	}
}

#[derive(Clone, Debug)]
struct Planted {
	construct: usize,
	pre: Vec<usize>,
	prefix: usize,
	post: usize,
}
impl Planted {
	fn text(&self) -> String {
		let mut t: String = self.pre.iter().map(|i| PRE[*i].1).collect();
		t.push_str(PREFIX[self.prefix].1);
		t.push_str(CONSTRUCTS[self.construct].1);
		t.push_str(POST[self.post].1);
		t
	}
	fn describe(&self) -> String {
		format!("{} after lines [{}], prefix {}, followed by {}", CONSTRUCTS[self.construct].0, self.pre.iter().map(|i| PRE[*i].0).collect::<Vec<_>>().join(", "), PREFIX[self.prefix].0, POST[self.post].0)
	}
	fn to_json(&self) -> Value {
		json!({"kind": "planted", "construct": self.construct, "pre": self.pre, "prefix": self.prefix, "post": self.post})
	}
	fn from_json(v: &Value) -> Self {
		Self {
			construct: v["construct"].as_u64().unwrap_or(0) as usize,
			pre: v["pre"].as_array().map(|a| a.iter().map(|x| x.as_u64().unwrap_or(0) as usize).collect()).unwrap_or_default(),
			prefix: v["prefix"].as_u64().unwrap_or(0) as usize,
			post: v["post"].as_u64().unwrap_or(0) as usize,
		}
	}
}

/// what the construct reports standing alone in a file
fn baselines(r: &mut Runner) -> Vec<(Obs, Vec<(usize, String)>)> {
	CONSTRUCTS.iter().map(|(_, c)| r.observe(c)).collect()
}

fn planted_case(r: &mut Runner, base: &[(Obs, Vec<(usize, String)>)], p: &Planted) -> (Vec<Violation>, u64) {
	let text = p.text();
	let (obs, traces) = r.observe(&text);
	let (bobs, btraces) = &base[p.construct];
	let cname = CONSTRUCTS[p.construct].0;
	let npre = p.pre.len();
	let (pname, ptext, pascii) = PREFIX[p.prefix];
	let shift = ptext.chars().count();
	let mut vs = Vec::new();
	let mut mk = |class: String, detail: String| {
		vs.push(Violation {
			class,
			witness: p.describe(),
			detail: format!("{detail}\nfile:\n{text}"),
			cost: (npre + usize::from(p.prefix > 0) + usize::from(p.post > 0)) as u32,
			replay: p.to_json(),
		});
	};
	let nonascii_before = p.pre.iter().any(|i| !PRE[*i].1.is_ascii());
	let env = format!("{}{}", if nonascii_before { "non-ASCII text on an earlier line" } else { "ASCII lines before" }, if p.pre.iter().any(|i| PRE[*i].0 == "crlf") { " + CRLF" } else { "" });
	match (bobs, &obs) {
		(_, Obs::Panic(pn)) => mk(format!("panic: {}", panic_class(pn)), pn.clone()),
		(Obs::Value, Obs::Value) => {}
		(Obs::Error(bl, _), Obs::Error(l, full)) => match (bl, l) {
			(Some(bl), Some(l)) => {
				if l.line != bl.line + npre || l.end_line != bl.end_line.map(|e| e + npre) {
					mk(format!("wrong line for {cname} [{env}, prefix {pname}]"), format!("expected line {}, reported {} ({})\n{full}", bl.line + npre, l.line, l.raw));
				} else if pascii {
					// columns on the first line of the construct move with the prefix; for a two-line construct the end column is on the next line
					let expect: Vec<usize> = bl.cols.iter().enumerate().map(|(i, c)| if bl.end_line.is_some() && i > 0 { *c } else { c + shift }).collect();
					if l.cols != expect {
						mk(format!("wrong column for {cname} [{env}, prefix {pname}]"), format!("alone in a file the construct reports {}; here expected columns {expect:?} on line {}, reported {}\n{full}", bl.raw, bl.line + npre, l.raw));
					}
				}
			}
			(Some(_), None) => mk(format!("no location reported for {cname}"), full.clone()),
			_ => {}
		},
		(a, b) => mk(format!("MODEL: {cname} behaves differently inside the frame"), format!("alone: {a:?}\nin the frame: {b:?}")),
	}
	if traces.len() != btraces.len() {
		mk(format!("MODEL: number of TRACE lines differs for {cname}"), format!("alone {btraces:?}, here {traces:?}"));
	} else {
		for ((bl, _), (l, _)) in btraces.iter().zip(&traces) {
			if *l != bl + npre {
				mk(format!("wrong line in TRACE output for {cname} [{env}, prefix {pname}]"), format!("expected line {}, TRACE line says {l}", bl + npre));
			}
		}
	}
	let key = match &obs {
		Obs::Value => 1,
		Obs::Error(Some(_), _) => 2,
		Obs::Error(None, _) => 3,
		Obs::Panic(_) => 4,
	};
	(vs, key)
}

/// the location a construct reports alone must lie inside the construct
fn baseline_sanity(base: &[(Obs, Vec<(usize, String)>)]) -> Vec<Violation> {
	let mut vs = Vec::new();
	for (i, (name, text)) in CONSTRUCTS.iter().enumerate() {
		let lines: Vec<&str> = text.split('\n').collect();
		let mut bad = None;
		match &base[i].0 {
			Obs::Error(Some(l), full) => {
				if l.line == 0 || l.line > lines.len() {
					bad = Some(format!("line {} of a {}-line construct\n{full}", l.line, lines.len()));
				} else if let Some(c) = l.cols.first() {
					let len = lines[l.line - 1].chars().count();
					if *c == 0 || *c > len + 1 {
						bad = Some(format!("column {c} on a line of {len} characters\n{full}"));
					}
				}
			}
			Obs::Error(None, full) => {
				if !matches!(*name, "std.trace" | "std.trace (two lines)") {
					bad = Some(format!("no location at all\n{full}"));
				}
			}
			Obs::Panic(p) => bad = Some(p.clone()),
			Obs::Value => {}
		}
		for (l, _) in &base[i].1 {
			// the call's line: where its `(` stands
			let want = 1 + text[..text.find('(').unwrap_or(0)].matches('\n').count();
			if *l != want {
				bad = Some(format!("TRACE reports line {l}, the call is on line {want}"));
			}
		}
		if let Some(b) = bad {
			vs.push(Violation {
				class: format!("{name} alone in a file reports a location outside itself"),
				witness: (*text).to_owned(),
				detail: b,
				cost: 0,
				replay: json!({"kind": "planted", "construct": i, "pre": [], "prefix": 0, "post": 0, "baseline": true}),
			});
		}
	}
	vs
}

fn part_planted(shard: &Shard, journal: &Journal, rep: &mut Report) {
	let mut r = Runner { cap: Capture::new(shard.idx) };
	let base = baselines(&mut r);
	if shard.idx == 0 {
		for v in baseline_sanity(&base) {
			rep.violation(v);
		}
		rep.sample(|| json!({"alone": CONSTRUCTS.iter().enumerate().map(|(i, (n, _))| json!([n, format!("{:?}", base[i].0).chars().take(160).collect::<String>(), base[i].1])).collect::<Vec<_>>()}));
	}
	let maxpre = shard.tier.q(2, 3);
	let mut pres: Vec<Vec<usize>> = Vec::new();
	for_each_seq(PRE.len(), 0, maxpre, |_, s| pres.push(s.to_vec()));
	let mut idx = 0u64;
	for pre in &pres {
		for_each_product(&[CONSTRUCTS.len(), PREFIX.len(), POST.len()], |_, c| {
			idx += 1;
			if !shard.mine(idx) {
				return;
			}
			let p = Planted { construct: c[0], pre: pre.clone(), prefix: c[1], post: c[2] };
			journal.note(idx, "planted", &p.describe());
			let (vs, key) = planted_case(&mut r, &base, &p);
			rep.case((key == 2 || !vs.is_empty() || CONSTRUCTS[c[0]].0.starts_with("std.trace")).then(|| fnv(p.text().as_bytes())), key);
			if idx % 2003 == 0 {
				rep.sample(|| json!({"planted": p.describe(), "observed": format!("{:?}", r.observe(&p.text())).chars().take(200).collect::<String>()}));
			}
			for v in vs {
				rep.violation(v);
			}
		});
	}
	rep.count("planted_files", idx / shard.n);
	let _ = fs::remove_dir(scratch_dir());
}

fn replay(v: &Value) -> (bool, String) {
	match v["kind"].as_str().unwrap_or("") {
		"planted" => {
			let mut r = Runner { cap: Capture::new(999) };
			let base = baselines(&mut r);
			let _ = fs::remove_dir(scratch_dir());
			if v["baseline"].as_bool() == Some(true) {
				let i = v["construct"].as_u64().unwrap_or(0) as usize;
				let vs = baseline_sanity(&base);
				let hit: Vec<&Violation> = vs.iter().filter(|x| x.replay["construct"].as_u64() == Some(i as u64)).collect();
				return (!hit.is_empty(), hit.iter().map(|x| format!("{}: {}", x.class, x.detail)).collect::<Vec<_>>().join("\n"));
			}
			let p = Planted::from_json(v);
			let (vs, _) = planted_case(&mut r, &base, &p);
			(!vs.is_empty(), format!("{}\n{}", p.describe(), vs.iter().map(|x| format!("{}: {}", x.class, x.detail)).collect::<Vec<_>>().join("\n")))
		}
		_ => {
			let text = v["text"].as_str().or_else(|| v["case"].as_str()).unwrap_or("");
			let mut rep = Report::new();
			tile_case(&mut rep, text, 0);
			let mut out = format!("text: {text:?}\n");
			for (c, (_, ws)) in &rep.violations {
				out.push_str(&format!("class: {c}\n{}\n", ws[0].detail));
			}
			(!rep.violations.is_empty(), out)
		}
	}
}
