//! C19 — formatting preserves the program (E1 over generated programs, their comment decorations and string forms).

use serde_json::{json, Value};

use crate::{
	ast::print,
	c06::{norm_msg_pub, repo_inputs, tree_diff_key, ESC},
	canon::canon_expr_desugared,
	common::{fnv, guarded, panic_class, CheckSpec, Journal, PartSpec, Report, Shard, Tier, Violation},
	enumr::{explore, for_each_seq},
	fmtx::{comments, decorate_all, decorations, fmt, indent_name, kind_group, tokens, F, INDENTS},
	gen::{gen_expr, GenCfg, Scope},
	Check,
};

pub const CHECK: Check = Check {
	id: "C19",
	spec,
	work,
	replay,
};

fn spec(tier: Tier) -> CheckSpec {
	let n = crate::common::ncpu();
	CheckSpec {
		property: "C19",
		level: "exploration",
		rule: format!(
			"exhaustive: (gen) every program of the whole-grammar generator with <= {} non-literal constructs (every unary/binary operator, tailstrict calls, slices, comprehensions, locals with several bindings, asserts, object locals, methods, imports, all visibilities) formatted with {}: the formatter either declines or prints text that the evaluator's parser accepts with the same tree up to positions and the two documented sugar equivalences; \
			(comments) every program with <= {} constructs with every single insertion of {{block comment, line comment on its own line, trailing line comment, hash comment, empty block comment, blank block comment, doc comment, multi-line block comment}} at every token boundary, and with a block / line comment at every boundary at once: same tree, and the output's comment sequence equals the input's (order and text, whitespace-trimmed); \
			(strings) every string literal of <= 2 items over a 17-item escape alphabet in double, single and both verbatim quotings, every text block of <= 2 lines over {{a, empty, tab+b, spaces+c, spaces only}} x block indentation {{space, tab}} x {{|||, |||-}}, alone and as an object field value: same decoded value; plus the repository's parser/formatter/suite inputs. non-trivial = distinct (text, indentation) that the formatter formats",
			tier.q(3, 4),
			tier.q("indentation 2", "indentation tabs, 2 and 4 (the programs with exactly 4 constructs, and the comment decorations of programs with 3: indentation 2)"),
			tier.q(2, 3)
		),
		assumptions: vec!["tree equality is decided on the evaluator's default parser output, printed without positions (harness/src/canon.rs), with `local f(p) = e` read as `local f = function(p) e` and `f(p): e` as `f: function(p) e`; the same evaluation result follows from the same tree".into()],
		parts: vec![PartSpec::new("gen", n, tier.q(900, 14400)), PartSpec::new("comments", n, tier.q(900, 14400)), PartSpec::new("strings", n.min(8), tier.q(900, 3600))],
		totality: false,
		exhaustive: true,
		min_outcomes: 3,
	}
}

fn work(shard: &Shard, journal: &Journal, rep: &mut Report) {
	crate::common::limit_memory(6 << 30);
	crate::common::start_watchdog(20);
	match shard.part.as_str() {
		"gen" => part_gen(shard, journal, rep),
		"comments" => part_comments(shard, journal, rep),
		"strings" => part_strings(shard, journal, rep),
		p => panic!("unknown part {p}"),
	}
}

enum T {
	Ok(String),
	Rej(String, usize),
	Panic(String),
}
fn tree(text: &str) -> T {
	let source = jrsonnet_ir::Source::new_virtual("<c19>".into(), text.into());
	match guarded(|| jrsonnet_ir_parser::parse(text, &jrsonnet_ir_parser::ParserSettings { source }).map(|e| canon_expr_desugared(&e)).map_err(|e| (e.message, e.location.offset))) {
		Ok(Ok(c)) => T::Ok(c),
		Ok(Err((m, o))) => T::Rej(m, o),
		Err(p) => T::Panic(p),
	}
}

/// all C19 oracles on one valid program text
pub fn check_program(rep: &mut Report, text: &str, indent: u8, deco: Option<(&str, &str, &str)>, cost: u32) {
	let T::Ok(want) = tree(text) else {
		// not a valid program for the evaluator: outside the property's quantifier
		rep.count("input rejected by the evaluator's parser (skipped)", 1);
		return;
	};
	let f = fmt(text, indent);
	let replay = json!({"kind": "fmt", "text": text, "indent": indent});
	let ctx = deco.map_or(String::new(), |(what, prev, next)| format!(" [{what} between {} and {}]", kind_group(prev), kind_group(next)));
	let mut outcome = f.tag().to_owned();
	match &f {
		F::Declined => {}
		F::Panic(p) => rep.violation(Violation {
			class: format!("formatter panic: {}", panic_class(p)),
			witness: text.to_owned(),
			detail: format!("indentation {}: panic {p}", indent_name(indent)),
			cost,
			replay: replay.clone(),
		}),
		F::Ok(out) => {
			match tree(out) {
				T::Ok(got) if got == want => {}
				T::Ok(got) => {
					outcome = "tree-changed".into();
					rep.violation(Violation {
						class: format!("the formatted text denotes another program{ctx}: {}", tree_diff_key(&want, &got)),
						witness: text.to_owned(),
						detail: format!("indentation {}\nformatted:\n{out}tree of the input:  {want}\ntree of the output: {got}", indent_name(indent)),
						cost,
						replay: replay.clone(),
					});
				}
				T::Rej(msg, off) => {
					outcome = "output-rejected".into();
					let kind = tokens(out).into_iter().find(|t| t.end > off).map_or("<end>".to_owned(), |t| t.kind);
					rep.violation(Violation {
						class: if deco.is_some() { format!("the evaluator's parser rejects the formatted text{ctx}") } else { format!("the evaluator's parser rejects the formatted text: `{}` at {kind}", norm_msg_pub(&msg)) },
						witness: text.to_owned(),
						detail: format!("indentation {}\nformatted:\n{out}parser: {msg} at offset {off}", indent_name(indent)),
						cost,
						replay: replay.clone(),
					});
				}
				T::Panic(p) => rep.violation(Violation {
					class: format!("parser panic on formatted text: {}", panic_class(&p)),
					witness: text.to_owned(),
					detail: format!("formatted:\n{out}panic {p}"),
					cost,
					replay: replay.clone(),
				}),
			}
			let (cin, cout) = (comments(text), comments(out));
			if cin != cout {
				outcome.push_str("+comments");
				// comments of the input that are missing in the output
				let mut missing = cin.clone();
				for c in &cout {
					if let Some(i) = missing.iter().position(|m| m == c) {
						missing.remove(i);
					}
				}
				let only_empty = !missing.is_empty() && missing.iter().all(|m| m == "/*");
				let symptom = if only_empty && cout.len() < cin.len() {
					"an empty block comment is dropped"
				} else if cout.len() < cin.len() {
					"a comment is lost"
				} else if cout.len() > cin.len() {
					"a comment is duplicated"
				} else {
					let mut a = cin.clone();
					let mut b = cout.clone();
					a.sort();
					b.sort();
					if a == b {
						"comments are reordered"
					} else {
						"comment text is changed"
					}
				};
				rep.violation(Violation {
					// every comment kind shares the fate of its position: keyed by the neighbouring token groups only
					class: if only_empty { symptom.to_owned() } else { format!("{symptom}{}", deco.map_or(String::new(), |(_, prev, next)| format!(" [between {} and {}]", kind_group(prev), kind_group(next)))) },
					witness: text.to_owned(),
					detail: format!("indentation {}\nformatted:\n{out}comments of the input:  {cin:?}\ncomments of the output: {cout:?}", indent_name(indent)),
					cost,
					replay,
				});
			}
		}
	}
	rep.case(matches!(f, F::Ok(_)).then(|| fnv(format!("{indent}\x01{text}").as_bytes())), fnv(outcome.as_bytes()));
}

fn indents(tier: Tier) -> &'static [u8] {
	if tier == Tier::Quick {
		&[2]
	} else {
		&INDENTS
	}
}

fn part_gen(shard: &Shard, journal: &Journal, rep: &mut Report) {
	let cfg = GenCfg { syntax_only: true, objects: true };
	let total = explore(shard.tier.q(3, 4), |c, idx| {
		let e = gen_expr(c, &Scope::default(), cfg);
		if !shard.mine(idx) {
			return;
		}
		let text = print(&e);
		journal.note(idx, "gen", &text);
		// the largest programs of the thorough tier with one indentation setting, everything below with all
		let ind: &[u8] = if shard.tier == Tier::Thorough && c.used() >= 4 { &[2] } else { indents(shard.tier) };
		for i in ind {
			check_program(rep, &text, *i, None, c.used());
		}
		if idx % 50_021 == 0 {
			rep.sample(|| json!({"program": text, "formatted(2)": match fmt(&text, 2) { F::Ok(s) => s, o => o.tag().to_owned() }}));
		}
	});
	rep.count("generated_programs", total / shard.n);
	let mut idx = total;
	for (name, text) in repo_inputs() {
		idx += 1;
		if !shard.mine(idx) {
			continue;
		}
		journal.note(idx, "gen", &name);
		for i in INDENTS {
			check_program(rep, &text, i, None, 0);
		}
		rep.count("repo_inputs", 1);
	}
}

fn part_comments(shard: &Shard, journal: &Journal, rep: &mut Report) {
	let cfg = GenCfg { syntax_only: true, objects: true };
	let total = explore(shard.tier.q(2, 3), |c, idx| {
		let e = gen_expr(c, &Scope::default(), cfg);
		if !shard.mine(idx) {
			return;
		}
		let text = print(&e);
		let ind: &[u8] = if shard.tier == Tier::Thorough && c.used() >= 3 { &[2] } else { indents(shard.tier) };
		for d in decorations(&text, false) {
			journal.note(idx, "comments", &d.text);
			for i in ind {
				check_program(rep, &d.text, *i, Some((d.what, &d.prev, &d.next)), c.used() + 1);
			}
		}
		for (what, t) in decorate_all(&text).into_iter().skip(1) {
			journal.note(idx, "comments", &t);
			for i in ind {
				check_program(rep, &t, *i, Some((what, "<all>", "<all>")), c.used() + 2);
			}
		}
		if idx % 5_003 == 0 {
			rep.sample(|| {
				let d = &decorate_all(&text)[1].1;
				json!({"program": d, "formatted(2)": match fmt(d, 2) { F::Ok(s) => s, o => o.tag().to_owned() }})
			});
		}
	});
	rep.count("decorated_programs", total / shard.n);
}

fn part_strings(shard: &Shard, journal: &Journal, rep: &mut Report) {
	let mut inputs: Vec<String> = crate::c20::text_blocks();
	for_each_seq(ESC.len(), 0, 2, |_, seq| {
		let dq: String = seq.iter().map(|i| ESC[*i].0).collect();
		// inside single quotes the escaped double quote is written plainly and the single quote escaped
		inputs.push(format!("\"{dq}\""));
		inputs.push(format!("'{}'", dq.replace("\\\"", "\"")));
		let raw: String = seq.iter().map(|i| ESC[*i].1).collect();
		inputs.push(format!("@\"{}\"", raw.replace('"', "\"\"")));
		inputs.push(format!("@'{}'", raw.replace('\'', "''")));
		inputs.push(format!("{{ \"{dq}\": 1, f: [\"{dq}\"] }}"));
	});
	for (idx, text) in inputs.iter().enumerate() {
		if !shard.mine(idx as u64) {
			continue;
		}
		journal.note(idx as u64, "strings", text);
		for i in INDENTS {
			check_program(rep, text, i, None, 1);
		}
	}
	rep.count("string_inputs", inputs.len() as u64 / shard.n.max(1));
}

fn replay(v: &Value) -> (bool, String) {
	let text = v["text"].as_str().or_else(|| v["case"].as_str()).unwrap_or("");
	let mut rep = Report::new();
	let indents: Vec<u8> = match v["indent"].as_u64() {
		Some(i) => vec![i as u8],
		None => INDENTS.to_vec(),
	};
	for i in indents {
		check_program(&mut rep, text, i, None, 0);
	}
	let mut out = format!("text: {text:?}\n");
	for (c, (_, ws)) in &rep.violations {
		out.push_str(&format!("class: {c}\n{}\n", ws[0].detail));
	}
	(!rep.violations.is_empty(), out)
}
