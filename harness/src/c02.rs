//! C02 — object inheritance, late binding and visibility (E1 over inheritance chains + reference R2).
//!
//! A chain is a list of layers over a small name alphabet; every layer assigns each name one of the member
//! kinds; layers are joined by `+` or by extension syntax, optionally with std.objectRemoveKey between
//! them.  The composed object is built ONCE (by the implementation and by the reference) and then probed
//! through a fixed probe set; every probe is judged separately.

use jrsonnet_evaluator::{function::{CallLocation, PreparedFuncVal}, Thunk, Val};
use serde_json::{json, Value};

use crate::{
	ast::*,
	common::{fnv, guarded, CheckSpec, Journal, PartSpec, Report, Shard, Tier, Violation},
	enumr::for_each_product,
	imp::{error_out, Imp, Out},
	judge::{compare, Mismatch},
	refi::{env_nil, verdict, Interp, Verdict},
	Check,
};

pub const CHECK: Check = Check {
	id: "C02",
	spec,
	work,
	replay,
};

fn spec(tier: Tier) -> CheckSpec {
	let n = crate::common::ncpu();
	CheckSpec {
		property: "C02",
		level: "exploration",
		rule: "exhaustive: (chain3) every chain of 3 layers over names {a,b} x member kinds (quick: 7 kinds = absent, `:`, `::`, `:::`, `+:`, self-reference, super-reference; thorough: 9 kinds) x both composition syntaxes; \
			(chain2) every chain of 2 layers over all 12 member kinds x layer extras (object local, assert true / assert on self / assert false) x std.objectRemoveKey masks (before layer 2, after layer 2, both; and a layer that is itself the result of a removal, alone and nested in outer removals of the same or the other key) x both syntaxes; thorough adds 3 names for 2 layers (7 kinds) and asserts+masks for 3 layers (4 plain kinds); \
			(deep) chains of 4 and 5 layers with at most 4 non-absent members; (shared) every chain in which one layer *value* (all 12 kinds x object local x assert kinds) occurs at two positions (`m + m`, `L + m + m`, `m + L + m`, L over 7 kinds), and every 2-layer chain whose first layer value is used on its own first (manifested: assertions run, fields cached) and only then extended, over all pairs of 5 assertion kinds including a late-bound `assert self.a[0] == ...`. Every composed object is probed with 23 probes (field read, objectHas, objectHasAll, in, std.get for present/absent names; objectFields, objectFieldsAll, length, objectValues, manifestation, equality with a re-layered copy, super read and `in super` from one more layer on top) and every probe result is compared with the reference object model R2. \
			non-trivial = distinct chain text; failing chains are shrunk (members removed) and the minimal chain keys the class"
			.into(),
		assumptions: vec!["the reference object model in harness/src/refi.rs (layers, masks, visibility merge, assertion timing) is the trusted statement of the language's object semantics".into()],
		parts: vec![PartSpec::new("chain3", n, tier.q(900, 14400)), PartSpec::new("chain2", n, tier.q(900, 14400)), PartSpec::new("deep", n, tier.q(900, 14400)), PartSpec::new("shared", n, tier.q(900, 14400))],
		totality: true,
		exhaustive: true,
		min_outcomes: 20,
	}
}

pub const NAMES: [&str; 3] = ["a", "b", "c"];

/// member kinds
pub const K_ABSENT: u8 = 0;
pub const KINDS_ALL: [u8; 12] = [0, 1, 2, 3, 4, 5, 6, 7, 8, 9, 10, 11];
pub const KINDS_QUICK3: [u8; 7] = [0, 1, 2, 3, 4, 7, 8];

#[derive(Clone, PartialEq, Debug)]
pub struct LayerD {
	pub kinds: Vec<u8>,
	/// 0 none, 1 `assert true`, 2 `assert std.isArray(self.a) || true`-like assert reading self, 3 `assert false`,
	/// 4 `assert self.a[0] == "<layer>a"` (depends on which layer's `a` the composed object sees)
	pub assert_kind: u8,
	/// composed with the previous layers by extension syntax `prev { ... }` instead of `prev + { ... }`
	pub ext: bool,
	/// std.objectRemoveKey(prev, name) applied to everything below before this layer is added
	pub mask_before: Option<usize>,
	/// the layer's own literal goes through std.objectRemoveKey(<literal>, name) before it is added (forces `+` composition)
	pub mask_self: Option<usize>,
}
#[derive(Clone, PartialEq, Debug)]
pub struct Chain {
	pub layers: Vec<LayerD>,
	pub mask_after: Option<usize>,
	pub nnames: usize,
	/// 0: all layers distinct; 1: the last layer's *value* is bound once (`local m = ...`) and appended twice
	/// (`... + m + m`); 2: it is used as first and as last layer (`m + ... + m`);
	/// 3: the FIRST layer's value is bound once, used on its own first (manifested, so its assertions have run and
	/// its fields are cached) and only then extended by the other layers (`local m = L1; local w = std.toString(m); if std.length(w) >= 0 then m + L2 ...`)
	pub dup_last: u8,
}

fn member(kind: u8, li: usize, ni: usize, nnames: usize) -> Option<Field> {
	let name = NAMES[ni];
	let other = NAMES[(ni + 1) % nnames.max(2)];
	let c = Ex::Arr(vec![s(&format!("{}{}", li + 1, name))]);
	let f = |vis: Vis, plus: bool, v: Ex| Some(field(name, vis, plus, v));
	match kind {
		0 => None,
		1 => f(Vis::Normal, false, c),
		2 => f(Vis::Hidden, false, c),
		3 => f(Vis::Unhide, false, c),
		4 => f(Vis::Normal, true, c),
		5 => f(Vis::Hidden, true, c),
		6 => f(Vis::Unhide, true, c),
		7 => f(Vis::Normal, false, dot(Ex::SelfE, other)),
		8 => f(Vis::Normal, false, Ex::Arr(vec![dot(Ex::Super, name)])),
		9 => f(Vis::Normal, false, bin(s(name), BinOp::In, Ex::Super)),
		10 => f(Vis::Normal, false, dot(Ex::Dollar, other)),
		// reads the layer's object local `l = self.<other>`
		11 => f(Vis::Normal, false, var("l")),
		_ => unreachable!(),
	}
}

fn layer_body(chain: &Chain, li: usize) -> ObjBody {
	let l = &chain.layers[li];
	let fields: Vec<Field> = l.kinds.iter().enumerate().filter_map(|(ni, k)| member(*k, li, ni, chain.nnames)).collect();
	let uses_local = l.kinds.contains(&11);
	let locals = if uses_local { vec![Bind::Val("l".into(), dot(Ex::SelfE, NAMES[1 % chain.nnames.max(2)]))] } else { vec![] };
	let asserts = match l.assert_kind {
		0 => vec![],
		1 => vec![(Ex::True, None)],
		2 => vec![(bin(stdcall("objectHas", vec![Ex::SelfE, s("a")]), BinOp::Or, Ex::True), Some(s("reads self")))],
		3 => vec![(Ex::False, Some(s(&format!("assert of layer {}", li + 1))))],
		// late bound: holds for the layer alone when it defines `a` plainly, fails once another layer's `a` is the one `self` sees
		_ => vec![(bin(idx(dot(Ex::SelfE, "a"), num(0.0)), BinOp::Eq, s(&format!("{}a", li + 1))), Some(s(&format!("late bound assert of layer {}", li + 1))))],
	};
	ObjBody::Members { locals, asserts, fields }
}

pub fn build(chain: &Chain) -> Ex {
	let mut cur: Option<Ex> = None;
	let last = chain.layers.len() - 1;
	// the sequence of layer sources: Some(index) = literal of that layer, None = the shared value `m`
	let mut seq: Vec<Option<usize>> = Vec::new();
	match chain.dup_last {
		0 => seq.extend((0..=last).map(Some)),
		1 => {
			seq.extend((0..last).map(Some));
			seq.push(None);
			seq.push(None);
		}
		3 => {
			seq.push(None);
			seq.extend((1..=last).map(Some));
		}
		_ => {
			seq.push(None);
			seq.extend((0..last).map(Some));
			seq.push(None);
		}
	}
	let shared = if chain.dup_last == 3 { 0 } else { last };
	for src in seq {
		let li = src.unwrap_or(shared);
		let l = &chain.layers[li];
		let own = |e: Ex| match l.mask_self {
			Some(ni) => stdcall("objectRemoveKey", vec![e, s(NAMES[ni])]),
			None => e,
		};
		cur = Some(match (cur, src) {
			(None, Some(_)) => own(Ex::Obj(layer_body(chain, li))),
			(None, None) => var("m"),
			(Some(prev), src) => {
				let prev = match l.mask_before {
					Some(ni) => stdcall("objectRemoveKey", vec![prev, s(NAMES[ni])]),
					None => prev,
				};
				match src {
					Some(_) if l.ext && l.mask_self.is_none() => Ex::ObjExt(Box::new(prev), layer_body(chain, li)),
					Some(_) => bin(prev, BinOp::Add, own(Ex::Obj(layer_body(chain, li)))),
					None => bin(prev, BinOp::Add, var("m")),
				}
			}
		});
	}
	let e = cur.expect("at least one layer");
	let e = match chain.mask_after {
		Some(ni) => stdcall("objectRemoveKey", vec![e, s(NAMES[ni])]),
		None => e,
	};
	match chain.dup_last {
		0 => e,
		3 => local1("m", Ex::Obj(layer_body(chain, 0)), local1("w", stdcall("toString", vec![var("m")]), ife(bin(stdcall("length", vec![var("w")]), BinOp::Ge, num(0.0)), e, Ex::Null))),
		_ => local1("m", Ex::Obj(layer_body(chain, last)), e),
	}
}

/// probes: functions of the composed object
pub fn probes(nnames: usize) -> Vec<(String, Ex)> {
	let o = || var("o");
	let mut out: Vec<(String, Ex)> = Vec::new();
	let mut names: Vec<&str> = NAMES[..nnames].to_vec();
	names.push("z");
	for n in &names {
		out.push((format!("o.{n}"), dot(o(), n)));
		out.push((format!("objectHas {n}"), stdcall("objectHas", vec![o(), s(n)])));
		out.push((format!("objectHasAll {n}"), stdcall("objectHasAll", vec![o(), s(n)])));
		out.push((format!("{n} in o"), bin(s(n), BinOp::In, o())));
		out.push((format!("std.get {n}"), stdcall("get", vec![o(), s(n), s("dflt")])));
	}
	out.push(("objectFields".into(), stdcall("objectFields", vec![o()])));
	out.push(("objectFieldsAll".into(), stdcall("objectFieldsAll", vec![o()])));
	out.push(("length".into(), stdcall("length", vec![o()])));
	out.push(("manifest".into(), o()));
	out.push(("objectValues".into(), stdcall("objectValues", vec![o()])));
	out.push(("equals relayered".into(), bin(o(), BinOp::Eq, bin(o(), BinOp::Add, obj(vec![])))));
	out.push(("super.a from above".into(), dot(bin(o(), BinOp::Add, obj(vec![field("zz", Vis::Normal, false, dot(Ex::Super, "a"))])), "zz")));
	out.push(("a in super from above".into(), dot(bin(o(), BinOp::Add, obj(vec![field("zz", Vis::Normal, false, bin(s("a"), BinOp::In, Ex::Super))])), "zz")));
	out.into_iter().map(|(n, body)| (n, func(&["o"], body))).collect()
}

pub struct Prober {
	pub imp: Imp,
	uses: u32,
	pub probe_asts: Vec<(String, Ex)>,
	probe_fns: Vec<PreparedFuncVal>,
}
impl Prober {
	pub fn new(nnames: usize) -> Self {
		Self::with_probes(probes(nnames))
	}
	pub fn with_probes(probe_asts: Vec<(String, Ex)>) -> Self {
		let imp = Imp::new();
		let probe_fns = Self::prepare(&imp, &probe_asts);
		Self { imp, uses: 0, probe_asts, probe_fns }
	}
	fn prepare(imp: &Imp, asts: &[(String, Ex)]) -> Vec<PreparedFuncVal> {
		asts.iter()
			.map(|(_, e)| {
				let Ok(Val::Func(f)) = imp.eval(&print(e)) else { panic!("probe is a function") };
				PreparedFuncVal::new(f, 1, &[]).expect("prepare probe")
			})
			.collect()
	}
	/// implementation: compose once, probe many
	pub fn run_imp(&mut self, chain_text: &str) -> Vec<Out> {
		self.uses += 1;
		if self.uses > 20_000 {
			self.imp = Imp::new();
			self.probe_fns = Self::prepare(&self.imp, &self.probe_asts);
			self.uses = 0;
		}
		let imp = &self.imp;
		let obj = guarded(|| imp.eval(chain_text));
		let n = self.probe_fns.len();
		match obj {
			Err(p) => vec![Out::Panic(p); n],
			Ok(Err(e)) => vec![error_out(&e); n],
			Ok(Ok(v)) => self
				.probe_fns
				.iter()
				.map(|f| {
					let v = v.clone();
					imp.run_val(|| {
						let _g = imp.state.try_enter();
						f.call(CallLocation::native(), &[Thunk::evaluated(v)], &[])
					})
				})
				.collect(),
		}
	}
	/// reference: compose once, probe many
	pub fn run_ref(&self, chain: &Ex) -> Vec<Verdict> {
		let mut it = Interp::new();
		let n = self.probe_asts.len();
		let obj = it.eval(&env_nil(), chain);
		match obj {
			Err(e) => vec![verdict(Err(e)); n],
			Ok(v) => self
				.probe_asts
				.iter()
				.map(|(_, pe)| {
					let r = (|| {
						let f = it.eval(&env_nil(), pe)?;
						let r = it.call_vals(&f, vec![v.clone()])?;
						let mut out = String::new();
						it.manifest_to(&r, &mut out, false)?;
						Ok(out)
					})();
					verdict(r)
				})
				.collect(),
		}
	}
	pub fn first_mismatch(&mut self, chain: &Chain) -> Option<(usize, Mismatch, String, String)> {
		let e = build(chain);
		let text = print(&e);
		let outs = self.run_imp(&text);
		let refs = self.run_ref(&e);
		for (i, (o, v)) in outs.iter().zip(&refs).enumerate() {
			if let Some(m) = compare(v, o) {
				if !m.is_weak() {
					return Some((i, m, format!("{v:?}"), o.short()));
				}
			}
		}
		None
	}
}

fn chain_simplifications(c: &Chain) -> Vec<Chain> {
	let mut out = Vec::new();
	// drop a layer
	if c.layers.len() > 1 {
		for i in 0..c.layers.len() {
			let mut n = c.clone();
			n.layers.remove(i);
			n.layers[0].mask_before = None;
			n.layers[0].ext = false;
			out.push(n);
		}
	}
	if c.mask_after.is_some() {
		let mut n = c.clone();
		n.mask_after = None;
		out.push(n);
	}
	if c.dup_last != 0 {
		let mut n = c.clone();
		n.dup_last = 0;
		out.push(n);
	}
	for i in 0..c.layers.len() {
		let l = &c.layers[i];
		if l.mask_before.is_some() {
			let mut n = c.clone();
			n.layers[i].mask_before = None;
			out.push(n);
		}
		if l.mask_self.is_some() {
			let mut n = c.clone();
			n.layers[i].mask_self = None;
			out.push(n);
		}
		if l.assert_kind != 0 {
			let mut n = c.clone();
			n.layers[i].assert_kind = 0;
			out.push(n);
		}
		if l.ext {
			let mut n = c.clone();
			n.layers[i].ext = false;
			out.push(n);
		}
		for (ni, k) in l.kinds.iter().enumerate() {
			if *k != 0 {
				let mut n = c.clone();
				n.layers[i].kinds[ni] = 0;
				out.push(n);
				if *k != 1 {
					let mut n = c.clone();
					n.layers[i].kinds[ni] = 1;
					out.push(n);
				}
			}
		}
	}
	out
}

fn weight(c: &Chain) -> usize {
	c.layers.len() * 10
		+ c.layers.iter().map(|l| l.kinds.iter().map(|k| if *k == 0 { 0 } else if *k == 1 { 2 } else { 3 }).sum::<usize>() + usize::from(l.assert_kind != 0) * 2 + usize::from(l.mask_before.is_some()) * 2 + usize::from(l.mask_self.is_some()) * 2 + usize::from(l.ext)).sum::<usize>()
		+ usize::from(c.mask_after.is_some()) * 2
		+ usize::from(c.dup_last != 0) * 5
}

pub fn judge_chain(rep: &mut Report, prober: &mut Prober, chain: &Chain, sample: bool, journal: &Journal, idx: u64) {
	let e = build(chain);
	let text = print(&e);
	journal.note(idx, "chain", &text);
	let outs = prober.run_imp(&text);
	let refs = prober.run_ref(&e);
	let mut okey = 0u64;
	for v in &refs {
		okey = okey.wrapping_mul(31).wrapping_add(fnv(format!("{v:?}").as_bytes()));
	}
	rep.case(Some(fnv(text.as_bytes())), okey);
	rep.count("probes", outs.len() as u64);
	if sample {
		rep.sample(|| json!({"chain": text, "probe": prober.probe_asts[0].0, "reference": format!("{:?}", refs[0]), "implementation": outs[0].short()}));
	}
	let mut bad: Option<(usize, Mismatch)> = None;
	for (i, (o, v)) in outs.iter().zip(&refs).enumerate() {
		if matches!(v, Verdict::Unsure(_)) {
			rep.count("reference_unsure_probes", 1);
		}
		if let Some(m) = compare(v, o) {
			if m.is_weak() {
				rep.count(&format!("weak error-class difference: {}", m.key()), 1);
				continue;
			}
			bad = Some((i, m));
			break;
		}
	}
	let Some((pi, m)) = bad else { return };
	let pname = prober.probe_asts[pi].0.clone();
	let family = |name: &str| -> String {
		// the probed field name is not part of the family
		name.split(' ').filter(|w| !["a", "b", "c", "z"].contains(w)).collect::<Vec<_>>().join(" ").replace("o.a", "o.<f>").replace("o.b", "o.<f>").replace("o.c", "o.<f>").replace("o.z", "o.<f>")
	};
	let fam = family(&pname);
	let mkey = m.key();
	// shrink: keep the same probe failing the same way
	let mut cur = chain.clone();
	'outer: loop {
		let mut cands = chain_simplifications(&cur);
		cands.sort_by_key(weight);
		for c in cands {
			if weight(&c) >= weight(&cur) {
				continue;
			}
			if let Some((i2, m2, _, _)) = prober.first_mismatch(&c) {
				if family(&prober.probe_asts[i2].0) == fam && m2.key() == mkey {
					cur = c;
					continue 'outer;
				}
			}
		}
		break;
	}
	let me = build(&cur);
	let mtext = print(&me);
	let (rv, io) = match prober.first_mismatch(&cur) {
		Some((_, _, r, i)) => (r, i),
		None => (String::new(), String::new()),
	};
	// the minimal chain with layer-specific constants abstracted is the class key
	let skel = mtext.replace(|c: char| c.is_ascii_digit(), "N");
	rep.violation(Violation {
		class: format!("probe `{fam}`: {mkey} on {skel}"),
		witness: mtext.clone(),
		detail: format!("probe {pname}\nreference: {rv}\nimplementation: {io}\noriginal chain: {text}"),
		cost: weight(&cur) as u32,
		replay: json!({"kind": "chain", "chain": chain_json(&cur), "probe": pi}),
	});
}

pub fn chain_json(c: &Chain) -> Value {
	json!({
		"nnames": c.nnames,
		"dup_last": c.dup_last,
		"mask_after": c.mask_after,
		"layers": c.layers.iter().map(|l| json!({"kinds": l.kinds, "assert": l.assert_kind, "ext": l.ext, "mask_before": l.mask_before, "mask_self": l.mask_self})).collect::<Vec<_>>(),
	})
}
pub fn chain_from_json(v: &Value) -> Chain {
	Chain {
		nnames: v["nnames"].as_u64().unwrap_or(2) as usize,
		dup_last: v["dup_last"].as_u64().unwrap_or(0) as u8,
		mask_after: v["mask_after"].as_u64().map(|x| x as usize),
		layers: v["layers"]
			.as_array()
			.unwrap()
			.iter()
			.map(|l| LayerD {
				kinds: l["kinds"].as_array().unwrap().iter().map(|k| k.as_u64().unwrap() as u8).collect(),
				assert_kind: l["assert"].as_u64().unwrap_or(0) as u8,
				ext: l["ext"].as_bool().unwrap_or(false),
				mask_before: l["mask_before"].as_u64().map(|x| x as usize),
					mask_self: l["mask_self"].as_u64().map(|x| x as usize),
			})
			.collect(),
	}
}

fn work(shard: &Shard, journal: &Journal, rep: &mut Report) {
	crate::common::limit_memory(6 << 30);
	match shard.part.as_str() {
		"chain3" => part_chain3(shard, journal, rep),
		"chain2" => part_chain2(shard, journal, rep),
		"deep" => part_deep(shard, journal, rep),
		"shared" => part_shared(shard, journal, rep),
		p => panic!("unknown part {p}"),
	}
}

fn part_chain3(shard: &Shard, journal: &Journal, rep: &mut Report) {
	// thorough: 9 kinds (all but the three that differ from `self` only by spelling: `$`, object local, `+::`)
	const KINDS_T3: [u8; 9] = [0, 1, 2, 3, 4, 6, 7, 8, 9];
	let kinds: &[u8] = if shard.tier == Tier::Quick { &KINDS_QUICK3 } else { &KINDS_T3 };
	let mut prober = Prober::new(2);
	let k = kinds.len();
	let dims = [k, k, k, k, k, k, 2, 2];
	let total = for_each_product(&dims, |idx, c| {
		if !shard.mine(idx) {
			return;
		}
		let chain = Chain {
			nnames: 2,
			dup_last: 0,
			mask_after: None,
			layers: (0..3).map(|li| LayerD { kinds: vec![kinds[c[li * 2]], kinds[c[li * 2 + 1]]], assert_kind: 0, ext: li > 0 && c[5 + li] == 1, mask_before: None, mask_self: None }).collect(),
		};
		judge_chain(rep, &mut prober, &chain, idx % 100_003 == 0, journal, idx);
	});
	rep.count("chain3_indexed", total / shard.n);
}

fn part_chain2(shard: &Shard, journal: &Journal, rep: &mut Report) {
	let mut idx = 0u64;
	// (assert kind of layer 1, of layer 2) and (mask before layer 2, mask after) combinations
	let assert_all: Vec<(u8, u8)> = (0..4u8).flat_map(|a| (0..4u8).map(move |b| (a, b))).collect();
	let assert_quick: Vec<(u8, u8)> = vec![(0, 0), (0, 3), (3, 0), (1, 2), (2, 1)];
	type M = (Option<usize>, Option<usize>, Option<usize>, Option<usize>);
	// (removal below layer 2, removal of the result, removal applied to layer 1 alone, removal applied to layer 2 alone)
	let mask = |nn: usize, quick: bool| -> Vec<M> {
		if quick {
			vec![(None, None), (Some(0), None), (None, Some(0)), (Some(1), Some(1)), (Some(0), Some(1))].into_iter().map(|(a, b)| (a, b, None, None)).collect()
		} else {
			let opts: Vec<Option<usize>> = std::iter::once(None).chain((0..nn).map(Some)).collect();
			opts.iter().flat_map(|a| opts.iter().map(move |b| (*a, *b, None, None))).collect()
		}
	};
	// a layer that is itself the result of a removal, alone and nested inside outer removals of the same / the other key
	let mask_own: Vec<M> = vec![
		(None, None, None, Some(0)),
		(None, None, Some(0), None),
		(None, Some(0), None, Some(0)),
		(None, Some(0), Some(0), None),
		(None, Some(1), None, Some(0)),
		(Some(0), None, None, Some(0)),
		(Some(0), Some(0), None, Some(0)),
		(None, Some(0), Some(0), Some(0)),
		(None, None, Some(0), Some(1)),
	];
	let quick = shard.tier == Tier::Quick;
	// plan: (names, member kinds, assert combos, mask combos)
	let mut plans: Vec<(usize, Vec<u8>, Vec<(u8, u8)>, Vec<M>)> = Vec::new();
	if quick {
		plans.push((2, KINDS_ALL.to_vec(), vec![(0, 0)], vec![(None, None, None, None)]));
		plans.push((2, KINDS_QUICK3.to_vec(), assert_quick.clone(), mask(2, true)));
		plans.push((2, KINDS_QUICK3.to_vec(), vec![(0, 0)], mask_own.clone()));
	} else {
		plans.push((2, KINDS_ALL.to_vec(), assert_all.clone(), mask(2, true)));
		plans.push((2, KINDS_QUICK3.to_vec(), vec![(0, 0)], mask(2, false)));
		plans.push((3, KINDS_QUICK3.to_vec(), vec![(0, 0), (0, 3), (3, 0)], mask(3, true)));
		plans.push((2, KINDS_ALL.to_vec(), vec![(0, 0), (0, 3), (3, 0)], mask_own.clone()));
	}
	for (nn, kinds, asserts, masks) in plans {
		let mut prober = Prober::new(nn);
		let k = kinds.len();
		let mut dims = vec![k; nn * 2];
		dims.extend([asserts.len(), masks.len(), 2]);
		let base = idx;
		let total = for_each_product(&dims, |i, c| {
			let gi = base + i;
			if !shard.mine(gi) {
				return;
			}
			let a = nn * 2;
			let (a1, a2) = asserts[c[a]];
			let (mb, ma, ms1, ms2) = masks[c[a + 1]];
			let chain = Chain {
				nnames: nn,
				dup_last: 0,
				mask_after: ma,
				layers: (0..2)
					.map(|li| LayerD { kinds: (0..nn).map(|ni| kinds[c[li * nn + ni]]).collect(), assert_kind: if li == 0 { a1 } else { a2 }, ext: li == 1 && c[a + 2] == 1, mask_before: if li == 1 { mb } else { None }, mask_self: if li == 0 { ms1 } else { ms2 } })
					.collect(),
			};
			judge_chain(rep, &mut prober, &chain, gi % 100_003 == 0, journal, gi);
		});
		idx += total;
	}
	// thorough: 3 layers (5 plain kinds) with masks and asserts
	if !quick {
		let kinds: &[u8] = &[0, 1, 2, 4];
		let k = kinds.len();
		let mut prober = Prober::new(2);
		let dims = [k, k, k, k, k, k, 2, 2, 3, 3, 3, 2, 2, 2];
		let base = idx;
		let total = for_each_product(&dims, |i, c| {
			let gi = base + i;
			if !shard.mine(gi) {
				return;
			}
			let chain = Chain {
				nnames: 2,
				dup_last: 0,
				mask_after: if c[10] == 0 { None } else { Some(c[10] - 1) },
				layers: (0..3)
					.map(|li| LayerD {
						kinds: vec![kinds[c[li * 2]], kinds[c[li * 2 + 1]]],
						assert_kind: [0u8, 3][c[11 + li]],
						ext: li > 0 && c[5 + li] == 1,
						mask_before: if li > 0 && c[7 + li] != 0 { Some(c[7 + li] - 1) } else { None },
						mask_self: None,
					})
					.collect(),
			};
			judge_chain(rep, &mut prober, &chain, gi % 1_000_003 == 0, journal, gi);
		});
		idx += total;
	}
	rep.count("chain2_indexed", idx / shard.n);
}

fn part_deep(shard: &Shard, journal: &Journal, rep: &mut Report) {
	// 4 and 5 layers, at most `budget` non-absent members (deviation bounded), all 12 kinds
	let mut prober = Prober::new(2);
	let budget = shard.tier.q(3, 4);
	let mut base = 0u64;
	for nl in [4usize, 5] {
		let total = crate::enumr::explore(budget, |ch, i| {
			let mut layers = Vec::new();
			for li in 0..nl {
				let ka = ch.choose(KINDS_ALL.len() as u32) as usize;
				let kb = ch.choose(KINDS_ALL.len() as u32) as usize;
				// composition syntax alternates (it is crossed exhaustively in the chain3/chain2 parts)
				let ext = li % 2 == 1;
				layers.push(LayerD { kinds: vec![KINDS_ALL[ka], KINDS_ALL[kb]], assert_kind: 0, ext, mask_before: None, mask_self: None });
			}
			let gi = base + i;
			if !shard.mine(gi) {
				return;
			}
			let chain = Chain { nnames: 2, dup_last: 0, mask_after: None, layers };
			judge_chain(rep, &mut prober, &chain, gi % 100_003 == 0, journal, gi);
		});
		base += total;
	}
	rep.count("deep_indexed", base / shard.n);
}

fn part_shared(shard: &Shard, journal: &Journal, rep: &mut Report) {
	let mut prober = Prober::new(2);
	let k = KINDS_ALL.len();
	let q = KINDS_QUICK3.len();
	let mut base = 0u64;
	// m + m
	let total = for_each_product(&[k, k, 4], |i, c| {
		if !shard.mine(base + i) {
			return;
		}
		let chain = Chain { nnames: 2, dup_last: 1, mask_after: None, layers: vec![LayerD { kinds: vec![KINDS_ALL[c[0]], KINDS_ALL[c[1]]], assert_kind: c[2] as u8, ext: false, mask_before: None, mask_self: None }] };
		judge_chain(rep, &mut prober, &chain, i % 997 == 0, journal, base + i);
	});
	base += total;
	// L + m + m and m + L + m
	for dup in [1u8, 2] {
		let total = for_each_product(&[q, q, k, k, 2], |i, c| {
			if !shard.mine(base + i) {
				return;
			}
			let chain = Chain {
				nnames: 2,
				dup_last: dup,
				mask_after: None,
				layers: vec![
					LayerD { kinds: vec![KINDS_QUICK3[c[0]], KINDS_QUICK3[c[1]]], assert_kind: 0, ext: false, mask_before: None, mask_self: None },
					LayerD { kinds: vec![KINDS_ALL[c[2]], KINDS_ALL[c[3]]], assert_kind: [0u8, 2][c[4]], ext: false, mask_before: None, mask_self: None },
				],
			};
			judge_chain(rep, &mut prober, &chain, i % 9973 == 0, journal, base + i);
		});
		base += total;
	}
	// warmed first layer: m is used alone, then extended by one layer (both syntaxes are `+` here: m is a variable) --
	// late-bound and failing assertions on either side
	let total = for_each_product(&[q, q, k, k, 5, 5], |i, c| {
		if !shard.mine(base + i) {
			return;
		}
		let chain = Chain {
			nnames: 2,
			dup_last: 3,
			mask_after: None,
			layers: vec![
				LayerD { kinds: vec![KINDS_QUICK3[c[0]], KINDS_QUICK3[c[1]]], assert_kind: c[4] as u8, ext: false, mask_before: None, mask_self: None },
				LayerD { kinds: vec![KINDS_ALL[c[2]], KINDS_ALL[c[3]]], assert_kind: c[5] as u8, ext: false, mask_before: None, mask_self: None },
			],
		};
		judge_chain(rep, &mut prober, &chain, i % 9973 == 0, journal, base + i);
	});
	base += total;
	rep.count("shared_indexed", base / shard.n);
}

fn replay(v: &Value) -> (bool, String) {
	let chain = chain_from_json(&v["chain"]);
	let mut prober = Prober::new(chain.nnames);
	let e = build(&chain);
	let text = print(&e);
	let outs = prober.run_imp(&text);
	let refs = prober.run_ref(&e);
	let mut out = format!("chain: {text}\n");
	let mut bad = false;
	for (i, (o, r)) in outs.iter().zip(&refs).enumerate() {
		let m = compare(r, o);
		let is_bad = matches!(&m, Some(x) if !x.is_weak());
		if is_bad || Some(i as u64) == v["probe"].as_u64() {
			out.push_str(&format!("probe `{}`: reference {r:?} implementation {}{}\n", prober.probe_asts[i].0, o.short(), if is_bad { "   <-- MISMATCH" } else { "" }));
		}
		bad |= is_bad;
	}
	(bad, out)
}
