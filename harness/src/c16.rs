//! C16 — results are deterministic and independent of history (E2 histories x enumerated hash orders).
//!
//! Owned sources of nondeterminism: the iteration order of every map keyed by interned strings (hash salt hook, one
//! salt = one "schedule"), the address layout of interned strings (pre-interned pools), the evaluation history of the
//! thread and of the State, and process identity (real executable run several times).

use std::collections::BTreeSet;

use jrsonnet_evaluator::{
	tla::TlaArg,
	trace::{CompactFormat, PathResolver, TraceFormat},
	IStr,
};
use serde_json::{json, Value};

use crate::{
	ast::print,
	c02::{build, Chain, LayerD},
	common::{fnv, guarded, panic_class, CheckSpec, Journal, PartSpec, Report, Shard, Tier, Violation},
	enumr::for_each_product,
	imp::{maybe_collect, Imp},
	Check,
};

pub const CHECK: Check = Check {
	id: "C16",
	spec,
	work,
	replay,
};

fn spec(tier: Tier) -> CheckSpec {
	let n = crate::common::ncpu();
	CheckSpec {
		property: "C16",
		level: "model_checking",
		rule: format!(
			"exhaustive: every program of a corpus built to contain an enumeration or a choice (field listings/manifestation/toString of objects with 3-8 similarly named fields in every declaration order of three names, object comprehensions, merges, removeKey; unknown local / parameter / field / std member / named argument with 3-5 equally similar candidates; objects, arrays and assert lists failing in several places; comprehensions with several duplicate keys; top-level functions called with several missing or unknown arguments; a recursion as deep as the frame limit allows; every 2-layer inheritance chain over 5 member kinds listed and manifested) is evaluated, in a fresh thread per hash salt, under every salt in 0..{} x pre-interned pool in {{0, 1, 100, 10000 strings}}, and under salts {{0, 7}} after every history of length <= {} over {{success, runtime error, frame-limit error, failing assert, object assert failure, large allocation}} run before it on the same thread, once on the same State and once on a fresh State: result or CompactFormat error text byte-identical to the first observation (salt 0, empty pool, no history). (cli) the real executable is run 3 times per corpus program: identical stdout, stderr and exit code. The evidence counts the distinct iteration orders the salts produce on a probe map (>1 required). non-trivial = distinct (program, salt, pool, history) evaluated",
			tier.q(32, 256),
			tier.q(2, 3)
		),
		assumptions: vec![
			"hash order is enumerated through the salt seam (hooks: jrsonnet_interner::verif::set_hash_salt); 'every address-space layout' itself is not enumerable, the pre-interned pools and separate OS processes sample it".into(),
			"top-level arguments are passed in a map keyed by interned strings with a multiply-rotate hasher, as jrsonnet-cli builds it (FxHashMap)".into(),
		],
		parts: vec![PartSpec::new("salts", n, tier.q(900, 14400)), PartSpec::new("hist", n, tier.q(900, 14400)), PartSpec::new("cli", n, tier.q(900, 3600))],
		totality: false,
		exhaustive: true,
		min_outcomes: 10,
	}
}

fn work(shard: &Shard, journal: &Journal, rep: &mut Report) {
	crate::common::limit_memory(8 << 30);
	match shard.part.as_str() {
		"salts" => part_salts(shard, journal, rep),
		"hist" => part_hist(shard, journal, rep),
		"cli" => part_cli(shard, journal, rep),
		p => panic!("unknown part {p}"),
	}
}

// ---------------------------------------------------------------------------------------------
// corpus

#[derive(Clone, Debug)]
pub struct Prog {
	pub family: &'static str,
	pub code: String,
	/// top-level arguments, if the program is a function to be called
	pub tla: Option<Vec<(String, String)>>,
}

fn perms3() -> Vec<[usize; 3]> {
	vec![[0, 1, 2], [0, 2, 1], [1, 0, 2], [1, 2, 0], [2, 0, 1], [2, 1, 0]]
}

pub fn deep_n() -> usize {
	// deepest recursion that succeeds on a clean thread under the default frame limit
	std::thread::Builder::new()
		.stack_size(64 << 20)
		.spawn(|| {
			let mut best = 0;
			for n in 1..400 {
				let imp = Imp::new();
				if matches!(imp.run(&deep_prog(n)), crate::imp::Out::Json(_)) {
					best = n;
				} else {
					break;
				}
			}
			best
		})
		.expect("spawn")
		.join()
		.expect("join")
}
fn deep_prog(n: usize) -> String {
	format!("local f(x) = if x == 0 then 0 else 1 + f(x - 1); f({n})")
}

pub fn corpus(tier: Tier, deep: usize) -> Vec<Prog> {
	let mut out: Vec<Prog> = Vec::new();
	let mut add = |family: &'static str, code: String| out.push(Prog { family, code, tla: None });
	let names_all = ["ab1", "ab2", "ab4", "ab5", "ab6", "ab7", "ab8", "ab9"];
	// listings
	for n in [3usize, 6, 8] {
		let names = &names_all[..n];
		let mut orders: Vec<Vec<&str>> = vec![names.to_vec(), names.iter().rev().copied().collect()];
		if n == 3 {
			orders = perms3().iter().map(|p| p.iter().map(|i| names[*i]).collect()).collect();
		}
		for order in orders {
			let body = order.iter().enumerate().map(|(i, k)| format!("{k}: {i}")).collect::<Vec<_>>().join(", ");
			let hidden = order.iter().enumerate().map(|(i, k)| format!("{k}{} {i}", if i % 2 == 0 { "::" } else { ":" })).collect::<Vec<_>>().join(", ");
			let o = format!("{{ {body} }}");
			add("listing", o.clone());
			add("listing", format!("std.objectFields({o})"));
			add("listing", format!("std.objectFieldsAll({{ {hidden} }})"));
			add("listing", format!("std.objectValues({o})"));
			add("listing", format!("std.objectKeysValues({o})"));
			add("listing", format!("std.toString({o})"));
			add("listing", format!("std.manifestJsonEx({o}, ' ')"));
			add("listing", format!("std.manifestYamlDoc({o})"));
			add("listing", format!("std.manifestTomlEx({o}, ' ')"));
			add("listing", format!("std.manifestPython({o})"));
			add("listing", format!("std.manifestIni({{ sections: {{ s: {o} }} }})"));
			add("listing", format!("{{ [k]: 1 for k in {:?} }}", order));
			add("listing", format!("std.mapWithKey(function(k, v) k + v, {o})"));
			add("listing", format!("{o} + {{ {hidden} }}"));
			add("listing", format!("std.objectFields({{ {hidden} }} + {o})"));
			add("listing", format!("std.prune({o} + {{ z: null }})"));
			add("listing", format!("std.mergePatch({o}, {{ {}: null, zz: 1 }})", order[0]));
			add("listing", format!("std.objectRemoveKey(std.objectRemoveKey({o}, '{}'), '{}')", order[0], order[1]));
			add("listing", format!("[k for k in std.objectFields({o})]"));
			add("listing", format!("std.set({:?})", order));
			add("listing", format!("std.length({o})"));
			add("listing", format!("{o} == {{ {} }}", order.iter().rev().enumerate().map(|(i, k)| format!("{k}: {}", order.len() - 1 - i)).collect::<Vec<_>>().join(", ")));
			add("listing", format!("std.assertEqual({o}, {{ {hidden} }})"));
		}
	}
	// suggestions
	for n in [3usize, 4, 5] {
		let names = &names_all[..n];
		let orders: Vec<Vec<&str>> = if n == 3 { perms3().iter().map(|p| p.iter().map(|i| names[*i]).collect()).collect() } else { vec![names.to_vec(), names.iter().rev().copied().collect()] };
		for order in orders {
			let locals = order.iter().enumerate().map(|(i, k)| format!("{k} = {i}")).collect::<Vec<_>>().join(", ");
			let fields = order.iter().enumerate().map(|(i, k)| format!("{k}: {i}")).collect::<Vec<_>>().join(", ");
			let params = order.join(", ");
			let dparams = order.iter().map(|k| format!("{k} = 0")).collect::<Vec<_>>().join(", ");
			add("suggestion", format!("local {locals}; ab3"));
			add("suggestion", format!("(function({params}) ab3)({})", order.iter().map(|_| "1").collect::<Vec<_>>().join(", ")));
			add("suggestion", format!("{{ {fields} }}.ab3"));
			add("suggestion", format!("{{ {fields}, r: self.ab3 }}.r"));
			add("suggestion", format!("{{ {fields}, r: $.ab3 }}.r"));
			add("suggestion", format!("({{ {fields} }} + {{ r: super.ab3 }}).r"));
			add("suggestion", format!("(function({dparams}) 1)(ab3 = 1)"));
			add("suggestion", format!("(function({params}) 1)()"));
			add("suggestion", format!("(function({params}) 1)(1)"));
			add("suggestion", format!("local o = {{ {fields} }}; o.ab3 + o.ab0"));
		}
	}
	for m in ["objectFeilds", "lenght", "manifestJson2", "maxx", "objectHas2", "isStrin", "parseInt2", "x"] {
		add("suggestion", format!("std.{m}"));
		add("suggestion", format!("std.{m}(1)"));
	}
	// several failures
	for p in perms3() {
		let names: Vec<&str> = p.iter().map(|i| names_all[*i]).collect();
		let f = names.iter().map(|k| format!("{k}: error 'E-{k}'")).collect::<Vec<_>>().join(", ");
		add("several failures", format!("{{ {f} }}"));
		add("several failures", format!("std.objectValues({{ {f} }})"));
		add("several failures", format!("std.toString({{ {f} }})"));
		add("several failures", format!("[{}]", names.iter().map(|k| format!("error 'E-{k}'")).collect::<Vec<_>>().join(", ")));
		add("several failures", format!("{{ {} }}", names.iter().map(|k| format!("assert false : 'A-{k}'")).collect::<Vec<_>>().join(", ") + ", x: 1"));
		add("several failures", format!("{} {{ x: 1 }}", names.iter().map(|k| format!("{{ assert false : 'A-{k}' }} +")).collect::<Vec<_>>().join(" ")));
		add("several failures", format!("{{ [k]: 1 for k in {:?} }}", [names[0], names[1], names[0], names[1], names[2], names[2]]));
		add("several failures", format!("{{ {}: 1, {}: 2, {}: 3, {}: 4 }}", names[0], names[1], names[1], names[0]));
		add("several failures", format!("local {} = 1, {} = 2, {} = 3, {} = 4; 1", names[0], names[1], names[1], names[0]));
		add("several failures", format!("function({}, {}, {}, {}) 1", names[0], names[1], names[1], names[0]));
		add("several failures", format!("(function({}) 1)({})", names.join(", "), names.iter().map(|k| format!("{k} = error 'E-{k}'")).collect::<Vec<_>>().join(", ")));
		add("several failures", format!("(function({}) {} + {} + {})({}) ", names.join(", "), names[0], names[1], names[2], names.iter().map(|k| format!("{k} = error 'E-{k}'")).collect::<Vec<_>>().join(", ")));
		add("several failures", format!("std.sort([{}], function(x) x.k)", names.iter().map(|k| format!("{{ k: error 'E-{k}' }}")).collect::<Vec<_>>().join(", ")));
		add("several failures", format!("std.foldl(function(a, b) a + b, [{}], 0)", names.iter().map(|k| format!("error 'E-{k}'")).collect::<Vec<_>>().join(", ")));
		add("several failures", format!("{{ {f} }} == {{ {f} }}"));
		add("several failures", format!("std.manifestJsonEx({{ {f} }}, ' ')"));
	}
	// top-level functions with several missing / unknown arguments
	for p in perms3() {
		let names: Vec<&str> = p.iter().map(|i| names_all[*i]).collect();
		let f = format!("function({}) 1", names.join(", "));
		out.push(Prog { family: "tla", code: f.clone(), tla: Some(vec![]) });
		out.push(Prog { family: "tla", code: f.clone(), tla: Some(vec![("ab3".into(), "1".into()), ("ab0".into(), "2".into())]) });
		out.push(Prog { family: "tla", code: f.clone(), tla: Some(vec![(names[0].into(), "1".into())]) });
		out.push(Prog { family: "tla", code: f, tla: Some(vec![("zz1".into(), "1".into()), ("zz2".into(), "2".into()), ("zz3".into(), "3".into()), (names[0].into(), "1".into())]) });
		out.push(Prog { family: "tla", code: format!("function({}) [{}]", names.iter().map(|k| format!("{k} = '{k}'")).collect::<Vec<_>>().join(", "), names.join(", ")), tla: Some(vec![(names[1].into(), "\"given\"".into())]) });
	}
	// as deep as the frame limit allows (and one deeper)
	out.push(Prog { family: "deep recursion", code: deep_prog(deep), tla: None });
	out.push(Prog { family: "deep recursion", code: deep_prog(deep.saturating_sub(1)), tla: None });
	out.push(Prog { family: "deep recursion", code: deep_prog(deep + 1), tla: None });
	out.push(Prog { family: "deep recursion", code: format!("local f(x) = if x == 0 then {{ a: 0 }} else {{ a: f(x - 1).a + 1 }}; f({})", deep / 3), tla: None });
	// inheritance chains, listed and manifested
	let kinds: &[u8] = if tier == Tier::Quick { &[0, 1, 2, 3, 4] } else { &[0, 1, 2, 3, 4, 7, 8] };
	let k = kinds.len();
	for_each_product(&[k, k, k, k], |_, c| {
		let chain = Chain {
			nnames: 2,
			dup_last: 0,
			mask_after: None,
			layers: (0..2).map(|li| LayerD { kinds: vec![kinds[c[li * 2]], kinds[c[li * 2 + 1]]], assert_kind: 0, ext: false, mask_before: None, mask_self: None }).collect(),
		};
		let o = print(&build(&chain));
		out.push(Prog { family: "chain", code: format!("local o = {o}; [std.objectFieldsAll(o), o]"), tla: None });
	});
	out
}

// ---------------------------------------------------------------------------------------------
// observation

fn run_on(imp: &Imp, p: &Prog) -> String {
	maybe_collect();
	let r = guarded(|| {
		let v = imp.eval(&p.code)?;
		let v = match &p.tla {
			None => v,
			Some(args) => {
				let _g = imp.state.try_enter();
				// the argument map as the executable builds it: a map keyed by interned strings with a multiply-rotate hasher
				let mut m: rustc_hash_like::Map<TlaArg> = rustc_hash_like::Map::default();
				for (k, code) in args {
					m.insert(k.as_str().into(), TlaArg::InlineCode(code.clone()));
				}
				jrsonnet_evaluator::apply_tla(&m, v)?
			}
		};
		imp.manifest_min(&v)
	});
	match r {
		Ok(Ok(s)) => format!("OK {s}"),
		Ok(Err(e)) => format!("ERR {}", CompactFormat { resolver: PathResolver::Absolute, max_trace: 20, padding: 4 }.format(&e).unwrap_or_default()),
		Err(p) => format!("PANIC {p}"),
	}
}
fn run_fresh(p: &Prog) -> String {
	run_on(&Imp::new(), p)
}

fn in_thread<T: Send + 'static>(f: impl FnOnce() -> T + Send + 'static) -> T {
	std::thread::Builder::new().stack_size(64 << 20).spawn(f).expect("spawn").join().expect("worker thread panicked")
}

const POOLS: [usize; 4] = [0, 1, 100, 10_000];
fn pre_intern(n: usize, salt: usize) -> Vec<IStr> {
	(0..n).map(|i| IStr::from(format!("pre-interned-{salt}-{i}").as_str())).collect()
}

/// iteration order of a probe map under the current salt
fn probe_order() -> Vec<String> {
	let mut m: rustc_hash_like::Map = rustc_hash_like::Map::default();
	for k in ["ab1", "ab2", "ab4", "ab5", "ab6", "ab7", "ab8", "ab9"] {
		m.insert(IStr::from(k), ());
	}
	m.keys().map(ToString::to_string).collect()
}
mod rustc_hash_like {
	//! the same hasher family the implementation uses for its IStr-keyed maps (multiply-rotate), written out here
	//! because the harness has no dependency on rustc-hash
	use std::{
		collections::HashMap,
		hash::{BuildHasherDefault, Hasher},
	};
	#[derive(Default)]
	pub struct Fx(u64);
	impl Hasher for Fx {
		fn finish(&self) -> u64 {
			self.0
		}
		fn write(&mut self, bytes: &[u8]) {
			for b in bytes {
				self.write_u64(u64::from(*b));
			}
		}
		fn write_u64(&mut self, i: u64) {
			self.0 = (self.0.rotate_left(5) ^ i).wrapping_mul(0x51_7c_c1_b7_27_22_0a_95);
		}
		fn write_usize(&mut self, i: usize) {
			self.write_u64(i as u64);
		}
	}
	pub type Map<V = ()> = HashMap<jrsonnet_evaluator::IStr, V, BuildHasherDefault<Fx>>;
}

fn diff_class(family: &str, a: &str, b: &str) -> String {
	let kind = |s: &str| s.split(' ').next().unwrap_or("").to_owned();
	if kind(a) != kind(b) {
		return format!("{family}: {} becomes {}", kind(a), kind(b));
	}
	// same kind: describe the first differing line by its leading words
	let (la, lb): (Vec<&str>, Vec<&str>) = (a.lines().collect(), b.lines().collect());
	let i = (0..la.len().max(lb.len())).find(|i| la.get(*i) != lb.get(*i)).unwrap_or(0);
	let head = |l: Option<&&str>| l.map_or("<none>".to_owned(), |l| l.trim().split(|c: char| c.is_ascii_digit() || c == '\'' || c == '"' || c == '<').next().unwrap_or("").chars().take(48).collect::<String>());
	format!("{family}: {} text differs at line {} (`{}`)", kind(a), i + 1, head(la.get(i)))
}

fn violation(p: &Prog, variant: &str, base: &str, got: &str, cost: u32, replay: Value) -> Violation {
	Violation {
		class: format!("output depends on {}: {}", variant.split(' ').next().unwrap_or(""), diff_class(p.family, base, got)),
		witness: format!("{}{}", p.code, p.tla.as_ref().map_or(String::new(), |a| format!("   with top-level arguments {a:?}"))),
		detail: format!("variant: {variant}\nreference observation (part salts: salt 0, empty pool; part hist: same salt, no history):\n{base}\nthis observation:\n{got}"),
		cost,
		replay,
	}
}

fn part_salts(shard: &Shard, journal: &Journal, rep: &mut Report) {
	let deep = deep_n();
	let progs = corpus(shard.tier, deep);
	rep.count("corpus_programs", progs.len() as u64 / shard.n.max(1));
	rep.count("deepest recursion under the default frame limit", deep as u64 / shard.n.max(1));
	let mine: Vec<(usize, Prog)> = progs.into_iter().enumerate().filter(|(i, _)| shard.mine(*i as u64)).collect();
	let base: Vec<String> = {
		let m = mine.clone();
		in_thread(move || m.iter().map(|(_, p)| run_fresh(p)).collect())
	};
	let nsalts = shard.tier.q(32, 256);
	let mut orders: BTreeSet<Vec<String>> = BTreeSet::new();
	for salt in 0..nsalts {
		let m = mine.clone();
		let (order, outs): (Vec<String>, Vec<Vec<String>>) = in_thread(move || {
			jrsonnet_interner::verif::set_hash_salt(salt);
			let order = probe_order();
			let mut outs = Vec::new();
			for pool in POOLS {
				let keep = pre_intern(pool, salt);
				outs.push(m.iter().map(|(_, p)| run_fresh(p)).collect());
				drop(keep);
			}
			(order, outs)
		});
		orders.insert(order);
		for (pi, pool) in POOLS.iter().enumerate() {
			for (k, (idx, p)) in mine.iter().enumerate() {
				journal.note(*idx as u64, "salts", &p.code);
				let got = &outs[pi][k];
				rep.case(Some(fnv(format!("{idx}/{salt}/{pool}").as_bytes())), fnv(got.as_bytes()));
				if *got != base[k] {
					rep.violation(violation(p, &format!("hash order / address layout (salt {salt}, {pool} pre-interned strings)"), &base[k], got, (salt + pi) as u32, json!({"kind": "salt", "prog": idx, "salt": salt, "pool": pool, "tier": shard.tier.name()})));
				}
			}
		}
	}
	rep.states.extend(orders.iter().map(|o| fnv(o.join(",").as_bytes())));
	rep.count("distinct probe-map iteration orders over the salts", orders.len() as u64 / shard.n.max(1));
	if orders.len() < 2 {
		rep.violation(Violation {
			class: "MACHINERY: the hash salt seam does not change iteration order".into(),
			witness: "probe map".into(),
			detail: format!("{orders:?}"),
			cost: 0,
			replay: json!({"kind": "probe"}),
		});
	}
	if shard.idx == 0 {
		rep.sample(|| json!({"probe_orders": orders.iter().take(4).collect::<Vec<_>>(), "first_observations": mine.iter().zip(&base).take(6).map(|((_, p), b)| json!([p.code, b])).collect::<Vec<_>>()}));
	}
}

// --- histories -----------------------------------------------------------------------------------

const HIST: [(&str, &str); 6] = [
	("success", "{ a: 1, b: [1, 2] }"),
	("runtime error", "{ a: error 'history' }"),
	("frame-limit error", "local f(x) = f(x + 1) + 1; f(0)"),
	("failing assert", "assert false : 'history'; 1"),
	("object assert failure", "{ assert self.a == 2 : 'history', a: 1 }"),
	("large allocation", "std.length(std.repeat('x', 2000000)) + std.length(std.range(0, 300000))"),
];

fn run_with_history(p: &Prog, hist: &[usize], same_state: bool) -> String {
	let imp = Imp::new();
	for h in hist {
		let hp = Prog { family: "history", code: HIST[*h].1.to_owned(), tla: None };
		let _ = run_on(&imp, &hp);
	}
	if same_state {
		run_on(&imp, p)
	} else {
		run_fresh(p)
	}
}

fn part_hist(shard: &Shard, journal: &Journal, rep: &mut Report) {
	let deep = deep_n();
	let progs = corpus(shard.tier, deep);
	let mine: Vec<(usize, Prog)> = progs.into_iter().enumerate().filter(|(i, p)| shard.mine(*i as u64) && (p.family != "chain" || i % 5 == 0)).collect();
	let maxlen = shard.tier.q(2, 3);
	let mut hists: Vec<Vec<usize>> = Vec::new();
	crate::enumr::for_each_seq(HIST.len(), 1, maxlen, |_, s| hists.push(s.to_vec()));
	for (idx, p) in &mine {
		for salt in [0usize, 7] {
			// the reference observation of this part: same salt, no history (hash order is the business of part `salts`)
			let p1 = p.clone();
			let base = in_thread(move || {
				jrsonnet_interner::verif::set_hash_salt(salt);
				run_fresh(&p1)
			});
			let (p2, hs) = (p.clone(), hists.clone());
			// one fresh thread per (program, salt): every history runs on it one after the other, so the thread itself
			// accumulates the histories too
			let outs: Vec<(String, String)> = in_thread(move || {
				jrsonnet_interner::verif::set_hash_salt(salt);
				hs.iter().map(|h| (run_with_history(&p2, h, true), run_with_history(&p2, h, false))).collect()
			});
			for (h, (same, fresh)) in hists.iter().zip(outs) {
				let hname = h.iter().map(|i| HIST[*i].0).collect::<Vec<_>>().join(", ");
				journal.note(*idx as u64, "hist", &format!("[{hname}] then {}", p.code));
				rep.transitions += h.len() as u64 + 1;
				rep.traces_validated += 1;
				for (mode, got) in [("same State", same), ("fresh State", fresh)] {
					rep.case(Some(fnv(format!("{idx}/{salt}/{h:?}/{mode}").as_bytes())), fnv(got.as_bytes()));
					if got != base {
						rep.violation(violation(p, &format!("history ([{hname}] evaluated before, {mode}, salt {salt})"), &base, &got, h.len() as u32, json!({"kind": "hist", "prog": idx, "salt": salt, "hist": h, "tier": shard.tier.name()})));
					}
				}
			}
		}
	}
}

// --- real executable -----------------------------------------------------------------------------

fn part_cli(shard: &Shard, journal: &Journal, rep: &mut Report) {
	use std::process::Command;
	let deep = deep_n();
	let progs = corpus(shard.tier, deep);
	let bin = format!("{}/target/repo/debug/jrsonnet", crate::common::verif_root());
	for (idx, p) in progs.iter().enumerate() {
		if !shard.mine(idx as u64) || (p.family == "chain" && idx % 7 != 0) {
			continue;
		}
		journal.note(idx as u64, "cli", &p.code);
		let run = || {
			let mut c = Command::new(&bin);
			c.env("RUST_BACKTRACE", "0").arg("-e").arg(&p.code);
			if let Some(args) = &p.tla {
				for (k, v) in args {
					c.arg("--tla-code").arg(format!("{k}={v}"));
				}
			}
			let o = c.output().expect("spawn jrsonnet (built by ./check)");
			format!("exit {:?}\nstdout:\n{}stderr:\n{}", o.status.code(), String::from_utf8_lossy(&o.stdout), String::from_utf8_lossy(&o.stderr))
		};
		let first = run();
		rep.case(Some(fnv(p.code.as_bytes())), fnv(first.as_bytes()));
		for k in 0..2 {
			let again = run();
			if again != first {
				rep.violation(Violation {
					class: format!("output depends on the process: {}", diff_class(p.family, &first.replace('\n', " | "), &again.replace('\n', " | "))),
					witness: format!("jrsonnet -e {:?}{}", p.code, p.tla.as_ref().map_or(String::new(), |a| format!(" with --tla-code {a:?}"))),
					detail: format!("run 1:\n{first}\nrun {}:\n{again}", k + 2),
					cost: 1,
					replay: json!({"kind": "cli", "prog": idx, "tier": shard.tier.name()}),
				});
				break;
			}
		}
	}
}

fn replay(v: &Value) -> (bool, String) {
	crate::common::limit_memory(8 << 30);
	let tier = if v["tier"] == "thorough" { Tier::Thorough } else { Tier::Quick };
	let progs = corpus(tier, deep_n());
	let Some(p) = progs.get(v["prog"].as_u64().unwrap_or(0) as usize).cloned() else {
		return (false, "unknown program index".into());
	};
	let shown = format!("{}{}", p.code, p.tla.as_ref().map_or(String::new(), |a| format!("   with top-level arguments {a:?}")));
	// the observations themselves vary from process to process when the property is violated: the replay text only
	// states the verdict (the coordinator compares the text of two replays)
	match v["kind"].as_str().unwrap_or("") {
		"salt" => {
			let p1 = p.clone();
			let base = in_thread(move || run_fresh(&p1));
			let mut differing = 0;
			for salt in 0..64usize {
				let (p2, b) = (p.clone(), base.clone());
				differing += in_thread(move || {
					jrsonnet_interner::verif::set_hash_salt(salt);
					POOLS.iter().filter(|pool| {
						let _keep = pre_intern(**pool, salt);
						run_fresh(&p2) != b
					}).count()
				});
			}
			(differing > 0, format!("{shown}\noutput differs from the salt-0 observation under some of 64 salts x 4 pools: {}", differing > 0))
		}
		"hist" => {
			let h: Vec<usize> = v["hist"].as_array().map(|a| a.iter().map(|x| x.as_u64().unwrap_or(0) as usize).collect()).unwrap_or_default();
			let mut differs = false;
			for salt in [0usize, 7] {
				let (p2, h2) = (p.clone(), h.clone());
				differs |= in_thread(move || {
					jrsonnet_interner::verif::set_hash_salt(salt);
					let base = run_fresh(&p2);
					run_with_history(&p2, &h2, true) != base || run_with_history(&p2, &h2, false) != base
				});
			}
			(differs, format!("{shown}\nafter history [{}]: output differs from the no-history observation: {differs}", h.iter().map(|i| HIST[*i].0).collect::<Vec<_>>().join(", ")))
		}
		"cli" => {
			let bin = format!("{}/target/repo/debug/jrsonnet", crate::common::verif_root());
			let run = || {
				let mut c = std::process::Command::new(&bin);
				c.env("RUST_BACKTRACE", "0").arg("-e").arg(&p.code);
				if let Some(args) = &p.tla {
					for (k, v) in args {
						c.arg("--tla-code").arg(format!("{k}={v}"));
					}
				}
				let o = c.output().expect("spawn jrsonnet");
				format!("exit {:?}\nstdout:\n{}stderr:\n{}", o.status.code(), String::from_utf8_lossy(&o.stdout), String::from_utf8_lossy(&o.stderr))
			};
			let runs: Vec<String> = (0..12).map(|_| run()).collect();
			let differs = runs.iter().any(|r| *r != runs[0]);
			(differs, format!("{shown}\n12 runs of the executable print different text: {differs}"))
		}
		k => (false, format!("unknown replay kind {k}")),
	}
}
