//! C07 — imports resolve, load and evaluate as specified (E2 histories + fault enumeration on the real resolver).
//!
//! The system under test is a real `State` whose resolver is the real `FileImportResolver` (built by the real
//! `MiscOpts::import_resolver` from `-J` flags and `JSONNET_PATH`) over a scratch directory tree, wrapped in a
//! recorder that logs every resolve/load call and can fail the next one.

use std::{
	cell::{Cell, RefCell},
	collections::{BTreeMap, BTreeSet, HashMap, VecDeque},
	fs,
	path::{Path, PathBuf},
	rc::Rc,
};

use clap::Parser as _;
use jrsonnet_cli::MiscOpts;
use jrsonnet_evaluator::{error::ErrorKind, trace::PathResolver, AsPathLike, FileImportResolver, ImportResolver, State};
use jrsonnet_gcmodule::Acyclic;
use jrsonnet_ir::{Source, SourceDirectory, SourceFile, SourcePath};
use jrsonnet_stdlib::ContextInitializer;
use serde_json::{json, Value};

use crate::{
	ast::*,
	common::{fnv, guarded, scratch_dir, CheckSpec, Journal, PartSpec, Report, Shard, Tier, Violation},
	enumr::{for_each_product, for_each_seq},
	imp::{error_out, maybe_collect, CollectTraces, Out},
	judge::compare,
	refi::{verdict, Interp, Verdict},
	Check,
};

pub const CHECK: Check = Check {
	id: "C07",
	spec,
	work,
	replay,
};

fn spec(tier: Tier) -> CheckSpec {
	let n = crate::common::ncpu();
	CheckSpec {
		property: "C07",
		level: "model_checking",
		rule: format!(
			"exhaustive, on the real FileImportResolver over a scratch directory tree, through a recording/fault-injecting wrapper: \
			(layouts) a file placed in every subset of {{importer dir, J1, J2, E1}} with per-directory contents x every -J flag sequence over {{J1,J2}} (5) x JSONNET_PATH in {{unset, E1, E1:J1, J1:E1}} (search path assembled by the real MiscOpts::import_resolver through clap) x import kind (3) x path spelling {{plain, ./, sub/../, absolute}} x importer location {{main file, a library file itself found through the search path}}: the winner must be the first existing candidate in (importer dir, -J right-most first, JSONNET_PATH in order), otherwise a not-found error; \
			(graphs) every import digraph on files m, a, b with each of the 6 possible edges in {{absent, strict import, lazy import that is read, lazy import that is never read, importstr, importbin}} ({} graphs; several spellings and a symlink reach the same file): result equal to the reference interpreter's (strict cycle = error, lazy cycle = value), every canonical file loaded at most once and evaluated at most once, never-read imports not loaded, loaded set = files the reference needs; \
			(hist) all histories of length <= {} over {} operations (import/importstr/importbin of 13 targets: plain files, nested import, symlink and dotted spellings of the same file, syntax error, runtime error, file importing the failing file, strict cycle, lazy cycle, missing, directory, non-UTF-8, empty; inject a one-shot fault into the next resolve / the next load) on one persistent State, plus a breadth-first search merging states by model key (cached files, evaluated files, pending faults) to depth {}: each operation's outcome must equal its outcome in a fresh state unless an injected fault fires in it (then an error carrying the injected message), fault consumption must follow the cache model (a load happens exactly for files not yet cached), loads per canonical file <= 1, no re-evaluation of a successfully evaluated file, importstr/importbin byte-exact. \
			non-trivial = distinct case with at least one resolver call",
			tier.q(4096, 46656),
			tier.q(3, 4),
			HIST_OPS_N,
			tier.q(6, 9)
		),
		assumptions: vec![
			"the file system answers of the scratch tree (ext4/overlay under target/scratch) are deterministic; unreadable (mode 000) targets are not enumerated because the harness runs as root, for which permission bits are not enforced".into(),
			"async_import.rs is not driven (it needs an executor and is not used by the CLI or bindings paths listed in the property)".into(),
		],
		parts: vec![PartSpec::new("layouts", n.min(8), tier.q(900, 3600)), PartSpec::new("graphs", n, tier.q(900, 7200)), PartSpec::new("hist", n, tier.q(900, 14400))],
		totality: true,
		exhaustive: true,
		min_outcomes: 10,
	}
}

// ---------------------------------------------------------------------------------------------
// scratch tree + recording resolver

pub struct Tree {
	pub root: PathBuf,
}
impl Tree {
	pub fn new(tag: &str) -> Self {
		let root = scratch_dir().join(format!("c07-{tag}"));
		let _ = fs::remove_dir_all(&root);
		for d in ["main/sub", "J1", "J2/sub", "E1"] {
			fs::create_dir_all(root.join(d)).expect("mkdir");
		}
		let root = root.canonicalize().expect("canonical scratch root");
		Self { root }
	}
	pub fn p(&self, rel: &str) -> PathBuf {
		self.root.join(rel)
	}
	pub fn write(&self, rel: &str, bytes: &[u8]) {
		fs::write(self.p(rel), bytes).expect("write scratch file");
	}
	pub fn remove(&self, rel: &str) {
		let _ = fs::remove_file(self.p(rel));
	}
	pub fn rel(&self, p: &Path) -> String {
		p.strip_prefix(&self.root).map_or_else(|_| p.display().to_string(), |r| r.display().to_string())
	}
}
impl Drop for Tree {
	fn drop(&mut self) {
		let _ = fs::remove_dir_all(&self.root);
		// the per-process parent, when empty
		if let Some(parent) = self.root.parent() {
			let _ = fs::remove_dir(parent);
		}
	}
}

#[derive(Clone, Debug, PartialEq)]
pub enum Ev {
	Resolve { path: String, to: Option<String>, injected: bool },
	Load { file: String, ok: bool, injected: bool },
}

#[derive(Default)]
pub struct Faults {
	pub resolve: Cell<bool>,
	pub load: Cell<bool>,
}

const INJECTED_RESOLVE: &str = "INJECTED resolver failure (resolve)";
const INJECTED_LOAD: &str = "INJECTED resolver failure (load)";

#[derive(Acyclic)]
pub struct RecResolver {
	inner: FileImportResolver,
	root: PathBuf,
	log: Rc<RefCell<Vec<Ev>>>,
	faults: Rc<Faults>,
}
impl RecResolver {
	fn rel(&self, p: &SourcePath) -> String {
		let path = p.downcast_ref::<SourceFile>().map(|f| f.path().to_owned()).or_else(|| p.path().map(Path::to_owned));
		match path {
			Some(p) => p.strip_prefix(&self.root).map_or_else(|_| p.display().to_string(), |r| r.display().to_string()),
			None => format!("{p}"),
		}
	}
}
impl ImportResolver for RecResolver {
	fn resolve_from(&self, from: &SourcePath, path: &dyn AsPathLike) -> jrsonnet_evaluator::Result<SourcePath> {
		let spelled = {
			let p: &Path = &path.as_path().as_ref().to_owned();
			p.strip_prefix(&self.root).map_or_else(|_| p.display().to_string(), |r| format!("<abs>/{}", r.display()))
		};
		if self.faults.resolve.replace(false) {
			self.log.borrow_mut().push(Ev::Resolve { path: spelled, to: None, injected: true });
			return Err(ErrorKind::RuntimeError(INJECTED_RESOLVE.into()).into());
		}
		let r = self.inner.resolve_from(from, path);
		self.log.borrow_mut().push(Ev::Resolve { path: spelled, to: r.as_ref().ok().map(|p| self.rel(p)), injected: false });
		r
	}
	fn resolve_from_default(&self, path: &dyn AsPathLike) -> jrsonnet_evaluator::Result<SourcePath> {
		self.resolve_from(&SourcePath::default(), path)
	}
	fn load_file_contents(&self, resolved: &SourcePath) -> jrsonnet_evaluator::Result<Vec<u8>> {
		let file = self.rel(resolved);
		if self.faults.load.replace(false) {
			self.log.borrow_mut().push(Ev::Load { file, ok: false, injected: true });
			return Err(ErrorKind::RuntimeError(INJECTED_LOAD.into()).into());
		}
		let r = self.inner.load_file_contents(resolved);
		self.log.borrow_mut().push(Ev::Load { file, ok: r.is_ok(), injected: false });
		r
	}
}

pub struct Sys {
	pub state: State,
	pub log: Rc<RefCell<Vec<Ev>>>,
	pub faults: Rc<Faults>,
	pub traces: Rc<RefCell<Vec<String>>>,
	pub main_dir: PathBuf,
}
impl Sys {
	pub fn new(tree: &Tree, inner: FileImportResolver) -> Self {
		let log = Rc::new(RefCell::new(Vec::new()));
		let faults = Rc::new(Faults::default());
		let traces = Rc::new(RefCell::new(Vec::new()));
		let ci = ContextInitializer::new(PathResolver::Absolute);
		ci.settings_mut().trace_printer = Rc::new(CollectTraces { events: traces.clone() });
		let mut b = State::builder();
		b.context_initializer(ci).import_resolver(RecResolver {
			inner,
			root: tree.root.clone(),
			log: log.clone(),
			faults: faults.clone(),
		});
		Self {
			state: b.build(),
			log,
			faults,
			traces,
			main_dir: tree.p("main"),
		}
	}
	/// evaluate + manifest `code` as if it were given with `-e` in the importer directory
	pub fn run(&self, code: &str) -> Out {
		maybe_collect();
		let r = guarded(|| {
			let _g = self.state.try_enter();
			let source = Source::new(SourcePath::new(SourceDirectory::new(self.main_dir.clone())), code.into());
			let parsed = jrsonnet_ir_parser::parse(code, &jrsonnet_ir_parser::ParserSettings { source: source.clone() }).expect("harness snippet parses");
			jrsonnet_evaluator::evaluate(self.state.create_default_context(source), &parsed).and_then(|v| v.manifest(jrsonnet_evaluator::manifest::JsonFormat::minify()))
		});
		match r {
			Ok(Ok(s)) => Out::Json(s),
			Ok(Err(e)) => error_out(&e),
			Err(p) => Out::Panic(p),
		}
	}
	pub fn take_log(&self) -> Vec<Ev> {
		std::mem::take(&mut *self.log.borrow_mut())
	}
	pub fn take_traces(&self) -> Vec<String> {
		std::mem::take(&mut *self.traces.borrow_mut())
	}
}

fn kind_kw(k: usize) -> &'static str {
	["import", "importstr", "importbin"][k]
}
fn bytes_json(b: &[u8]) -> String {
	format!("[{}]", b.iter().map(u8::to_string).collect::<Vec<_>>().join(","))
}
fn str_json(b: &[u8]) -> String {
	serde_json::to_string(std::str::from_utf8(b).expect("utf8 content")).expect("json")
}

fn out_key(o: &Out) -> u64 {
	match o {
		Out::Json(s) => fnv(format!("v{s}").as_bytes()),
		Out::Err(c, _) => fnv(format!("e{c}").as_bytes()),
		Out::Panic(p) => fnv(format!("p{p}").as_bytes()),
	}
}

fn work(shard: &Shard, journal: &Journal, rep: &mut Report) {
	crate::common::limit_memory(6 << 30);
	match shard.part.as_str() {
		"layouts" => part_layouts(shard, journal, rep),
		"graphs" => part_graphs(shard, journal, rep),
		"hist" => part_hist(shard, journal, rep),
		p => panic!("unknown part {p}"),
	}
}

// ---------------------------------------------------------------------------------------------
// layouts: search order, shadowing, spellings, kinds

const DIRS: [&str; 4] = ["main", "J1", "J2", "E1"];
const JFLAGS: [&[&str]; 5] = [&[], &["J1"], &["J2"], &["J1", "J2"], &["J2", "J1"]];
const ENVS: [&[&str]; 4] = [&[], &["E1"], &["E1", "J1"], &["J1", "E1"]];
const SPELLINGS: [&str; 4] = ["t.libsonnet", "./t.libsonnet", "sub/../t.libsonnet", "<abs>"];
/// directories that contain a `sub` directory (so that `sub/../t` can be walked there)
const HAS_SUB: [&str; 2] = ["main", "J2"];

#[derive(Clone, Debug)]
struct Layout {
	present: u8,
	jflags: usize,
	env: usize,
	kind: usize,
	spelling: usize,
	via_lib: bool,
}
impl Layout {
	fn to_json(&self) -> Value {
		json!({"kind": "layout", "present": self.present, "jflags": self.jflags, "env": self.env, "ikind": self.kind, "spelling": self.spelling, "via_lib": self.via_lib})
	}
	fn from_json(v: &Value) -> Self {
		let g = |k: &str| v[k].as_u64().unwrap_or(0);
		Self {
			present: g("present") as u8,
			jflags: g("jflags") as usize,
			env: g("env") as usize,
			kind: g("ikind") as usize,
			spelling: g("spelling") as usize,
			via_lib: v["via_lib"].as_bool().unwrap_or(false),
		}
	}
	fn describe(&self) -> String {
		let present: Vec<&str> = DIRS.iter().enumerate().filter(|(i, _)| self.present & (1 << i) != 0).map(|(_, d)| *d).collect();
		format!(
			"t.libsonnet present in {present:?}; flags {}; JSONNET_PATH={:?}; {} {:?} from {}",
			JFLAGS[self.jflags].iter().map(|j| format!("-J {j}")).collect::<Vec<_>>().join(" "),
			ENVS[self.env].join(":"),
			kind_kw(self.kind),
			SPELLINGS[self.spelling],
			if self.via_lib { "J1/u.libsonnet (itself imported from main as 'u.libsonnet')" } else { "main" }
		)
	}
}

fn content_for(dir: &str) -> Vec<u8> {
	format!("{{ from: \"{dir}\" }}\n").into_bytes()
}

fn build_resolver(tree: &Tree, l: &Layout) -> FileImportResolver {
	let mut args: Vec<String> = vec!["jrsonnet".into()];
	for j in JFLAGS[l.jflags] {
		args.push("-J".into());
		args.push(tree.p(j).display().to_string());
	}
	if ENVS[l.env].is_empty() {
		std::env::remove_var("JSONNET_PATH");
	} else {
		let joined = std::env::join_paths(ENVS[l.env].iter().map(|e| tree.p(e))).expect("join");
		std::env::set_var("JSONNET_PATH", joined);
	}
	let opts = MiscOpts::try_parse_from(args).expect("clap accepts -J");
	let r = opts.import_resolver();
	std::env::remove_var("JSONNET_PATH");
	r
}

/// model: ordered candidate directories
fn search_order(l: &Layout, importer_dir: &'static str) -> Vec<&'static str> {
	let mut v = vec![importer_dir];
	v.extend(JFLAGS[l.jflags].iter().rev().copied());
	v.extend(ENVS[l.env].iter().copied());
	v
}

fn layout_case(tree: &Tree, l: &Layout) -> (Option<Violation>, Out, usize) {
	for (i, d) in DIRS.iter().enumerate() {
		if l.present & (1 << i) != 0 {
			tree.write(&format!("{d}/t.libsonnet"), &content_for(d));
		} else {
			tree.remove(&format!("{d}/t.libsonnet"));
		}
	}
	let spelled = if l.spelling == 3 { tree.p("main/t.libsonnet").display().to_string() } else { SPELLINGS[l.spelling].to_owned() };
	let import_expr = format!("{} {}", kind_kw(l.kind), quote(&spelled));
	let code = if l.via_lib {
		tree.write("J1/u.libsonnet", format!("{{ inner: {import_expr} }}").as_bytes());
		"(import 'u.libsonnet').inner".to_owned()
	} else {
		import_expr
	};
	let sys = Sys::new(tree, build_resolver(tree, l));
	let out = sys.run(&code);
	let log = sys.take_log();

	// model
	let has = |d: &str| l.present & (1 << DIRS.iter().position(|x| *x == d).expect("dir")) != 0;
	let order_main = search_order(l, "main");
	let u_found = !l.via_lib || order_main.contains(&"J1");
	let winner: Option<&str> = if !u_found {
		None
	} else {
		let order = if l.via_lib { search_order(l, "J1") } else { order_main };
		match l.spelling {
			3 => has("main").then_some("main"),
			2 => order.into_iter().find(|d| HAS_SUB.contains(d) && has(d)),
			_ => order.into_iter().find(|d| has(d)),
		}
	};
	let expected: Result<String, &str> = match winner {
		Some(d) => {
			let c = content_for(d);
			Ok(match l.kind {
				0 => format!("{{\"from\":\"{d}\"}}"),
				1 => str_json(&c),
				_ => bytes_json(&c),
			})
		}
		None => Err("ImportFileNotFound"),
	};
	let ok = match (&expected, &out) {
		(Ok(e), Out::Json(s)) => e == s,
		(Err(c), Out::Err(oc, _)) => c == oc,
		_ => false,
	};
	let v = (!ok).then(|| Violation {
		class: format!(
			"resolution order: {} [{} spelling, {}]",
			match (&expected, &out) {
				(Ok(_), Out::Json(_)) => "wrong file wins".to_owned(),
				(Ok(_), o) => format!("expected a file, got {}", o.short().chars().take(40).collect::<String>()),
				(Err(_), Out::Json(_)) => "expected not-found, got a value".to_owned(),
				(Err(_), Out::Err(c, _)) => format!("expected ImportFileNotFound, got {c}"),
				(Err(_), Out::Panic(p)) => crate::common::panic_class(p),
			},
			["plain", "./", "sub/../", "absolute"][l.spelling],
			if l.via_lib { "importer in a library dir" } else { "importer in main" }
		),
		witness: l.describe(),
		detail: format!("expected {expected:?}\nobserved {}\nresolver log: {log:?}", out.short()),
		cost: (l.present.count_ones() + JFLAGS[l.jflags].len() as u32 + ENVS[l.env].len() as u32),
		replay: l.to_json(),
	});
	(v, out, log.len())
}

fn part_layouts(shard: &Shard, journal: &Journal, rep: &mut Report) {
	let tree = Tree::new("layouts");
	for_each_product(&[16, JFLAGS.len(), ENVS.len(), 3, SPELLINGS.len(), 2], |idx, c| {
		if !shard.mine(idx) {
			return;
		}
		let l = Layout { present: c[0] as u8, jflags: c[1], env: c[2], kind: c[3], spelling: c[4], via_lib: c[5] == 1 };
		journal.note(idx, "layout", &l.describe());
		let (v, out, calls) = layout_case(&tree, &l);
		rep.case((calls > 0).then_some(idx), out_key(&out));
		if idx % 997 == 0 {
			rep.sample(|| json!({"layout": l.describe(), "observed": out.short()}));
		}
		if let Some(v) = v {
			rep.violation(v);
		}
	});
}

// ---------------------------------------------------------------------------------------------
// graphs

pub const GFILES: [&str; 3] = ["m", "a", "b"];
/// edge sources x targets: (from, to) for from in m,a,b and to in a,b
pub const EDGES: [(usize, usize); 6] = [(0, 1), (0, 2), (1, 1), (1, 2), (2, 1), (2, 2)];
pub const E_NONE: u8 = 0;
pub const E_STRICT: u8 = 1;
pub const E_LAZY_READ: u8 = 2;
pub const E_LAZY_UNREAD: u8 = 3;
pub const E_STR: u8 = 4;
pub const E_BIN: u8 = 5;
const EDGE_NAMES: [&str; 6] = ["-", "strict", "lazy-read", "lazy-unread", "importstr", "importbin"];

/// how file `from` spells the path of file `to` (all spellings denote main/<to>.libsonnet)
fn spelling(from: usize, to: usize, opt: u8) -> String {
	let t = GFILES[to];
	match (from, opt) {
		(0, _) => format!("{t}.libsonnet"),
		(1, E_STR | E_BIN) => format!("sub/../{t}.libsonnet"),
		(1, _) => format!("./{t}.libsonnet"),
		(_, E_STR | E_BIN) => format!("{t}.libsonnet"),
		_ => format!("ln_{t}.libsonnet"),
	}
}

pub fn graph_file(from: usize, edges: &[u8]) -> Ex {
	let name = GFILES[from];
	let mut binds = Vec::new();
	let mut asserts: Vec<Ex> = Vec::new();
	let mut fields = vec![field("name", Vis::Normal, false, s(name))];
	for (ei, (f, t)) in EDGES.iter().enumerate() {
		if *f != from || edges[ei] == E_NONE {
			continue;
		}
		let tn = GFILES[*t];
		let sp = spelling(from, *t, edges[ei]);
		match edges[ei] {
			E_STRICT => {
				let v = format!("s_{tn}");
				binds.push(Bind::Val(v.clone(), Ex::Import(ImportKind::Code, sp)));
				asserts.push(stdcall("isString", vec![dot(var(&v), "name")]));
				fields.push(field(&format!("strict_{tn}"), Vis::Normal, false, dot(var(&v), "name")));
			}
			E_LAZY_READ => fields.push(field(&format!("lazy_{tn}"), Vis::Normal, false, dot(Ex::Import(ImportKind::Code, sp), "name"))),
			E_LAZY_UNREAD => fields.push(field(&format!("unread_{tn}"), Vis::Hidden, false, dot(Ex::Import(ImportKind::Code, sp), "name"))),
			E_STR => fields.push(field(&format!("str_{tn}"), Vis::Normal, false, Ex::Import(ImportKind::Str, sp))),
			_ => fields.push(field(&format!("bin_{tn}"), Vis::Normal, false, stdcall("length", vec![Ex::Import(ImportKind::Bin, sp)]))),
		}
	}
	let mut body = obj(fields);
	for a in asserts.into_iter().rev() {
		body = Ex::Assert(Box::new(a), None, Box::new(body));
	}
	if !binds.is_empty() {
		body = Ex::Local(binds, Box::new(body));
	}
	stdcall("trace", vec![s(&format!("EVAL:{name}")), body])
}

pub fn graph_describe(edges: &[u8]) -> String {
	EDGES.iter().enumerate().filter(|(i, _)| edges[*i] != E_NONE).map(|(i, (f, t))| format!("{}-{}->{}", GFILES[*f], EDGE_NAMES[edges[i] as usize], GFILES[*t])).collect::<Vec<_>>().join(" ")
}

fn graph_case(tree: &Tree, edges: &[u8]) -> (Vec<Violation>, Out, Verdict) {
	let files: Vec<Ex> = (0..3).map(|f| graph_file(f, edges)).collect();
	let texts: Vec<String> = files.iter().map(print).collect();
	for (i, t) in texts.iter().enumerate() {
		tree.write(&format!("main/{}.libsonnet", GFILES[i]), t.as_bytes());
	}
	// reference
	let main_ex = Ex::Import(ImportKind::Code, "m.libsonnet".into());
	let (v, ref_traces) = {
		let mut it = Interp::new();
		for (i, f) in files.iter().enumerate() {
			let canon = format!("{}.libsonnet", GFILES[i]);
			it.files.insert(canon.clone(), f);
			it.file_strs.insert(canon.clone(), texts[i].clone().into_bytes());
			for sp in [format!("./{canon}"), format!("sub/../{canon}"), format!("ln_{canon}")] {
				it.file_alias.insert(sp, canon.clone());
			}
		}
		let r = it.run(&main_ex);
		(verdict(r), std::mem::take(&mut it.traces))
	};
	// implementation
	let sys = Sys::new(tree, FileImportResolver::new(vec![]));
	let out = sys.run("import 'm.libsonnet'");
	let log = sys.take_log();
	let traces = sys.take_traces();

	let mut vs = Vec::new();
	let desc = graph_describe(edges);
	let mk = |class: String, detail: String| Violation {
		class,
		witness: desc.clone(),
		detail: format!("{detail}\nfiles:\n{}", texts.iter().enumerate().map(|(i, t)| format!("  {}.libsonnet: {t}", GFILES[i])).collect::<Vec<_>>().join("\n")),
		cost: edges.iter().filter(|e| **e != E_NONE).count() as u32,
		replay: json!({"kind": "graph", "edges": edges}),
	};
	if let Some(m) = compare(&v, &out) {
		if !m.is_weak() {
			vs.push(mk(format!("import graph result: {}", m.key()), format!("reference: {v:?}\nimplementation: {}", out.short())));
		}
	}
	let mut loads: BTreeMap<String, u32> = BTreeMap::new();
	for e in &log {
		if let Ev::Load { file, ok: true, .. } = e {
			*loads.entry(file.clone()).or_default() += 1;
		}
	}
	if let Some((f, n)) = loads.iter().find(|(_, n)| **n > 1) {
		vs.push(mk("a file is loaded more than once in one state".into(), format!("{f} loaded {n} times; log: {log:?}")));
	}
	let mut evals: BTreeMap<&str, u32> = BTreeMap::new();
	for t in &traces {
		*evals.entry(t.as_str()).or_default() += 1;
	}
	if let Some((f, n)) = evals.iter().find(|(_, n)| **n > 1) {
		vs.push(mk("a file is evaluated more than once in one state".into(), format!("{f} traced {n} times")));
	}
	if matches!(v, Verdict::Value(_)) && matches!(out, Out::Json(_)) {
		// evaluated set: exactly the files the reference evaluated
		let r: BTreeSet<&str> = ref_traces.iter().map(String::as_str).collect();
		let i: BTreeSet<&str> = traces.iter().map(String::as_str).collect();
		if r != i {
			vs.push(mk("set of evaluated files differs from the reference".into(), format!("reference evaluated {r:?}, implementation {i:?}")));
		}
		// loaded set: reachable through read edges
		let mut need: BTreeSet<String> = BTreeSet::new();
		need.insert("main/m.libsonnet".into());
		for (ei, (f, t)) in EDGES.iter().enumerate() {
			let from_evaluated = r.contains(format!("EVAL:{}", GFILES[*f]).as_str());
			// only the root file is manifested as a whole: the fields of a and b other than `name` are never read
			if from_evaluated && (edges[ei] == E_STRICT || (*f == 0 && matches!(edges[ei], E_LAZY_READ | E_STR | E_BIN))) {
				need.insert(format!("main/{}.libsonnet", GFILES[*t]));
			}
		}
		let got: BTreeSet<String> = loads.keys().cloned().collect();
		if need != got {
			vs.push(mk("set of loaded files differs from the files the program needs".into(), format!("needed {need:?}, loaded {got:?}; log: {log:?}")));
		}
	}
	(vs, out, v)
}

pub fn setup_graph_tree(tree: &Tree) {
	for t in ["a", "b"] {
		let link = tree.p(&format!("main/ln_{t}.libsonnet"));
		let _ = fs::remove_file(&link);
		std::os::unix::fs::symlink(format!("{t}.libsonnet"), &link).expect("symlink");
	}
}

fn part_graphs(shard: &Shard, journal: &Journal, rep: &mut Report) {
	let tree = Tree::new("graphs");
	setup_graph_tree(&tree);
	let opts: &[u8] = if shard.tier == Tier::Quick { &[E_NONE, E_STRICT, E_LAZY_READ, E_STR] } else { &[E_NONE, E_STRICT, E_LAZY_READ, E_LAZY_UNREAD, E_STR, E_BIN] };
	let mut plan: Vec<Vec<u8>> = Vec::new();
	for_each_product(&[opts.len(); 6], |_, c| plan.push(c.iter().map(|i| opts[*i]).collect()));
	if shard.tier == Tier::Quick {
		// every single-edge and two-edge graph with the remaining options too
		for_each_product(&[6, 6, 6, 6], |_, c| {
			let mut e = vec![E_NONE; 6];
			e[c[0]] = [E_LAZY_UNREAD, E_BIN, E_STRICT, E_LAZY_READ, E_STR, E_NONE][c[1]];
			e[c[2]] = [E_LAZY_UNREAD, E_BIN, E_STRICT, E_LAZY_READ, E_STR, E_NONE][c[3]];
			plan.push(e);
		});
	}
	for (idx, edges) in plan.iter().enumerate() {
		let idx = idx as u64;
		if !shard.mine(idx) {
			continue;
		}
		let d = graph_describe(edges);
		journal.note(idx, "graph", &d);
		let (vs, out, v) = graph_case(&tree, edges);
		let sure = !matches!(v, Verdict::Unsure(_));
		if !sure {
			rep.count("reference_unsure", 1);
		}
		rep.case(sure.then(|| fnv(d.as_bytes())), out_key(&out));
		if idx % 1511 == 0 {
			rep.sample(|| json!({"graph": d, "reference": format!("{v:?}"), "implementation": out.short()}));
		}
		for v in vs {
			rep.violation(v);
		}
	}
}

// ---------------------------------------------------------------------------------------------
// histories with faults on a persistent state

struct Target {
	/// spelling used by the operation
	path: &'static str,
	/// expected outcome of `import` in a fresh state: Ok(json) or Err(error class alternatives)
	code: Result<&'static str, &'static [&'static str]>,
	/// canonical file (relative to the tree root) whose bytes importstr/importbin return, if any
	file: Option<&'static str>,
}

const HIST_FILES: [(&str, &[u8]); 12] = [
	("main/a.libsonnet", b"std.trace('EVAL:a', { name: 'a', b: import 'b.libsonnet' })"),
	("main/b.libsonnet", b"std.trace('EVAL:b', { name: 'b' })"),
	("main/syn.libsonnet", b"std.trace('EVAL:syn', { unclosed: "),
	("main/err.libsonnet", b"std.trace('EVAL:err', error 'boom')"),
	("main/ie.libsonnet", b"std.trace('EVAL:ie', { v: import 'err.libsonnet' })"),
	("main/c1.libsonnet", b"std.trace('EVAL:c1', (import 'c2.libsonnet') + 1)"),
	("main/c2.libsonnet", b"std.trace('EVAL:c2', (import 'c1.libsonnet') + 1)"),
	("main/l1.libsonnet", b"std.trace('EVAL:l1', { x: 1, y: (import 'l2.libsonnet').z })"),
	("main/l2.libsonnet", b"std.trace('EVAL:l2', { z: (import 'l1.libsonnet').x })"),
	("main/bin.dat", &[0xff, 0xfe, 0x41]),
	("main/empty.libsonnet", b""),
	("J1/lib.libsonnet", b"std.trace('EVAL:lib', { name: 'lib', b: import 'b.libsonnet' })"),
];

const TARGETS: [Target; 13] = [
	Target { path: "a.libsonnet", code: Ok(r#"{"b":{"name":"b"},"name":"a"}"#), file: Some("main/a.libsonnet") },
	Target { path: "b.libsonnet", code: Ok(r#"{"name":"b"}"#), file: Some("main/b.libsonnet") },
	Target { path: "ln_b.libsonnet", code: Ok(r#"{"name":"b"}"#), file: Some("main/b.libsonnet") },
	Target { path: "sub/../b.libsonnet", code: Ok(r#"{"name":"b"}"#), file: Some("main/b.libsonnet") },
	Target { path: "syn.libsonnet", code: Err(&["ImportSyntaxError"]), file: Some("main/syn.libsonnet") },
	Target { path: "err.libsonnet", code: Err(&["RuntimeError"]), file: Some("main/err.libsonnet") },
	Target { path: "ie.libsonnet", code: Err(&["RuntimeError"]), file: Some("main/ie.libsonnet") },
	Target { path: "c1.libsonnet", code: Err(&["InfiniteRecursionDetected", "StackOverflow"]), file: Some("main/c1.libsonnet") },
	Target { path: "l1.libsonnet", code: Ok(r#"{"x":1,"y":1}"#), file: Some("main/l1.libsonnet") },
	Target { path: "missing.libsonnet", code: Err(&["ImportFileNotFound"]), file: None },
	Target { path: "d.libsonnet", code: Err(&["RuntimeError", "ImportIsADirectory", "ImportIo"]), file: None },
	Target { path: "bin.dat", code: Err(&["ImportBadFileUtf8"]), file: Some("main/bin.dat") },
	// found through the library path; its own import of b is resolved through the library path as well (J1 has no b)
	Target { path: "lib.libsonnet", code: Ok(r#"{"b":{"name":"b"},"name":"lib"}"#), file: Some("J1/lib.libsonnet") },
];
const N_IMPORT_OPS: usize = TARGETS.len() * 3;
const OP_FAULT_RESOLVE: usize = N_IMPORT_OPS;
const OP_FAULT_LOAD: usize = N_IMPORT_OPS + 1;
pub const HIST_OPS_N: usize = N_IMPORT_OPS + 2;

fn op_name(op: usize) -> String {
	match op {
		OP_FAULT_RESOLVE => "fault:next-resolve".into(),
		OP_FAULT_LOAD => "fault:next-load".into(),
		_ => format!("{} '{}'", kind_kw(op % 3), TARGETS[op / 3].path),
	}
}

fn setup_hist_tree(tree: &Tree) {
	for (p, c) in HIST_FILES {
		tree.write(p, c);
	}
	fs::create_dir_all(tree.p("main/d.libsonnet")).expect("mkdir");
	let link = tree.p("main/ln_b.libsonnet");
	let _ = fs::remove_file(&link);
	std::os::unix::fs::symlink("b.libsonnet", &link).expect("symlink");
	// J2 shadows nothing but holds a decoy b that must never win over main/b (importer-relative first)
	tree.write("J1/decoy.libsonnet", b"{}");
}

fn hist_sys(tree: &Tree) -> Sys {
	Sys::new(tree, FileImportResolver::new(vec![tree.p("J1"), tree.p("main")]))
}

#[derive(Clone, Debug)]
struct OpObs {
	out: Out,
	log: Vec<Ev>,
	traces: Vec<String>,
}
fn run_op(sys: &Sys, op: usize) -> OpObs {
	match op {
		OP_FAULT_RESOLVE => {
			sys.faults.resolve.set(true);
			OpObs { out: Out::Json("null".into()), log: vec![], traces: vec![] }
		}
		OP_FAULT_LOAD => {
			sys.faults.load.set(true);
			OpObs { out: Out::Json("null".into()), log: vec![], traces: vec![] }
		}
		_ => {
			let t = &TARGETS[op / 3];
			let out = sys.run(&format!("{} {}", kind_kw(op % 3), quote(t.path)));
			OpObs { out, log: sys.take_log(), traces: sys.take_traces() }
		}
	}
}

/// outcomes of every operation in a fresh state, validated against the table above
struct Baseline {
	obs: Vec<OpObs>,
	/// canonical files loaded (in order) by the op in a fresh state
	loads: Vec<Vec<String>>,
}
fn baseline(tree: &Tree) -> (Baseline, Vec<Violation>) {
	let mut vs = Vec::new();
	let mut obs = Vec::new();
	let mut loads = Vec::new();
	for op in 0..N_IMPORT_OPS {
		let sys = hist_sys(tree);
		let o = run_op(&sys, op);
		let t = &TARGETS[op / 3];
		let content: Option<Vec<u8>> = t.file.map(|f| fs::read(tree.p(f)).expect("content"));
		let ok = match (op % 3, &o.out) {
			(0, Out::Json(s)) => t.code == Ok(s.as_str()),
			(0, Out::Err(c, _)) => t.code.is_err_and(|cs| cs.contains(&c.as_str())),
			(1, Out::Json(s)) => content.as_ref().is_some_and(|c| std::str::from_utf8(c).is_ok() && *s == str_json(c)),
			(1, Out::Err(c, _)) => match &content {
				None => t.code.is_err_and(|cs| cs.contains(&c.as_str())),
				Some(bytes) => std::str::from_utf8(bytes).is_err() && c == "ImportBadFileUtf8",
			},
			(2, Out::Json(s)) => content.as_ref().is_some_and(|c| *s == bytes_json(c)),
			(2, Out::Err(c, _)) => content.is_none() && t.code.is_err_and(|cs| cs.contains(&c.as_str())),
			_ => false,
		};
		if !ok {
			vs.push(Violation {
				class: format!("fresh state: {} of a {} target gives the wrong outcome", kind_kw(op % 3), t.path.split('.').next().unwrap_or("")),
				witness: op_name(op),
				detail: format!("expected {:?} (for import) / exact contents (for importstr, importbin), observed {}\nlog: {:?}", t.code, o.out.short(), o.log),
				cost: 1,
				replay: json!({"kind": "hist", "ops": [op]}),
			});
		}
		loads.push(o.log.iter().filter_map(|e| if let Ev::Load { file, .. } = e { Some(file.clone()) } else { None }).collect());
		obs.push(o);
	}
	(Baseline { obs, loads }, vs)
}

/// model state of a history
#[derive(Clone, Default, Debug, PartialEq, Eq, Hash, PartialOrd, Ord)]
struct MState {
	cached: BTreeSet<String>,
	evaluated: BTreeSet<String>,
	pending_resolve: bool,
	pending_load: bool,
}

fn same_outcome(a: &Out, b: &Out) -> bool {
	match (a, b) {
		(Out::Json(x), Out::Json(y)) => x == y,
		(Out::Err(c1, m1), Out::Err(c2, m2)) => c1 == c2 && m1 == m2,
		_ => false,
	}
}

/// runs a history on a fresh persistent state, checking every step against the model; returns the first divergence
fn run_history(tree: &Tree, base: &Baseline, ops: &[usize]) -> (Option<(String, String)>, MState, Vec<String>) {
	let sys = hist_sys(tree);
	let mut m = MState::default();
	let mut outs = Vec::new();
	let mut total_loads: HashMap<String, u32> = HashMap::new();
	let names: Vec<String> = ops.iter().map(|o| op_name(*o)).collect();
	for (step, &op) in ops.iter().enumerate() {
		let o = run_op(&sys, op);
		outs.push(o.out.short());
		let at = |what: &str| format!("step {} ({}) of [{}]: {what}", step + 1, op_name(op), names.join(", "));
		match op {
			OP_FAULT_RESOLVE => {
				m.pending_resolve = true;
				continue;
			}
			OP_FAULT_LOAD => {
				m.pending_load = true;
				continue;
			}
			_ => {}
		}
		if let Out::Panic(p) = &o.out {
			return (Some((format!("history: {}", crate::common::panic_class(p)), at(&format!("panic {p}")))), m, outs);
		}
		let injected_resolve = o.log.iter().any(|e| matches!(e, Ev::Resolve { injected: true, .. }));
		let injected_load = o.log.iter().any(|e| matches!(e, Ev::Load { injected: true, .. }));
		// model: which loads does this op need, given the cache
		let needed: Vec<&String> = base.loads[op].iter().filter(|f| !m.cached.contains(*f)).collect();
		let expect_resolve_fault = m.pending_resolve;
		let expect_load_fault = !expect_resolve_fault && m.pending_load && !needed.is_empty();
		// invariants on the log
		for e in &o.log {
			if let Ev::Load { file, ok: true, .. } = e {
				let n = total_loads.entry(file.clone()).or_default();
				*n += 1;
				if *n > 1 {
					return (Some(("history: a file is loaded again although the state already holds it".into(), at(&format!("{file} loaded {n} times; log of this step: {:?}", o.log)))), m, outs);
				}
			}
		}
		for t in &o.traces {
			if m.evaluated.contains(t) {
				return (Some(("history: a successfully evaluated file is evaluated again".into(), at(&format!("{t} traced again")))), m, outs);
			}
		}
		if injected_resolve != expect_resolve_fault || injected_load != expect_load_fault {
			return (
				Some((
					"history: resolver calls differ from the cache model".into(),
					at(&format!("model expected resolve-fault={expect_resolve_fault} load-fault={expect_load_fault} (loads needed: {needed:?}), implementation fired resolve-fault={injected_resolve} load-fault={injected_load}; log {:?}", o.log)),
				)),
				m,
				outs,
			);
		}
		if injected_resolve || injected_load {
			let want = if injected_resolve { INJECTED_RESOLVE } else { INJECTED_LOAD };
			let ok = matches!(&o.out, Out::Err(_, msg) if msg.contains(want));
			if !ok {
				return (Some(("history: an injected resolver failure does not surface as that error".into(), at(&format!("observed {}", o.out.short())))), m, outs);
			}
		} else if !same_outcome(&o.out, &base.obs[op].out) {
			if let Out::Err(_, msg) = &o.out {
				if msg.contains("INJECTED") {
					// no fault fired in this step: the failure of an earlier step is served again from a cache
					return (
						Some(("history: an injected resolver failure that has cleared is reported again on retry".into(), at(&format!("fresh state gives {}, this state gives {}\nlog {:?}", base.obs[op].out.short(), o.out.short(), o.log)))),
						m,
						outs,
					);
				}
			}
			let kind = match (&base.obs[op].out, &o.out) {
				(Out::Json(_), Out::Json(_)) => "different value".to_owned(),
				(Out::Json(_), Out::Err(c, _)) => format!("value in a fresh state, error {c} here"),
				(Out::Err(c, _), Out::Json(_)) => format!("error {c} in a fresh state, value here"),
				(Out::Err(c1, _), Out::Err(c2, _)) if c1 != c2 => format!("error {c1} in a fresh state, error {c2} here"),
				_ => "different error text".to_owned(),
			};
			return (
				Some((format!("history: outcome differs from the fresh-state outcome ({kind})"), at(&format!("fresh state gives {}, this state gives {}\nlog {:?}", base.obs[op].out.short(), o.out.short(), o.log)))),
				m,
				outs,
			);
		}
		// model update
		if injected_resolve {
			m.pending_resolve = false;
		}
		if injected_load {
			m.pending_load = false;
		}
		for e in &o.log {
			if let Ev::Load { file, ok: true, .. } = e {
				m.cached.insert(file.clone());
			}
		}
		if matches!(o.out, Out::Json(_)) {
			for t in &o.traces {
				m.evaluated.insert(t.clone());
			}
		}
	}
	(None, m, outs)
}

fn hist_violation(ops: &[usize], class: String, detail: String) -> Violation {
	Violation {
		class,
		witness: ops.iter().map(|o| op_name(*o)).collect::<Vec<_>>().join(", "),
		detail,
		cost: ops.len() as u32 + ops.iter().filter(|o| **o >= N_IMPORT_OPS).count() as u32,
		replay: json!({"kind": "hist", "ops": ops}),
	}
}

fn part_hist(shard: &Shard, journal: &Journal, rep: &mut Report) {
	let tree = Tree::new("hist");
	setup_hist_tree(&tree);
	let (base, vs) = baseline(&tree);
	if shard.idx == 0 {
		for v in vs {
			rep.violation(v);
		}
		rep.sample(|| json!({"fresh_state_outcomes": (0..N_IMPORT_OPS).map(|op| json!([op_name(op), base.obs[op].out.short(), base.loads[op]])).collect::<Vec<_>>()}));
	}
	let depth = if shard.tier == Tier::Quick { 3 } else { 4 };
	let mut global = 0u64;
	// (1) every history up to `depth`, no merging
	for_each_seq(HIST_OPS_N, 1, depth, |idx, seq| {
		global = idx + 1;
		if !shard.mine(idx) {
			return;
		}
		// histories ending in a fault injection observe nothing new
		if *seq.last().expect("non-empty") >= N_IMPORT_OPS {
			return;
		}
		one_history(&tree, &base, seq, idx, journal, rep);
	});
	// (2) breadth-first search with states merged by model key, to a larger depth; every worker owns the frontier
	// states whose key hashes to it (the frontier is recomputed identically in every worker)
	let bfs_depth = if shard.tier == Tier::Quick { 6 } else { 9 };
	// a smaller alphabet keeps the merged search closed: code imports of every target + importstr/importbin of three + faults
	let alphabet: Vec<usize> = (0..HIST_OPS_N).filter(|op| *op >= N_IMPORT_OPS || op % 3 == 0 || [0usize, 5, 11].contains(&(op / 3))).collect();
	let mut seen: BTreeSet<MState> = BTreeSet::new();
	seen.insert(MState::default());
	let mut frontier: VecDeque<(Vec<usize>, MState)> = VecDeque::new();
	frontier.push_back((vec![], MState::default()));
	let mut idx = global;
	while let Some((hist, _st)) = frontier.pop_front() {
		if hist.len() >= bfs_depth {
			continue;
		}
		for &op in &alphabet {
			let mut h = hist.clone();
			h.push(op);
			idx += 1;
			// the successor key is needed by every worker (it decides the frontier); the checks are reported by the owner only
			let owner = shard.mine(idx);
			if owner {
				journal.note(idx, "bfs", &h.iter().map(|o| op_name(*o)).collect::<Vec<_>>().join(", "));
			}
			let (div, m, outs) = run_history(&tree, &base, &h);
			if owner {
				rep.transitions += 1;
				rep.traces_validated += 1;
				rep.case(Some(fnv(format!("{h:?}").as_bytes())), fnv(outs.join("|").as_bytes()));
				if let Some((class, detail)) = &div {
					rep.violation(hist_violation(&h, class.clone(), detail.clone()));
				}
			}
			if div.is_none() && seen.insert(m.clone()) {
				if owner {
					rep.states.insert(fnv(format!("{m:?}").as_bytes()));
				}
				frontier.push_back((h, m));
			}
		}
	}
	rep.count("bfs_model_states", seen.len() as u64 / shard.n.max(1));
}

fn one_history(tree: &Tree, base: &Baseline, seq: &[usize], idx: u64, journal: &Journal, rep: &mut Report) {
	let names: Vec<String> = seq.iter().map(|o| op_name(*o)).collect();
	journal.note(idx, "hist", &names.join(", "));
	let (div, m, outs) = run_history(tree, base, seq);
	rep.states.insert(fnv(format!("{m:?}").as_bytes()));
	rep.transitions += seq.len() as u64;
	rep.traces_validated += seq.len() as u64;
	rep.case(Some(fnv(names.join(",").as_bytes())), fnv(outs.join("|").as_bytes()));
	if idx % 4001 == 0 {
		rep.sample(|| json!({"history": names, "outcomes": outs, "model_state": format!("{m:?}")}));
	}
	if let Some((class, detail)) = div {
		rep.violation(hist_violation(seq, class, detail));
	}
}

// ---------------------------------------------------------------------------------------------

fn replay(v: &Value) -> (bool, String) {
	let (violated, text) = replay_inner(v);
	// error texts carry absolute paths below the per-process scratch directory
	let scratch = scratch_dir().display().to_string();
	let canon = fs::canonicalize(scratch_dir()).map(|p| p.display().to_string()).unwrap_or_default();
	let _ = fs::remove_dir(scratch_dir());
	(violated, text.replace(&canon, "<scratch>").replace(&scratch, "<scratch>"))
}
fn replay_inner(v: &Value) -> (bool, String) {
	crate::common::limit_memory(6 << 30);
	match v["kind"].as_str().unwrap_or("") {
		"layout" => {
			let tree = Tree::new("replay");
			let l = Layout::from_json(v);
			let (viol, out, _) = layout_case(&tree, &l);
			(viol.is_some(), format!("{}\nobserved: {}\n{}", l.describe(), out.short(), viol.map(|x| x.detail).unwrap_or_default()))
		}
		"graph" => {
			let tree = Tree::new("replay");
			setup_graph_tree(&tree);
			let edges: Vec<u8> = v["edges"].as_array().map(|a| a.iter().map(|x| x.as_u64().unwrap_or(0) as u8).collect()).unwrap_or_default();
			let (vs, out, r) = graph_case(&tree, &edges);
			(!vs.is_empty(), format!("{}\nreference: {r:?}\nobserved: {}\n{}", graph_describe(&edges), out.short(), vs.iter().map(|x| format!("{}: {}", x.class, x.detail)).collect::<Vec<_>>().join("\n")))
		}
		"hist" => {
			let tree = Tree::new("replay");
			setup_hist_tree(&tree);
			let (base, bvs) = baseline(&tree);
			let ops: Vec<usize> = v["ops"].as_array().map(|a| a.iter().map(|x| x.as_u64().unwrap_or(0) as usize).collect()).unwrap_or_default();
			if ops.len() == 1 {
				if let Some(b) = bvs.iter().find(|b| b.replay["ops"][0].as_u64() == Some(ops[0] as u64)) {
					return (true, format!("{}: {}", b.class, b.detail));
				}
			}
			let (div, m, outs) = run_history(&tree, &base, &ops);
			(div.is_some(), format!("history {:?}\noutcomes {outs:?}\nmodel state {m:?}\n{}", ops.iter().map(|o| op_name(*o)).collect::<Vec<_>>(), div.map(|(c, d)| format!("{c}: {d}")).unwrap_or_default()))
		}
		"journal" => {
			// a case that killed its worker: re-run it from its journal text
			let text = v["case"].as_str().or_else(|| v["text"].as_str()).unwrap_or("");
			(true, format!("worker died while running: {text}"))
		}
		k => (false, format!("unknown replay kind {k}")),
	}
}
