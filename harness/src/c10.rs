//! C10 — stdlib array, set and higher-order functions match their reference definitions (E1 + R4).

use serde_json::{json, Value};

use crate::{
	ast::*,
	c01::{verdict_from_json, verdict_json, Runner},
	common::{fnv, CheckSpec, Journal, PartSpec, Report, Shard, Tier, Violation},
	enumr::for_each_seq,
	judge::compare,
	refi::{run_program, Verdict},
	Check,
};

pub const CHECK: Check = Check {
	id: "C10",
	spec,
	work,
	replay,
};

fn spec(tier: Tier) -> CheckSpec {
	let n = crate::common::ncpu();
	CheckSpec {
		property: "C10",
		level: "exploration",
		rule: "exhaustive: every function named by the property applied to every applicable argument tuple from: all arrays of length <= 6 (thorough 8) over {1,2,3}; all arrays of length <= 4 over the mixed alphabet {1, \"a\", null, true, [1], [[2]]}; all pairs of sets over a 6-element universe (ascending, and descending for the negating key); index arguments -3..len+3; the function pool {none, identity, negate, x%2, [x%2,x], partial (fails on 2), type-changing} as keyF, {true,false,even,failing} as predicate, a non-commutative string fold; separators and nested arrays for join/lines/deepJoin/flatten*. \
			Oracle: the reference definitions in harness/src/refstd.rs (stable ordered permutation for std.sort; two-pointer merges for the set functions; errors exactly where the definition errors). non-trivial = distinct call text whose reference verdict is a value or an error"
			.into(),
		assumptions: vec!["the reference definitions (transcribed from the documented std.jsonnet definitions) are trusted; set functions on non-set inputs and a few zones marked Unsure are not judged (counted)".into()],
		parts: vec![PartSpec::new("sort", n, tier.q(900, 7200)), PartSpec::new("sets", n, tier.q(900, 7200)), PartSpec::new("search", n, tier.q(900, 7200)), PartSpec::new("hof", n, tier.q(900, 7200)), PartSpec::new("build", n, tier.q(900, 7200))],
		totality: true,
		exhaustive: true,
		min_outcomes: 20,
	}
}

fn n(x: f64) -> Ex {
	num(x)
}
fn arr(items: Vec<Ex>) -> Ex {
	Ex::Arr(items)
}
fn x() -> Ex {
	var("x")
}

pub fn key_fns() -> Vec<(&'static str, Option<Ex>)> {
	vec![
		("none", None),
		("identity", Some(func(&["x"], x()))),
		("negate", Some(func(&["x"], un(UnOp::Minus, x())))),
		("mod2", Some(func(&["x"], bin(x(), BinOp::Mod, n(2.0))))),
		("pair", Some(func(&["x"], arr(vec![bin(x(), BinOp::Mod, n(2.0)), x()])))),
		("partial", Some(func(&["x"], ife(bin(x(), BinOp::Eq, n(2.0)), Ex::Error(Box::new(s("K2"))), x())))),
		("typechange", Some(func(&["x"], ife(bin(x(), BinOp::Eq, n(1.0)), s("s"), x())))),
		("constant", Some(func(&["x"], n(0.0)))),
	]
}
pub fn predicates() -> Vec<(&'static str, Ex)> {
	vec![
		("true", func(&["x"], Ex::True)),
		("false", func(&["x"], Ex::False)),
		("even", func(&["x"], bin(bin(x(), BinOp::Mod, n(2.0)), BinOp::Eq, n(0.0)))),
		("failing", func(&["x"], ife(bin(x(), BinOp::Eq, n(2.0)), Ex::Error(Box::new(s("P2"))), Ex::True))),
		("nonbool", func(&["x"], x())),
	]
}

pub struct Ctx<'r> {
	pub rep: &'r mut Report,
	pub runner: Runner,
	pub shard: Shard,
	pub idx: u64,
}
impl Ctx<'_> {
	pub fn call(&mut self, journal: &Journal, f: &str, args: Vec<Ex>, shape: &str) {
		let i = self.idx;
		self.idx += 1;
		if !self.shard.mine(i) {
			return;
		}
		let e = stdcall(f, args);
		self.program(journal, i, f, &e, shape);
	}
	pub fn program(&mut self, journal: &Journal, i: u64, f: &str, e: &Ex, shape: &str) {
		let text = print(e);
		journal.note(i, f, &text);
		let (v, _) = run_program(e);
		let o = self.runner.run("snippet", &text);
		let sure = !matches!(v, Verdict::Unsure(_));
		if !sure {
			self.rep.count("reference_unsure", 1);
		}
		self.rep.case(sure.then(|| fnv(text.as_bytes())), fnv(format!("{v:?}").as_bytes()));
		if i % 20_011 == 0 {
			self.rep.sample(|| json!({"call": text, "reference": format!("{v:?}"), "implementation": o.short()}));
		}
		if let Some(m) = compare(&v, &o) {
			if m.is_weak() {
				self.rep.count(&format!("weak error-class difference: {}", m.key()), 1);
				return;
			}
			self.rep.violation(Violation {
				class: format!("std.{f}: {} [{shape}]", m.key()),
				witness: text.clone(),
				detail: format!("reference: {v:?}\nimplementation: {}", o.short()),
				cost: text.len() as u32,
				replay: json!({"kind": "call", "text": text, "ref": verdict_json(&v)}),
			});
		}
	}
}

fn arrays_over(alpha: &[Ex], maxlen: usize) -> Vec<Ex> {
	let mut out = Vec::new();
	for_each_seq(alpha.len(), 0, maxlen, |_, seq| out.push(arr(seq.iter().map(|k| alpha[*k].clone()).collect())));
	out
}
fn shape_of(a: &Ex) -> &'static str {
	match a {
		Ex::Arr(v) if v.is_empty() => "empty",
		Ex::Arr(v) if v.len() == 1 => "singleton",
		Ex::Arr(_) => "array",
		Ex::Str(_) => "string",
		_ => "other",
	}
}
fn mixed_alpha() -> Vec<Ex> {
	vec![n(1.0), s("a"), Ex::Null, Ex::True, arr(vec![n(1.0)]), arr(vec![arr(vec![n(2.0)])])]
}
fn num_alpha() -> Vec<Ex> {
	vec![n(1.0), n(2.0), n(3.0)]
}

fn work(shard: &Shard, journal: &Journal, rep: &mut Report) {
	crate::common::limit_memory(6 << 30);
	let mut cx = Ctx { rep, runner: Runner::new(), shard: shard.clone(), idx: 0 };
	match shard.part.as_str() {
		"sort" => part_sort(&mut cx, journal),
		"sets" => part_sets(&mut cx, journal),
		"search" => part_search(&mut cx, journal),
		"hof" => part_hof(&mut cx, journal),
		"build" => part_build(&mut cx, journal),
		p => panic!("unknown part {p}"),
	}
	let total = cx.idx;
	cx.rep.count("calls_indexed", total / shard.n);
}

fn part_sort(cx: &mut Ctx, journal: &Journal) {
	let maxlen = cx.shard.tier.q(6, 8);
	let nums = arrays_over(&num_alpha(), maxlen);
	let mixed = arrays_over(&mixed_alpha(), cx.shard.tier.q(3, 4));
	for (kn, kf) in key_fns() {
		for a in nums.iter().chain(mixed.iter()) {
			for f in ["sort", "uniq", "set"] {
				let mut args = vec![a.clone()];
				if let Some(k) = &kf {
					args.push(k.clone());
				}
				cx.call(journal, f, args, &format!("keyF={kn}, {}", shape_of(a)));
			}
			// every key function: the tie-producing ones (mod2, constant) decide which of several extreme elements wins
			{
				for f in ["minArray", "maxArray"] {
					let mut named = vec![];
					if let Some(k) = &kf {
						named.push(("keyF".to_owned(), k.clone()));
					}
					let e = Ex::Apply(Box::new(dot(var("std"), f)), vec![a.clone()], named.clone(), false);
					let i = cx.idx;
					cx.idx += 1;
					if cx.shard.mine(i) {
						cx.program(journal, i, f, &e, &format!("keyF={kn}, {}", shape_of(a)));
					}
					named.push(("onEmpty".to_owned(), s("EMPTY")));
					let e = Ex::Apply(Box::new(dot(var("std"), f)), vec![a.clone()], named, false);
					let i = cx.idx;
					cx.idx += 1;
					if cx.shard.mine(i) {
						cx.program(journal, i, f, &e, &format!("keyF={kn}, onEmpty, {}", shape_of(a)));
					}
				}
			}
		}
	}
	// strings and other types as the array argument
	for a in [s("abc"), Ex::Null, n(1.0), obj(vec![])] {
		for f in ["sort", "uniq", "set", "minArray", "sum", "avg", "any", "all", "reverse", "flattenArrays", "lines"] {
			cx.call(journal, f, vec![a.clone()], "non-array");
		}
	}
	for a in nums.iter().take(400).chain(mixed.iter().take(300)) {
		for f in ["sum", "avg"] {
			cx.call(journal, f, vec![a.clone()], shape_of(a));
		}
	}
	let bools = arrays_over(&[Ex::True, Ex::False, n(1.0), Ex::Error(Box::new(s("B")))], 4);
	for a in &bools {
		for f in ["any", "all"] {
			cx.call(journal, f, vec![a.clone()], shape_of(a));
		}
	}
}

fn part_sets(cx: &mut Ctx, journal: &Journal) {
	// all subsets of a 6-element universe as ascending arrays
	let uni: Vec<f64> = vec![1.0, 2.0, 3.0, 4.0, 5.0, 6.0];
	let mut sets: Vec<Vec<f64>> = Vec::new();
	for m in 0u32..64 {
		sets.push(uni.iter().enumerate().filter(|(i, _)| m >> i & 1 == 1).map(|(_, v)| *v).collect());
	}
	let as_arr = |v: &[f64], desc: bool| -> Ex {
		let mut v = v.to_vec();
		if desc {
			v.reverse();
		}
		arr(v.into_iter().map(n).collect())
	};
	let keys: Vec<(&str, Option<Ex>, bool)> = vec![("none", None, false), ("identity", Some(func(&["x"], x())), false), ("negate", Some(func(&["x"], un(UnOp::Minus, x()))), true), ("pair", Some(func(&["x"], arr(vec![n(0.0), x()]))), false)];
	for (kn, kf, desc) in &keys {
		for a in &sets {
			for b in &sets {
				for f in ["setUnion", "setInter", "setDiff"] {
					let mut args = vec![as_arr(a, *desc), as_arr(b, *desc)];
					if let Some(k) = kf {
						args.push(k.clone());
					}
					let shape = format!("keyF={kn}, {}", if a.is_empty() || b.is_empty() { "with empty side" } else { "both non-empty" });
					cx.call(journal, f, args, &shape);
				}
			}
			for xv in [0.0, 1.0, 3.0, 6.0, 7.0] {
				let mut args = vec![n(xv), as_arr(a, *desc)];
				if let Some(k) = kf {
					args.push(k.clone());
				}
				cx.call(journal, "setMember", args, &format!("keyF={kn}"));
			}
		}
	}
	// string sets, mixed types, non-set inputs (crash/Unsure only), wrong types
	let strs = [arr(vec![]), arr(vec![s("a")]), arr(vec![s("a"), s("b")]), arr(vec![s("b"), s("é")]), arr(vec![s("a"), n(1.0)]), arr(vec![n(2.0), n(1.0)]), arr(vec![n(1.0), n(1.0)]), s("ab"), Ex::Null];
	for a in &strs {
		for b in &strs {
			for f in ["setUnion", "setInter", "setDiff"] {
				cx.call(journal, f, vec![a.clone(), b.clone()], "strings/mixed/non-set");
			}
		}
		cx.call(journal, "setMember", vec![s("a"), a.clone()], "strings/mixed/non-set");
	}
}

fn part_search(cx: &mut Ctx, journal: &Journal) {
	let nums = arrays_over(&num_alpha(), cx.shard.tier.q(5, 6));
	let mixed = arrays_over(&mixed_alpha(), cx.shard.tier.q(3, 4));
	let needles = vec![n(1.0), n(2.0), n(4.0), s("a"), Ex::Null, Ex::True, arr(vec![n(1.0)]), arr(vec![arr(vec![n(2.0)])])];
	for a in nums.iter().chain(mixed.iter()) {
		for nd in &needles {
			cx.call(journal, "member", vec![a.clone(), nd.clone()], shape_of(a));
			cx.call(journal, "contains", vec![a.clone(), nd.clone()], shape_of(a));
			cx.call(journal, "find", vec![nd.clone(), a.clone()], shape_of(a));
			cx.call(journal, "count", vec![a.clone(), nd.clone()], shape_of(a));
			cx.call(journal, "remove", vec![a.clone(), nd.clone()], shape_of(a));
		}
		let len = if let Ex::Arr(v) = a { v.len() as i32 } else { 0 };
		for i in -3..=len + 3 {
			cx.call(journal, "removeAt", vec![a.clone(), n(f64::from(i))], &format!("{} index {}", shape_of(a), if i < 0 { "negative" } else if i >= len { "past end" } else { "inside" }));
		}
	}
	// member on strings
	for hay in ["", "a", "abcab", "é😀é"] {
		for nd in ["", "a", "ab", "é", "😀é", "z"] {
			cx.call(journal, "member", vec![s(hay), s(nd)], "string");
		}
		cx.call(journal, "member", vec![s(hay), n(1.0)], "string, non-string needle");
	}
	// functions compared for equality
	cx.call(journal, "member", vec![arr(vec![func(&["x"], x())]), func(&["x"], x())], "function element");
	cx.call(journal, "count", vec![arr(vec![func(&["x"], x())]), n(1.0)], "function element");
}

fn part_hof(cx: &mut Ctx, journal: &Journal) {
	let nums = arrays_over(&num_alpha(), cx.shard.tier.q(4, 5));
	let wrap = func(&["x"], arr(vec![x()]));
	let concat = func(&["a", "b"], bin(bin(stdcall("toString", vec![var("a")]), BinOp::Add, s(".")), BinOp::Add, stdcall("toString", vec![var("b")])));
	let two_arg_fail = func(&["a", "b"], ife(bin(var("b"), BinOp::Eq, n(2.0)), Ex::Error(Box::new(s("F2"))), bin(var("a"), BinOp::Add, var("b"))));
	for a in &nums {
		let sh = shape_of(a);
		for (pn, p) in predicates() {
			cx.call(journal, "filter", vec![p.clone(), a.clone()], &format!("predicate={pn}, {sh}"));
			cx.call(journal, "filterMap", vec![p.clone(), wrap.clone(), a.clone()], &format!("predicate={pn}, {sh}"));
		}
		for (kn, kf) in key_fns() {
			let Some(k) = kf else { continue };
			cx.call(journal, "map", vec![k.clone(), a.clone()], &format!("fn={kn}, {sh}"));
			cx.call(journal, "flatMap", vec![func(&["x"], arr(vec![call(k.clone(), vec![x()]), x()])), a.clone()], &format!("fn={kn}, {sh}"));
		}
		cx.call(journal, "mapWithIndex", vec![func(&["i", "x"], arr(vec![var("i"), x()])), a.clone()], sh);
		cx.call(journal, "flatMap", vec![func(&["x"], Ex::Null), a.clone()], &format!("fn=null, {sh}"));
		cx.call(journal, "flatMap", vec![func(&["x"], x()), a.clone()], &format!("fn=non-array, {sh}"));
		for (fname, f) in [("concat", &concat), ("failing", &two_arg_fail)] {
			cx.call(journal, "foldl", vec![f.clone(), a.clone(), s("i")], &format!("fn={fname}, {sh}"));
			cx.call(journal, "foldr", vec![f.clone(), a.clone(), s("i")], &format!("fn={fname}, {sh}"));
		}
	}
	// strings as the iterated value
	for st in ["", "a", "aé😀"] {
		cx.call(journal, "map", vec![func(&["x"], bin(x(), BinOp::Add, x())), s(st)], "string");
		cx.call(journal, "flatMap", vec![func(&["x"], bin(x(), BinOp::Add, s("-"))), s(st)], "string");
		cx.call(journal, "foldl", vec![concat.clone(), s(st), s("i")], "string");
		cx.call(journal, "foldr", vec![concat.clone(), s(st), s("i")], "string");
		cx.call(journal, "filter", vec![func(&["x"], Ex::True), s(st)], "string");
		cx.call(journal, "mapWithIndex", vec![func(&["i", "x"], x()), s(st)], "string");
	}
	// wrong types
	for bad in [Ex::Null, n(1.0), obj(vec![])] {
		for f in ["map", "filter", "flatMap"] {
			cx.call(journal, f, vec![func(&["x"], x()), bad.clone()], "non-array");
			cx.call(journal, f, vec![bad.clone(), arr(vec![n(1.0)])], "non-function");
		}
		cx.call(journal, "foldl", vec![concat.clone(), bad.clone(), n(0.0)], "non-array");
	}
}

fn part_build(cx: &mut Ctx, journal: &Journal) {
	// join / lines / deepJoin
	let seps = vec![s(""), s(","), s("ab"), arr(vec![]), arr(vec![n(0.0)]), arr(vec![arr(vec![n(1.0)])]), Ex::Null, n(1.0)];
	let items = vec![s(""), s("a"), Ex::Null, s("bc"), n(1.0), arr(vec![n(1.0)]), arr(vec![])];
	let lists = arrays_over(&items, 3);
	for sep in &seps {
		for l in &lists {
			cx.call(journal, "join", vec![sep.clone(), l.clone()], &format!("sep={}, {}", shape_of(sep), shape_of(l)));
		}
	}
	for l in &lists {
		cx.call(journal, "lines", vec![l.clone()], shape_of(l));
		cx.call(journal, "deepJoin", vec![l.clone()], shape_of(l));
		cx.call(journal, "flattenArrays", vec![l.clone()], shape_of(l));
		cx.call(journal, "flattenDeepArray", vec![l.clone()], shape_of(l));
	}
	let nested = arrays_over(&[arr(vec![]), arr(vec![n(1.0)]), arr(vec![n(1.0), arr(vec![n(2.0), arr(vec![n(3.0)])])]), s("s")], 3);
	for l in &nested {
		cx.call(journal, "flattenArrays", vec![l.clone()], "nested");
		cx.call(journal, "flattenDeepArray", vec![l.clone()], "nested");
		cx.call(journal, "deepJoin", vec![l.clone()], "nested");
	}
	// range / repeat / makeArray / slice
	let ints: Vec<Ex> = (-3..=4).map(|i| n(f64::from(i))).chain([n(0.5), s("1"), Ex::Null]).collect();
	for a in &ints {
		for b in &ints {
			cx.call(journal, "range", vec![a.clone(), b.clone()], "");
		}
		for what in [s(""), s("ab"), s("é"), arr(vec![]), arr(vec![n(1.0), n(2.0)]), Ex::Null, n(1.0)] {
			cx.call(journal, "repeat", vec![what.clone(), a.clone()], shape_of(&what));
		}
		cx.call(journal, "makeArray", vec![a.clone(), func(&["i"], bin(var("i"), BinOp::Mul, n(2.0)))], "");
		cx.call(journal, "makeArray", vec![a.clone(), n(1.0)], "non-function");
	}
	let bounds: Vec<Ex> = (-3..=6).map(|i| n(f64::from(i))).chain([Ex::Null]).collect();
	let steps: Vec<Ex> = vec![Ex::Null, n(1.0), n(2.0), n(3.0), n(0.0), n(-1.0)];
	for base in [arr(vec![n(1.0), n(2.0), n(3.0)]), arr(vec![]), s("aé😀"), s(""), stdcall("range", vec![n(0.0), n(4.0)])] {
		for a in &bounds {
			for b in &bounds {
				for st in &steps {
					cx.call(journal, "slice", vec![base.clone(), a.clone(), b.clone(), st.clone()], &format!("{}, step {}", shape_of(&base), print(st)));
				}
			}
		}
	}
	for bad in [Ex::Null, n(1.0), obj(vec![])] {
		cx.call(journal, "slice", vec![bad.clone(), n(0.0), n(1.0), n(1.0)], "non-indexable");
	}
}

fn replay(v: &Value) -> (bool, String) {
	let text = v["text"].as_str().unwrap_or("");
	let reference = verdict_from_json(&v["ref"]);
	let mut runner = Runner::new();
	let o = runner.run("snippet", text);
	let m = compare(&reference, &o);
	(matches!(&m, Some(x) if !x.is_weak()), format!("call: {text}\nreference: {reference:?}\nimplementation: {}", o.short()))
}
