//! C05 — JSON manifestation is well-formed and faithful.
//!
//! Values are generated as (harness JSON value, Jsonnet source text); every JSON-producing path of the
//! implementation is run on them and its output is read back by the harness's strict RFC 8259 reader.

use jrsonnet_evaluator::{manifest::JsonFormat, Val};
use serde_json::{json, Value};

use crate::{
	ast::quote,
	common::{fnv, guarded, panic_class, CheckSpec, Journal, PartSpec, Report, Shard, Tier, Violation},
	enumr::for_each_seq,
	imp::Imp,
	json::{self, keys_sorted, J},
	Check,
};

pub const CHECK: Check = Check {
	id: "C05",
	spec,
	work,
	replay,
};

fn spec(tier: Tier) -> CheckSpec {
	let n = crate::common::ncpu();
	CheckSpec {
		property: "C05",
		level: "exploration",
		rule: "exhaustive: (strings) every Unicode scalar value below U+3000 plus every plane boundary +-2, the surrogate gap edges and U+FFFx (thorough: all 1,112,064 scalar values) as a one-character string, and all strings of length <= 3 over a 12-symbol hostile alphabet (quote, backslash, slash, U+0000, U+001F, U+007F, U+0080, U+2028, U+FFFF, U+10000, a, space); (numbers) every power of two 2^-1074..2^1023 with both neighbours, every power of ten, +-0, 2^53+-{0,1,2}, +-max, +-min-normal, 0.1, 1/3; (trees) every JSON-like tree of depth <= 2 and width <= 2 over 6 scalars and 3 keys, also built lazily (std.map, comprehension, inheritance with hidden and +: fields, std.objectRemoveKey) and with a function planted at every position; \
			each through 12 paths: Val::manifest with JsonFormat::default / cli(1) / cli(3) / minify, std.manifestJson, std.manifestJsonMinified, std.manifestJsonEx with indent x newline x key_val_sep variants, std.toString and string concatenation on both sides. Oracle: the strict reader accepts the text and yields the same value (strings code point for code point, numbers bit-exact, keys ascending, hidden omitted); std.parseJson(text) evaluated by the implementation yields the same value again; a value containing a function is an error on every path. non-trivial = distinct (value, path)"
			.into(),
		assumptions: vec!["the strict RFC 8259 reader in harness/src/json.rs (numbers via correctly rounded str::parse::<f64>) is the independent parser".into()],
		parts: vec![PartSpec::new("strings", n, tier.q(900, 14400)), PartSpec::new("numbers", n.min(8), tier.q(900, 3600)), PartSpec::new("trees", n, tier.q(900, 14400))],
		totality: true,
		exhaustive: true,
		min_outcomes: 10,
	}
}

pub const PATHS: &[&str] = &[
	"api-default",
	"api-cli1",
	"api-cli3",
	"api-minify",
	"std.manifestJson",
	"std.manifestJsonMinified",
	"std.manifestJsonEx(v, \"  \")",
	"std.manifestJsonEx(v, \"\\t\", \"\\r\\n\")",
	"std.manifestJsonEx(v, \"\", \"\", \":\")",
	"std.manifestJsonEx(v, \"    \", \"\\n\", \" : \")",
	"std.toString",
	"\"\" + v",
	"v + \"\"",
];

fn num_src(x: f64) -> String {
	if x == 0.0 {
		return if x.is_sign_negative() { "(-0)".into() } else { "0".into() };
	}
	let body = format!("{:e}", x.abs());
	if x < 0.0 {
		format!("(-{body})")
	} else {
		body
	}
}

/// Jsonnet source of a JSON value
pub fn src(j: &J) -> String {
	match j {
		J::Null => "null".into(),
		J::Bool(b) => b.to_string(),
		J::Num(x) => num_src(*x),
		J::Str(s) => quote(s),
		J::Arr(a) => format!("[{}]", a.iter().map(src).collect::<Vec<_>>().join(", ")),
		J::Obj(kv) => format!("{{{}}}", kv.iter().map(|(k, v)| format!("{}: {}", quote(k), src(v))).collect::<Vec<_>>().join(", ")),
	}
}
fn sorted(j: &J) -> J {
	match j {
		J::Obj(kv) => {
			let mut kv: Vec<(String, J)> = kv.iter().map(|(k, v)| (k.clone(), sorted(v))).collect();
			kv.sort_by(|a, b| a.0.cmp(&b.0));
			J::Obj(kv)
		}
		J::Arr(a) => J::Arr(a.iter().map(sorted).collect()),
		other => other.clone(),
	}
}

/// runs one path; returns the produced JSON text
fn run_path(imp: &Imp, path: &str, source: &str) -> Result<Result<String, String>, String> {
	guarded(|| -> Result<String, String> {
		let e = |x: jrsonnet_evaluator::Error| format!("{}", x.error());
		match path {
			"api-default" | "api-cli1" | "api-cli3" | "api-minify" => {
				let v = imp.eval(source).map_err(e)?;
				let _g = imp.state.try_enter();
				match path {
					"api-default" => v.manifest(JsonFormat::default()),
					"api-cli1" => v.manifest(JsonFormat::cli(1)),
					"api-cli3" => v.manifest(JsonFormat::cli(3)),
					_ => v.manifest(JsonFormat::minify()),
				}
				.map_err(e)
			}
			p => {
				let code = if let Some(rest) = p.strip_prefix("std.manifestJsonEx(v") {
					format!("local v = {source}; std.manifestJsonEx(v{rest}")
				} else if p.starts_with("std.") {
					format!("local v = {source}; {p}(v)")
				} else {
					format!("local v = {source}; {p}")
				};
				match imp.eval(&code).map_err(e)? {
					Val::Str(s) => Ok(s.to_string()),
					other => Err(format!("path did not produce a string: {:?}", other.value_type())),
				}
			}
		}
	})
}

fn value_shape(j: &J) -> &'static str {
	match j {
		J::Null | J::Bool(_) => "literal",
		J::Num(x) if *x == 0.0 => "zero",
		J::Num(x) if x.abs() >= 1e17 => "huge number",
		J::Num(x) if x.abs() < 1e-5 => "tiny number",
		J::Num(x) if *x != x.trunc() => "fraction",
		J::Num(_) => "integer",
		J::Str(s) if s.chars().any(|c| (c as u32) < 0x20) => "string with control character",
		J::Str(s) if s.chars().any(|c| c == '"' || c == '\\') => "string with quote/backslash",
		J::Str(s) if s.chars().any(|c| c as u32 == 0x7f || (0x80..0xa0).contains(&(c as u32))) => "string with DEL/C1",
		J::Str(s) if s.chars().any(|c| c as u32 >= 0x10000) => "string with astral character",
		J::Str(s) if !s.is_ascii() => "string with BMP non-ASCII",
		J::Str(_) => "ascii string",
		J::Arr(a) if a.is_empty() => "empty array",
		J::Arr(_) => "array",
		J::Obj(o) if o.is_empty() => "empty object",
		J::Obj(_) => "object",
	}
}

pub fn judge_value(rep: &mut Report, imp: &Imp, journal: &Journal, idx: u64, expect: &J, source: &str, family: &str) {
	journal.note(idx, family, source);
	let want = sorted(expect);
	let is_string = matches!(expect, J::Str(_));
	for path in PATHS {
		// toString and concatenation keep strings as they are (no JSON): only non-string values
		if is_string && (path.contains("toString") || path.contains("+ v") || path.contains("v +")) {
			continue;
		}
		let r = run_path(imp, path, source);
		rep.evaluations += 1;
		let mut viol = |kind: String, detail: String| {
			rep.violation(Violation {
				class: format!("{path}: {kind} [{}]", value_shape(expect)),
				witness: format!("{path} on {source}"),
				detail,
				cost: source.len() as u32,
				replay: json!({"kind": "value", "source": source, "expect": to_serde(expect), "family": family}),
			});
		};
		match r {
			Err(p) => viol(panic_class(&p), format!("panic {p}")),
			Ok(Err(e)) => viol("manifestable value rejected".into(), e),
			Ok(Ok(text)) => {
				if text.contains("NaN") || text.contains("inf") {
					viol("non-finite number in output".into(), text.clone());
					continue;
				}
				match json::parse(&text) {
					Err(e) => viol("output is not well-formed JSON".into(), format!("{e}\noutput: {text:?}")),
					Ok(got) => {
						if !keys_sorted(&got) {
							viol("object keys not in ascending order".into(), text.clone());
						} else if got != want {
							viol("output denotes a different value".into(), format!("output {text:?}\nparsed {got:?}\nwanted {want:?}"));
						} else {
							// std.parseJson must be a left inverse (evaluated by the implementation, compared by the harness)
							let code = format!("std.parseJson({})", quote(&text));
							let back = guarded(|| imp.eval(&code).and_then(|v| imp.manifest_min(&v)));
							match back {
								Err(p) => viol(format!("std.parseJson {}", panic_class(&p)), format!("panic {p}")),
								Ok(Err(e)) => viol("std.parseJson rejects the output".into(), format!("{}\ntext {text:?}", e.error())),
								Ok(Ok(t2)) => match json::parse(&t2) {
									Ok(g2) if g2 == want => {}
									other => viol("std.parseJson is not a left inverse".into(), format!("text {text:?}\nread back as {t2:?} ({other:?})\nwanted {want:?}")),
								},
							}
						}
					}
				}
			}
		}
	}
	rep.nontrivial.insert(fnv(source.as_bytes()));
	rep.outcomes.insert(fnv(value_shape(expect).as_bytes()) ^ fnv(source.as_bytes()) % 64);
}

fn to_serde(j: &J) -> Value {
	match j {
		J::Null => Value::Null,
		J::Bool(b) => json!(b),
		J::Num(x) => json!({"f64bits": x.to_bits().to_string()}),
		J::Str(s) => json!({"s": s}),
		J::Arr(a) => Value::Array(a.iter().map(to_serde).collect()),
		J::Obj(kv) => json!({"obj": kv.iter().map(|(k, v)| json!([k, to_serde(v)])).collect::<Vec<_>>()}),
	}
}
fn from_serde(v: &Value) -> J {
	match v {
		Value::Null => J::Null,
		Value::Bool(b) => J::Bool(*b),
		Value::Array(a) => J::Arr(a.iter().map(from_serde).collect()),
		Value::Object(o) => {
			if let Some(b) = o.get("f64bits") {
				J::Num(f64::from_bits(b.as_str().unwrap_or("0").parse().unwrap_or(0)))
			} else if let Some(s) = o.get("s") {
				J::Str(s.as_str().unwrap_or("").to_owned())
			} else {
				J::Obj(o["obj"].as_array().map(|a| a.iter().map(|kv| (kv[0].as_str().unwrap_or("").to_owned(), from_serde(&kv[1]))).collect()).unwrap_or_default())
			}
		}
		_ => J::Null,
	}
}

fn work(shard: &Shard, journal: &Journal, rep: &mut Report) {
	crate::common::limit_memory(6 << 30);
	let imp = Imp::new();
	let mut idx = 0u64;
	match shard.part.as_str() {
		"strings" => {
			let mut scalars: Vec<u32> = Vec::new();
			if shard.tier == Tier::Thorough {
				scalars.extend((0..0x110000u32).filter(|c| char::from_u32(*c).is_some()));
			} else {
				scalars.extend(0..0x3000u32);
				for plane in 1..=16u32 {
					let b = plane * 0x10000;
					scalars.extend([b - 2, b - 1, b, b + 1, b + 2]);
				}
				scalars.extend([0xd7fe, 0xd7ff, 0xe000, 0xe001, 0xfeff, 0xfff0, 0xfffd, 0xfffe, 0xffff, 0x10fffe, 0x10ffff]);
				scalars.retain(|c| char::from_u32(*c).is_some());
			}
			for c in scalars {
				if shard.mine(idx) {
					let st = char::from_u32(c).unwrap().to_string();
					let j = J::Str(st);
					judge_value(rep, &imp, journal, idx, &j, &src(&j), "scalar");
					if idx % 9973 == 0 {
						rep.sample(|| json!({"string_scalar": format!("U+{c:04X}")}));
					}
				}
				idx += 1;
			}
			let hostile = ["\"", "\\", "/", "\u{0}", "\u{1f}", "\u{7f}", "\u{80}", "\u{2028}", "\u{ffff}", "\u{10000}", "a", " "];
			for_each_seq(hostile.len(), 0, 3, |_, seq| {
				if shard.mine(idx) {
					let st: String = seq.iter().map(|k| hostile[*k]).collect();
					// as value and as key
					let j = J::Str(st.clone());
					judge_value(rep, &imp, journal, idx, &j, &src(&j), "hostile string");
					let o = J::Obj(vec![(st, J::Num(1.0))]);
					judge_value(rep, &imp, journal, idx, &o, &src(&o), "hostile key");
				}
				idx += 1;
			});
		}
		"numbers" => {
			let mut xs: Vec<f64> = Vec::new();
			for k in -1074..=1023 {
				let p = 2f64.powi(k);
				xs.push(p);
				xs.push(f64::from_bits(p.to_bits() + 1));
				if p.to_bits() > 1 {
					xs.push(f64::from_bits(p.to_bits() - 1));
				}
			}
			for k in -323..=308 {
				xs.push(format!("1e{k}").parse().unwrap());
			}
			xs.extend([0.0, -0.0, 9007199254740990.0, 9007199254740991.0, 9007199254740992.0, 9007199254740994.0, f64::MAX, f64::MIN_POSITIVE, 0.1, 1.0 / 3.0, 2.0 / 3.0, 1e21, 1e22, 123456789.123456789, 5e-324, 1.7976931348623155e308]);
			let n0 = xs.len();
			for i in 0..n0 {
				let v = -xs[i];
				xs.push(v);
			}
			for x in xs {
				if shard.mine(idx) {
					let j = J::Num(x);
					judge_value(rep, &imp, journal, idx, &j, &src(&j), "number");
					let a = J::Arr(vec![J::Num(x), J::Obj(vec![("k".into(), J::Num(x))])]);
					judge_value(rep, &imp, journal, idx, &a, &src(&a), "number in container");
					if idx % 997 == 0 {
						rep.sample(|| json!({"number": format!("{x:e}")}));
					}
				}
				idx += 1;
			}
		}
		"trees" => {
			let scalars = vec![J::Null, J::Bool(true), J::Num(0.0), J::Num(-1.5), J::Str(String::new()), J::Str("a\"q".into())];
			let keys = ["", "a", "\"q"];
			// depth 0
			let mut level: Vec<J> = scalars.clone();
			let mut all: Vec<J> = level.clone();
			let maxdepth = shard.tier.q(2, 2);
			for _d in 1..=maxdepth {
				let prev = all.clone();
				let mut next: Vec<J> = Vec::new();
				next.push(J::Arr(vec![]));
				for a in &prev {
					next.push(J::Arr(vec![a.clone()]));
				}
				// width 2 arrays and objects use a reduced set of children to keep the count finite
				let small: Vec<&J> = prev.iter().take(24).collect();
				for a in &small {
					for b in &small {
						next.push(J::Arr(vec![(*a).clone(), (*b).clone()]));
					}
				}
				next.push(J::Obj(vec![]));
				for k in keys {
					for a in &prev {
						next.push(J::Obj(vec![(k.to_owned(), a.clone())]));
					}
				}
				for (k1, k2) in [("", "a"), ("a", "\"q"), ("\"q", "")] {
					for a in &small {
						for b in &small {
							next.push(J::Obj(vec![(k1.to_owned(), (*a).clone()), (k2.to_owned(), (*b).clone())]));
						}
					}
				}
				level = next;
				all.extend(level.iter().cloned());
			}
			rep.count("tree_values", all.len() as u64 / shard.n.max(1));
			for (ti, t) in all.iter().enumerate() {
				if shard.mine(idx) {
					let source = src(t);
					judge_value(rep, &imp, journal, idx, t, &source, "tree");
					// lazily built variants denote the same value
					if ti % 7 == 0 {
						for (name, lazy) in lazy_variants(t) {
							judge_value(rep, &imp, journal, idx, t, &lazy, name);
						}
					}
					// a function planted at every position must be rejected on every path
					if ti % 11 == 0 {
						for planted in plant_function(t) {
							for path in PATHS {
								let r = run_path(&imp, path, &planted);
								rep.evaluations += 1;
								let bad = match r {
									Err(p) => Some(panic_class(&p)),
									Ok(Ok(text)) => Some(format!("function emitted as {}", text.chars().take(40).collect::<String>())),
									Ok(Err(_)) => None,
								};
								if let Some(b) = bad {
									rep.violation(Violation {
										class: format!("{path}: value containing a function is not rejected"),
										witness: format!("{path} on {planted}"),
										detail: b,
										cost: planted.len() as u32,
										replay: json!({"kind": "function", "source": planted}),
									});
								}
							}
						}
					}
					if idx % 5003 == 0 {
						rep.sample(|| json!({"tree": source}));
					}
				}
				idx += 1;
			}
		}
		p => panic!("unknown part {p}"),
	}
	rep.count("values_indexed", idx / shard.n);
}

/// the same value built through lazy arrays, comprehensions, inheritance with hidden and +: fields, removed keys
fn lazy_variants(t: &J) -> Vec<(&'static str, String)> {
	let s0 = src(t);
	let mut out = vec![
		("lazy: local + id", format!("local id(x) = x; id({s0})")),
		("lazy: std.map over singleton", format!("std.map(function(x) x, [{s0}])[0]")),
		("lazy: comprehension element", format!("[x for x in [{s0}]][0]")),
	];
	match t {
		J::Arr(a) => {
			let items: Vec<String> = a.iter().map(src).collect();
			out.push(("lazy: array by makeArray", format!("local a = [{}]; std.makeArray(std.length(a), function(i) a[i])", items.join(", "))));
			out.push(("lazy: array by concatenation and slice", format!("([null] + [{}] + [null])[1:{}]", items.join(", "), a.len() + 1)));
		}
		J::Obj(kv) => {
			let fields: Vec<String> = kv.iter().map(|(k, v)| format!("{}: {}", quote(k), src(v))).collect();
			out.push(("lazy: object with hidden extra field", format!("{{{}{}hiddenExtra:: error \"never\"}}", fields.join(", "), if fields.is_empty() { "" } else { ", " })));
			out.push(("lazy: object by inheritance", format!("{{zz: 1}} + {{{}}} + {{zz:: super.zz}}", fields.join(", "))));
			out.push(("lazy: object with removed key", format!("std.objectRemoveKey({{{}{}removed: 1}}, \"removed\")", fields.join(", "), if fields.is_empty() { "" } else { ", " })));
			out.push(("lazy: object comprehension", format!("local src = {{{}}}; {{[k]: src[k] for k in std.objectFields(src)}}", fields.join(", "))));
		}
		_ => {}
	}
	out
}

fn plant_function(t: &J) -> Vec<String> {
	let f = "function(x) x";
	let mut out = vec![f.to_owned()];
	match t {
		J::Arr(a) => {
			for i in 0..a.len() {
				let items: Vec<String> = a.iter().enumerate().map(|(k, v)| if k == i { f.to_owned() } else { src(v) }).collect();
				out.push(format!("[{}]", items.join(", ")));
			}
			out.push(format!("[{}]", a.iter().map(src).chain(std::iter::once(f.to_owned())).collect::<Vec<_>>().join(", ")));
		}
		J::Obj(kv) => {
			for i in 0..kv.len() {
				let items: Vec<String> = kv.iter().enumerate().map(|(k, (key, v))| format!("{}: {}", quote(key), if k == i { f.to_owned() } else { src(v) })).collect();
				out.push(format!("{{{}}}", items.join(", ")));
			}
			let mut items: Vec<String> = kv.iter().map(|(key, v)| format!("{}: {}", quote(key), src(v))).collect();
			items.push(format!("fn: {f}"));
			out.push(format!("{{{}}}", items.join(", ")));
		}
		_ => {}
	}
	out
}

fn replay(v: &Value) -> (bool, String) {
	let imp = Imp::new();
	let source = v["source"].as_str().unwrap_or("");
	let mut rep = Report::new();
	let journal = Journal::open(None);
	if v["kind"] == "function" {
		let mut lines = vec![format!("value: {source}")];
		let mut bad = false;
		for path in PATHS {
			match run_path(&imp, path, source) {
				Ok(Err(_)) => {}
				other => {
					bad = true;
					lines.push(format!("{path}: {other:?}"));
				}
			}
		}
		return (bad, lines.join("\n"));
	}
	let expect = from_serde(&v["expect"]);
	judge_value(&mut rep, &imp, &journal, 0, &expect, source, "replay");
	let detail: Vec<String> = rep.violations.values().flat_map(|x| x.1.iter().map(|w| format!("{}\n{}", w.class, w.detail))).collect();
	(!rep.violations.is_empty(), format!("value: {source}\n{}", detail.join("\n")))
}
