//! C03 — call-by-need: nothing unneeded runs, nothing shared runs twice.
//!
//! Every sub-expression of a generated program is wrapped in `std.trace("L<k>", e)`; the multiset of trace
//! events of the implementation (collected through a pluggable TracePrinter) is compared with the multiset
//! the reference interpreter produces with the memoisation granularity the property grants.

use std::collections::BTreeMap;

use serde_json::{json, Value};

use crate::{
	ast::*,
	c01::Runner,
	common::{fnv, CheckSpec, Journal, PartSpec, Report, Shard, Tier, Violation},
	enumr::explore,
	gen::{gen_expr, GenCfg, Scope},
	imp::Out,
	judge::{compare, shrink, skeleton},
	refi::{run_program, Verdict},
	Check,
};

pub const CHECK: Check = Check {
	id: "C03",
	spec,
	work,
	replay,
};

fn spec(tier: Tier) -> CheckSpec {
	let n = crate::common::ncpu();
	CheckSpec {
		property: "C03",
		level: "exploration",
		rule: "exhaustive: (gen) every program of the whole-grammar generator with <= k constructs (k=3 quick, 4 thorough) with every non-literal sub-expression wrapped in std.trace(\"L<k>\", .); \
			(shapes) the sharing-shape family: a traced binding used 0..3 times as local / argument / default / overridden default / array element / object field via obj.f, self.f, super.f / object local read from two fields and from two objects sharing a layer / comprehension variable captured by a closure / std.map, filter, foldl, makeArray, objectValues, mapWithKey results read repeatedly, each with an error bomb and a runaway recursion planted in every position the reference proves unneeded, with and without tailstrict; \
			(chains) every 2-layer inheritance chain over 12 member kinds with traced member values, read through 4 probes in one program. \
			Oracle: same verdict as the reference interpreter and, when the verdict is a value, for every label count_impl <= count_ref (unneeded => 0, shared => 1). non-trivial = distinct instrumented program with at least one trace label"
			.into(),
		assumptions: vec![
			"memoisation granularity granted by the property: one evaluation per binding / argument / array element / (object, field, start layer) / (object, layer) local context; the reference interpreter implements exactly that".into(),
			"the count oracle is applied only to programs whose reference verdict is a value (evaluation order before an error is not specified)".into(),
			"true non-termination is represented by a frame-limit divergence".into(),
		],
		parts: vec![PartSpec::new("gen", n, tier.q(900, 14400)), PartSpec::new("shapes", n.min(8), tier.q(900, 3600)), PartSpec::new("chains", n, tier.q(900, 7200))],
		totality: true,
		exhaustive: true,
		min_outcomes: 20,
	}
}

fn work(shard: &Shard, journal: &Journal, rep: &mut Report) {
	crate::common::limit_memory(6 << 30);
	match shard.part.as_str() {
		"gen" => part_gen(shard, journal, rep),
		"shapes" => part_shapes(shard, journal, rep),
		"chains" => part_chains(shard, journal, rep),
		p => panic!("unknown part {p}"),
	}
}

// --- instrumentation ----------------------------------------------------------------------------

fn is_leaf(e: &Ex) -> bool {
	matches!(e, Ex::Null | Ex::True | Ex::False | Ex::Num(_) | Ex::Str(_) | Ex::Super)
}
fn wrap(e: Ex, n: &mut u32) -> Ex {
	*n += 1;
	stdcall("trace", vec![s(&format!("L{}", *n)), e])
}
fn inst_params(ps: &[Param], n: &mut u32) -> Vec<Param> {
	ps.iter().map(|p| Param { name: p.name.clone(), default: p.default.as_ref().map(|d| inst(d, n)) }).collect()
}
fn inst_binds(bs: &[Bind], n: &mut u32) -> Vec<Bind> {
	bs.iter()
		.map(|b| match b {
			Bind::Val(nm, v) => Bind::Val(nm.clone(), inst(v, n)),
			Bind::Func(nm, ps, v) => Bind::Func(nm.clone(), inst_params(ps, n), inst(v, n)),
		})
		.collect()
}
fn inst_field(f: &Field, n: &mut u32) -> Field {
	Field {
		name: match &f.name {
			FName::Fixed(x) => FName::Fixed(x.clone()),
			FName::Dyn(e) => FName::Dyn(inst(e, n)),
		},
		plus: f.plus,
		params: f.params.as_ref().map(|ps| inst_params(ps, n)),
		vis: f.vis,
		value: inst(&f.value, n),
	}
}
fn inst_comps(cs: &[Comp], n: &mut u32) -> Vec<Comp> {
	cs.iter()
		.map(|c| match c {
			Comp::For(v, e) => Comp::For(v.clone(), inst(e, n)),
			Comp::If(e) => Comp::If(inst(e, n)),
		})
		.collect()
}
fn inst_body(b: &ObjBody, n: &mut u32) -> ObjBody {
	match b {
		ObjBody::Members { locals, asserts, fields } => ObjBody::Members {
			locals: inst_binds(locals, n),
			asserts: asserts.iter().map(|(c, m)| (inst(c, n), m.as_ref().map(|m| inst(m, n)))).collect(),
			fields: fields.iter().map(|f| inst_field(f, n)).collect(),
		},
		ObjBody::Comp { locals, field, specs } => ObjBody::Comp { locals: inst_binds(locals, n), field: Box::new(inst_field(field, n)), specs: inst_comps(specs, n) },
	}
}
/// wrap every non-leaf sub-expression (and variables) in a trace call with a unique label
pub fn inst(e: &Ex, n: &mut u32) -> Ex {
	if is_leaf(e) {
		return e.clone();
	}
	let bx = |e: &Ex, n: &mut u32| Box::new(inst(e, n));
	let inner = match e {
		Ex::Var(_) | Ex::SelfE | Ex::Dollar | Ex::Import(..) => e.clone(),
		// an explicit trace call of the shape family keeps its own label
		Ex::Apply(f, pos, named, ts) if print(f) == "std.trace" => Ex::Apply(f.clone(), pos.iter().map(|a| inst(a, n)).collect(), named.clone(), *ts),
		Ex::Arr(xs) => Ex::Arr(xs.iter().map(|x| inst(x, n)).collect()),
		Ex::ArrComp(x, cs) => {
			let cs2 = inst_comps(cs, n);
			Ex::ArrComp(bx(x, n), cs2)
		}
		Ex::Obj(b) => Ex::Obj(inst_body(b, n)),
		Ex::ObjExt(x, b) => {
			let x2 = bx(x, n);
			Ex::ObjExt(x2, inst_body(b, n))
		}
		Ex::Un(op, x) => Ex::Un(*op, bx(x, n)),
		Ex::Bin(l, op, r) => {
			let l2 = bx(l, n);
			// `e in super`: super is not an expression
			Ex::Bin(l2, *op, bx(r, n))
		}
		Ex::Assert(c, m, r) => {
			let c2 = bx(c, n);
			let m2 = m.as_ref().map(|m| bx(m, n));
			Ex::Assert(c2, m2, bx(r, n))
		}
		Ex::Local(bs, b) => {
			let bs2 = inst_binds(bs, n);
			Ex::Local(bs2, bx(b, n))
		}
		Ex::Error(x) => Ex::Error(bx(x, n)),
		Ex::Apply(f, pos, named, ts) => {
			let f2 = bx(f, n);
			let pos2 = pos.iter().map(|a| inst(a, n)).collect();
			let named2 = named.iter().map(|(k, a)| (k.clone(), inst(a, n))).collect();
			Ex::Apply(f2, pos2, named2, *ts)
		}
		Ex::Index(a, i) => {
			let a2 = bx(a, n);
			Ex::Index(a2, bx(i, n))
		}
		Ex::Fn(ps, b) => {
			let ps2 = inst_params(ps, n);
			Ex::Fn(ps2, bx(b, n))
		}
		Ex::If(c, t, el) => {
			let c2 = bx(c, n);
			let t2 = bx(t, n);
			Ex::If(c2, t2, el.as_ref().map(|x| bx(x, n)))
		}
		Ex::Slice(a, s0, s1, s2) => {
			let a2 = bx(a, n);
			let p0 = s0.as_ref().map(|x| bx(x, n));
			let p1 = s1.as_ref().map(|x| bx(x, n));
			let p2 = s2.as_ref().map(|x| bx(x, n));
			Ex::Slice(a2, p0, p1, p2)
		}
		Ex::Null | Ex::True | Ex::False | Ex::Num(_) | Ex::Str(_) | Ex::Super => unreachable!(),
	};
	// do not wrap the std object / builtin references themselves
	if matches!(&inner, Ex::Var(v) if v == "std") {
		return inner;
	}
	if let Ex::Index(a, _) = &inner {
		if matches!(&**a, Ex::Var(v) if v == "std") {
			return inner;
		}
	}
	wrap(inner, n)
}
pub fn instrument(e: &Ex) -> Ex {
	let mut n = 0;
	inst(e, &mut n)
}

fn counts(traces: &[String]) -> BTreeMap<String, u32> {
	let mut m = BTreeMap::new();
	for t in traces {
		*m.entry(t.clone()).or_insert(0) += 1;
	}
	m
}

#[derive(Debug, Clone, PartialEq)]
pub enum Fault {
	Verdict(String),
	/// label evaluated although the reference proves it unneeded
	Unneeded(String),
	/// label evaluated more often than the sharing granularity allows
	Repeated(String, u32, u32),
}
impl Fault {
	fn kind(&self) -> String {
		match self {
			Fault::Verdict(k) => format!("verdict: {k}"),
			Fault::Unneeded(_) => "unneeded expression evaluated".into(),
			Fault::Repeated(..) => "shared expression evaluated more than once".into(),
		}
	}
}

pub fn examine(runner: &mut Runner, e: &Ex) -> (Verdict, Option<Fault>, BTreeMap<String, u32>, BTreeMap<String, u32>, Out) {
	let (v, rtr) = run_program(e);
	let o = runner.run("snippet", &print(e));
	let itr = runner.traces();
	let (rc, ic) = (counts(&rtr), counts(&itr));
	if let Some(m) = compare(&v, &o) {
		if !m.is_weak() {
			return (v, Some(Fault::Verdict(m.key())), rc, ic, o);
		}
	}
	if matches!(v, Verdict::Value(_)) {
		for (label, n) in &ic {
			let r = rc.get(label).copied().unwrap_or(0);
			if *n > r {
				let f = if r == 0 { Fault::Unneeded(label.clone()) } else { Fault::Repeated(label.clone(), r, *n) };
				return (v, Some(f), rc, ic, o);
			}
		}
	}
	(v, None, rc, ic, o)
}

/// `plain` is the un-instrumented program (shrinking happens on it, instrumentation is re-applied)
pub fn judge(rep: &mut Report, runner: &mut Runner, family: &str, plain: &Ex, auto_instrument: bool, cost: u32, sample: bool) {
	let prog = if auto_instrument { instrument(plain) } else { plain.clone() };
	let text = print(&prog);
	let (v, fault, rc, ic, o) = examine(runner, &prog);
	let sure = !matches!(v, Verdict::Unsure(_));
	let labels: u32 = rc.values().sum();
	rep.case((sure && (labels > 0 || !ic.is_empty())).then(|| fnv(text.as_bytes())), fnv(format!("{:?}{:?}", matches!(v, Verdict::Value(_)), rc).as_bytes()));
	rep.count("trace_events_reference", u64::from(labels));
	let under: u32 = rc.iter().map(|(l, n)| n.saturating_sub(ic.get(l).copied().unwrap_or(0))).sum();
	if under > 0 && matches!(v, Verdict::Value(_)) {
		rep.count("labels_evaluated_less_often_than_reference", u64::from(under));
	}
	if sample {
		rep.sample(|| json!({"family": family, "program": text, "reference_counts": rc, "implementation_counts": ic, "outcome": o.short()}));
	}
	let Some(fault) = fault else { return };
	let kind = fault.kind();
	let minimal = shrink(plain, &mut |cand: &Ex| {
		let p = if auto_instrument { instrument(cand) } else { cand.clone() };
		matches!(examine(runner, &p).1, Some(f) if f.kind() == kind)
	});
	let mprog = if auto_instrument { instrument(&minimal) } else { minimal.clone() };
	let (mv, mf, mrc, mic, mo) = examine(runner, &mprog);
	// programs that involve standard-library natives are keyed by the natives involved (one strictness defect of
	// a native = one class), everything else by the skeleton of the minimal program
	let mut natives: Vec<String> = Vec::new();
	crate::gen::walk(&minimal, &mut |x| {
		if let Ex::Index(a, i) = x {
			if let (Ex::Var(v), Ex::Str(name)) = (&**a, &**i) {
				if v == "std" && !["trace", "length"].contains(&name.as_str()) && !natives.contains(name) {
					natives.push(name.clone());
				}
			}
		}
	});
	natives.sort();
	let sk = match crate::judge::trigger_for(&kind, &minimal) {
		Some(t) => t.to_owned(),
		None if !natives.is_empty() => format!("involving std.{}", natives.join(", std.")),
		None => skeleton(&minimal),
	};
	rep.violation(Violation {
		class: format!("{kind} [{sk}]"),
		witness: print(&mprog),
		detail: format!("fault: {mf:?}\nreference verdict {mv:?} counts {mrc:?}\nimplementation {} counts {mic:?}\noriginal: {text}", mo.short()),
		cost,
		replay: json!({"kind": "prog", "text": print(&mprog), "ref": crate::c01::verdict_json(&mv), "ref_counts": mrc}),
	});
}

fn part_gen(shard: &Shard, journal: &Journal, rep: &mut Report) {
	let cfg = GenCfg { syntax_only: false, objects: true };
	let mut runner = Runner::new();
	let budget = shard.tier.q(3, 4);
	let total = explore(budget, |c, idx| {
		let e = gen_expr(c, &Scope::default(), cfg);
		if !shard.mine(idx) {
			return;
		}
		journal.note(idx, "gen", &print(&e));
		judge(rep, &mut runner, "gen", &e, true, c.used(), idx % 30_011 == 0);
	});
	rep.count("gen_programs", total / shard.n);
}

// --- sharing shapes -----------------------------------------------------------------------------

fn t(label: &str, v: Ex) -> Ex {
	stdcall("trace", vec![s(label), v])
}
fn bombs() -> Vec<(&'static str, Ex)> {
	vec![
		("error", Ex::Error(Box::new(s("BOMB")))),
		("runaway", Ex::Local(vec![Bind::Func("d".into(), vec![Param { name: "x".into(), default: None }], bin(call(var("d"), vec![bin(var("x"), BinOp::Add, Ex::Num(1.0))]), BinOp::Add, Ex::Num(1.0)))], Box::new(call(var("d"), vec![Ex::Num(0.0)])))),
		("traced", t("BOMB", Ex::Num(666.0))),
	]
}
/// n uses of variable `x` combined into one value
fn uses(v: &str, n: usize) -> Ex {
	match n {
		0 => Ex::Num(1.0),
		1 => var(v),
		2 => bin(var(v), BinOp::Add, var(v)),
		_ => Ex::Arr(vec![var(v), var(v), var(v)]),
	}
}

pub fn shape_programs() -> Vec<(String, Ex)> {
	let mut out: Vec<(String, Ex)> = Vec::new();
	let tv = || t("T", Ex::Num(1.0));
	let one = || Ex::Num(1.0);
	let fparams = |name: &str, d: Option<Ex>| vec![Param { name: name.into(), default: d }];
	for n in 0..=3usize {
		out.push((format!("local used {n}x"), local1("x", tv(), uses("x", n))));
		for ts in [false, true] {
			let tsn = if ts { " tailstrict" } else { "" };
			out.push((format!("argument used {n}x{tsn}"), Ex::Apply(Box::new(func(&["x"], uses("x", n))), vec![tv()], vec![], ts)));
			out.push((format!("named argument used {n}x{tsn}"), Ex::Apply(Box::new(func(&["x"], uses("x", n))), vec![], vec![("x".into(), tv())], ts)));
			out.push((format!("default used {n}x{tsn}"), Ex::Apply(Box::new(Ex::Fn(fparams("x", Some(tv())), Box::new(uses("x", n)))), vec![], vec![], ts)));
			for (bn, b) in bombs() {
				out.push((format!("overridden default {bn} used {n}x{tsn}"), Ex::Apply(Box::new(Ex::Fn(fparams("x", Some(b)), Box::new(uses("x", n)))), vec![tv()], vec![], ts)));
			}
		}
		out.push((format!("local function result used {n}x"), Ex::Local(vec![Bind::Func("f".into(), fparams("p", None), t("F", var("p")))], Box::new(local1("x", call(var("f"), vec![one()]), uses("x", n))))));
	}
	for (bn, b) in bombs() {
		let b = || b.clone();
		out.push((format!("unused local {bn}"), local1("x", b(), one())));
		out.push((format!("unused argument {bn}"), call(func(&["x"], one()), vec![b()])));
		out.push((format!("untaken then {bn}"), ife(Ex::False, b(), tv())));
		out.push((format!("untaken else {bn}"), ife(Ex::True, tv(), b())));
		out.push((format!("short-circuit and {bn}"), bin(Ex::False, BinOp::And, b())));
		out.push((format!("short-circuit or {bn}"), bin(Ex::True, BinOp::Or, b())));
		out.push((format!("unread array element {bn}"), idx(Ex::Arr(vec![b(), tv()]), one())));
		out.push((format!("array length with {bn}"), stdcall("length", vec![Ex::Arr(vec![b(), b()])])));
		out.push((format!("unread field {bn}"), dot(obj(vec![field("f", Vis::Normal, false, tv()), field("g", Vis::Normal, false, b())]), "f")));
		out.push((format!("hidden field not manifested {bn}"), obj(vec![field("f", Vis::Normal, false, tv()), field("g", Vis::Hidden, false, b())])));
		out.push((format!("overridden field {bn}"), bin(obj(vec![field("f", Vis::Normal, false, b())]), BinOp::Add, obj(vec![field("f", Vis::Normal, false, tv())]))));
		out.push((format!("unused object local {bn}"), Ex::Obj(ObjBody::Members { locals: vec![Bind::Val("l".into(), b())], asserts: vec![], fields: vec![field("f", Vis::Normal, false, tv())] })));
		out.push((format!("objectFields with {bn}"), stdcall("objectFields", vec![obj(vec![field("f", Vis::Normal, false, b())])])));
		out.push((format!("objectHas with {bn}"), stdcall("objectHas", vec![obj(vec![field("f", Vis::Normal, false, b())]), s("f")])));
		out.push((format!("length of object with {bn}"), stdcall("length", vec![obj(vec![field("f", Vis::Normal, false, b())])])));
		out.push((format!("in with {bn}"), bin(s("f"), BinOp::In, obj(vec![field("f", Vis::Normal, false, b())]))));
		out.push((format!("std.get other field {bn}"), stdcall("get", vec![obj(vec![field("f", Vis::Normal, false, tv()), field("g", Vis::Normal, false, b())]), s("f")])));
		out.push((format!("std.get default unused {bn}"), stdcall("get", vec![obj(vec![field("f", Vis::Normal, false, tv())]), s("f"), b()])));
		out.push((format!("objectValues unread {bn}"), idx(stdcall("objectValues", vec![obj(vec![field("f", Vis::Normal, false, tv()), field("g", Vis::Normal, false, b())])]), Ex::Num(0.0))));
		out.push((format!("map unread element {bn}"), idx(stdcall("map", vec![func(&["v"], var("v")), Ex::Arr(vec![tv(), b()])]), Ex::Num(0.0))));
		out.push((format!("makeArray unread element {bn}"), idx(stdcall("makeArray", vec![Ex::Num(2.0), func(&["i"], ife(bin(var("i"), BinOp::Eq, Ex::Num(0.0)), tv(), b()))]), Ex::Num(0.0))));
		out.push((format!("mapWithKey unread field {bn}"), dot(stdcall("mapWithKey", vec![func(&["k", "v"], var("v")), obj(vec![field("f", Vis::Normal, false, tv()), field("g", Vis::Normal, false, b())])]), "f")));
		out.push((format!("array concat unread {bn}"), idx(bin(Ex::Arr(vec![tv()]), BinOp::Add, Ex::Arr(vec![b()])), Ex::Num(0.0))));
		out.push((format!("slice unread {bn}"), idx(Ex::Slice(Box::new(Ex::Arr(vec![b(), tv(), b()])), Some(Box::new(one())), Some(Box::new(Ex::Num(2.0))), None), Ex::Num(0.0))));
		out.push((format!("reverse unread {bn}"), idx(stdcall("reverse", vec![Ex::Arr(vec![b(), tv()])]), Ex::Num(0.0))));
		out.push((format!("repeat unread {bn}"), idx(stdcall("repeat", vec![Ex::Arr(vec![tv(), b()]), Ex::Num(2.0)]), Ex::Num(2.0))));
		out.push((format!("comprehension unread {bn}"), idx(Ex::ArrComp(Box::new(ife(bin(var("x"), BinOp::Eq, one()), tv(), b())), vec![Comp::For("x".into(), Ex::Arr(vec![one(), Ex::Num(2.0)]))]), Ex::Num(0.0))));
		out.push((format!("mergePatch untouched target field {bn}"), dot(stdcall("mergePatch", vec![obj(vec![field("f", Vis::Normal, false, tv()), field("g", Vis::Normal, false, b())]), obj(vec![field("h", Vis::Normal, false, one())])]), "f")));
	}
	// sharing through containers
	let arr_t = || Ex::Arr(vec![tv(), t("U", Ex::Num(2.0))]);
	out.push(("array element read twice".into(), local1("a", arr_t(), bin(idx(var("a"), Ex::Num(0.0)), BinOp::Add, idx(var("a"), Ex::Num(0.0))))));
	out.push(("array manifested twice".into(), local1("a", arr_t(), Ex::Arr(vec![var("a"), var("a")]))));
	out.push(("array compared and read".into(), local1("a", arr_t(), Ex::Arr(vec![bin(var("a"), BinOp::Eq, Ex::Arr(vec![Ex::Num(1.0), Ex::Num(2.0)])), idx(var("a"), Ex::Num(0.0))]))));
	for f in ["map", "filter", "reverse", "sort", "set", "flattenArrays", "join", "foldl", "slice", "repeat", "makeArray", "mapWithIndex", "range-comp", "concat", "removeAt", "objectValues", "objectKeysValues", "mapWithKey", "prune", "mergePatch"] {
		let idf = func(&["v"], var("v"));
		let src: Ex = match f {
			"map" => stdcall("map", vec![idf.clone(), arr_t()]),
			"filter" => stdcall("filter", vec![func(&["v"], Ex::True), arr_t()]),
			"reverse" => stdcall("reverse", vec![arr_t()]),
			"sort" => stdcall("sort", vec![arr_t()]),
			"set" => stdcall("set", vec![arr_t()]),
			"flattenArrays" => stdcall("flattenArrays", vec![Ex::Arr(vec![arr_t(), Ex::Arr(vec![])])]),
			"join" => stdcall("join", vec![Ex::Arr(vec![]), Ex::Arr(vec![arr_t(), Ex::Arr(vec![Ex::Num(3.0)])])]),
			"foldl" => stdcall("foldl", vec![func(&["acc", "v"], bin(var("acc"), BinOp::Add, Ex::Arr(vec![var("v")]))), arr_t(), Ex::Arr(vec![])]),
			"slice" => Ex::Slice(Box::new(arr_t()), Some(Box::new(Ex::Num(0.0))), None, None),
			"repeat" => stdcall("repeat", vec![arr_t(), Ex::Num(2.0)]),
			"makeArray" => stdcall("makeArray", vec![Ex::Num(2.0), func(&["i"], t("T", var("i")))]),
			"mapWithIndex" => stdcall("mapWithIndex", vec![func(&["i", "v"], var("v")), arr_t()]),
			"range-comp" => Ex::ArrComp(Box::new(t("T", var("x"))), vec![Comp::For("x".into(), stdcall("range", vec![Ex::Num(1.0), Ex::Num(2.0)]))]),
			"concat" => bin(arr_t(), BinOp::Add, Ex::Arr(vec![Ex::Num(3.0)])),
			"removeAt" => stdcall("removeAt", vec![bin(arr_t(), BinOp::Add, Ex::Arr(vec![Ex::Num(3.0)])), Ex::Num(2.0)]),
			"objectValues" => stdcall("objectValues", vec![obj(vec![field("f", Vis::Normal, false, tv()), field("g", Vis::Normal, false, t("U", Ex::Num(2.0)))])]),
			"objectKeysValues" => stdcall("map", vec![func(&["kv"], dot(var("kv"), "value")), stdcall("objectKeysValues", vec![obj(vec![field("f", Vis::Normal, false, tv())])])]),
			"mapWithKey" => stdcall("objectValues", vec![stdcall("mapWithKey", vec![func(&["k", "v"], var("v")), obj(vec![field("f", Vis::Normal, false, tv())])])]),
			"prune" => stdcall("prune", vec![arr_t()]),
			_ => stdcall("objectValues", vec![stdcall("mergePatch", vec![obj(vec![field("f", Vis::Normal, false, tv())]), obj(vec![field("h", Vis::Normal, false, one())])])]),
		};
		out.push((format!("{f}: element read twice"), local1("a", src.clone(), bin(idx(var("a"), Ex::Num(0.0)), BinOp::Add, idx(var("a"), Ex::Num(0.0))))));
		out.push((format!("{f}: whole array used twice"), local1("a", src.clone(), Ex::Arr(vec![var("a"), stdcall("length", vec![var("a")]), var("a")]))));
		out.push((format!("{f}: length only"), stdcall("length", vec![src])));
	}
	// sharing through objects
	let o2 = || obj(vec![field("f", Vis::Normal, false, tv()), field("g", Vis::Normal, false, t("U", Ex::Num(2.0)))]);
	out.push(("field read twice via obj.f".into(), local1("o", o2(), bin(dot(var("o"), "f"), BinOp::Add, dot(var("o"), "f")))));
	out.push(("field read then manifested".into(), local1("o", o2(), Ex::Arr(vec![dot(var("o"), "f"), var("o")]))));
	out.push(("field read twice via self.f".into(), dot(obj(vec![field("f", Vis::Hidden, false, tv()), field("g", Vis::Normal, false, bin(dot(Ex::SelfE, "f"), BinOp::Add, dot(Ex::SelfE, "f")))]), "g")));
	out.push(("field read twice via $.f".into(), dot(obj(vec![field("f", Vis::Hidden, false, tv()), field("g", Vis::Normal, false, obj(vec![field("h", Vis::Normal, false, bin(dot(Ex::Dollar, "f"), BinOp::Add, dot(Ex::Dollar, "f")))]))]), "g")));
	out.push(("field read twice via super.f".into(), dot(bin(obj(vec![field("f", Vis::Normal, false, tv())]), BinOp::Add, obj(vec![field("g", Vis::Normal, false, bin(dot(Ex::Super, "f"), BinOp::Add, dot(Ex::Super, "f")))])), "g")));
	out.push(("field read via self and via super".into(), bin(obj(vec![field("f", Vis::Normal, false, tv())]), BinOp::Add, obj(vec![field("g", Vis::Normal, false, Ex::Arr(vec![dot(Ex::SelfE, "f"), dot(Ex::Super, "f"), dot(Ex::SelfE, "f"), dot(Ex::Super, "f")]))]))));
	out.push(("plus field evaluated once".into(), local1("o", bin(obj(vec![field("f", Vis::Normal, false, Ex::Arr(vec![tv()]))]), BinOp::Add, obj(vec![field("f", Vis::Normal, true, Ex::Arr(vec![t("U", Ex::Num(2.0))]))])), Ex::Arr(vec![dot(var("o"), "f"), dot(var("o"), "f"), var("o")]))));
	let olocal = |fields: Vec<Field>| Ex::Obj(ObjBody::Members { locals: vec![Bind::Val("l".into(), tv())], asserts: vec![], fields });
	out.push(("object local read from two fields".into(), olocal(vec![field("a", Vis::Normal, false, var("l")), field("b", Vis::Normal, false, var("l"))])));
	out.push(("object local read twice in one field".into(), olocal(vec![field("a", Vis::Normal, false, bin(var("l"), BinOp::Add, var("l")))])));
	out.push((
		"object local shared by base and derived, interleaved".into(),
		local1(
			"base",
			olocal(vec![field("a", Vis::Normal, false, var("l")), field("b", Vis::Normal, false, var("l"))]),
			local1("derived", Ex::ObjExt(Box::new(var("base")), ObjBody::Members { locals: vec![], asserts: vec![], fields: vec![field("c", Vis::Normal, false, Ex::Num(3.0))] }), Ex::Arr(vec![dot(var("base"), "a"), dot(var("derived"), "a"), dot(var("base"), "b"), dot(var("derived"), "b"), dot(var("base"), "a")])),
		),
	));
	out.push((
		"layer with object local used at two positions".into(),
		local1("m", olocal(vec![field("a", Vis::Normal, false, var("l")), field("b", Vis::Normal, false, Ex::Arr(vec![var("l"), bin(s("a"), BinOp::In, Ex::Super)]))]), bin(var("m"), BinOp::Add, var("m"))),
	));
	out.push(("object assert evaluated once".into(), local1("o", Ex::Obj(ObjBody::Members { locals: vec![], asserts: vec![(t("A", Ex::True), None)], fields: vec![field("a", Vis::Normal, false, one()), field("b", Vis::Normal, false, Ex::Num(2.0))] }), Ex::Arr(vec![dot(var("o"), "a"), dot(var("o"), "b"), var("o")]))));
	out.push(("closure captures comprehension variable".into(), local1("fs", Ex::ArrComp(Box::new(Ex::Fn(vec![], Box::new(var("x")))), vec![Comp::For("x".into(), Ex::Arr(vec![tv(), t("U", Ex::Num(2.0))]))]), bin(call(idx(var("fs"), Ex::Num(0.0)), vec![]), BinOp::Add, call(idx(var("fs"), Ex::Num(0.0)), vec![])))));
	out.push(("comprehension source evaluated once".into(), Ex::ArrComp(Box::new(Ex::Arr(vec![var("x"), var("y")])), vec![Comp::For("x".into(), t("S1", Ex::Arr(vec![one(), Ex::Num(2.0)]))), Comp::For("y".into(), Ex::Arr(vec![tv()]))])));
	out.push(("import evaluated once".into(), Ex::Arr(vec![Ex::Import(ImportKind::Code, "lib.jsonnet".into()), Ex::Import(ImportKind::Code, "lib.jsonnet".into())])));
	out.push(("std.filter with failing later element".into(), idx(stdcall("filter", vec![func(&["v"], t("P", Ex::True)), Ex::Arr(vec![one(), Ex::Num(2.0)])]), Ex::Num(0.0))));
	out.push(("std.filter predicate once per element".into(), stdcall("filter", vec![func(&["v"], t("P", bin(var("v"), BinOp::Gt, one()))), Ex::Arr(vec![one(), Ex::Num(2.0), Ex::Num(3.0)])])));
	out.push(("std.filter predicate once per element, result indexed".into(), local1("r", stdcall("filter", vec![func(&["v"], t("P", bin(var("v"), BinOp::Gt, one()))), Ex::Arr(vec![one(), Ex::Num(2.0), Ex::Num(3.0)])]), Ex::Arr(vec![idx(var("r"), Ex::Num(0.0)), idx(var("r"), Ex::Num(0.0)), stdcall("length", vec![var("r")])]))));
	out.push(("std.sort key function once per element".into(), stdcall("sort", vec![Ex::Arr(vec![Ex::Num(3.0), one(), Ex::Num(2.0)]), func(&["v"], t("K", var("v")))])));
	out.push(("std.map function once per read element".into(), local1("r", stdcall("map", vec![func(&["v"], t("M", var("v"))), Ex::Arr(vec![one(), Ex::Num(2.0)])]), Ex::Arr(vec![idx(var("r"), Ex::Num(1.0)), idx(var("r"), Ex::Num(1.0))]))));
	out
}

fn part_shapes(shard: &Shard, journal: &Journal, rep: &mut Report) {
	let mut runner = Runner::new();
	let progs = shape_programs();
	rep.count("shape_programs", (progs.len() as u64) / shard.n.max(1));
	for (i, (name, e)) in progs.iter().enumerate() {
		// each shape plain and auto-instrumented
		for (j, auto) in [false, true].into_iter().enumerate() {
			let idx = (i * 2 + j) as u64;
			if !shard.mine(idx) {
				continue;
			}
			journal.note(idx, "shapes", name);
			judge_with_lib(rep, &mut runner, name, e, auto, i % 37 == 0);
		}
	}
}

fn judge_with_lib(rep: &mut Report, runner: &mut Runner, name: &str, e: &Ex, auto: bool, sample: bool) {
	// the import shape needs a file on both sides: handled by skipping it in the reference-free path
	if print(e).contains("import ") {
		return;
	}
	judge(rep, runner, &format!("shape {name}"), e, auto, 1, sample);
}

fn part_chains(shard: &Shard, journal: &Journal, rep: &mut Report) {
	use crate::c02::{build, Chain, LayerD, KINDS_ALL};
	let mut runner = Runner::new();
	let k = KINDS_ALL.len();
	let total = crate::enumr::for_each_product(&[k, k, k, k, 2], |idx, c| {
		if !shard.mine(idx) {
			return;
		}
		let chain = Chain {
			nnames: 2,
			dup_last: 0,
			mask_after: None,
			layers: (0..2).map(|li| LayerD { kinds: vec![KINDS_ALL[c[li * 2]], KINDS_ALL[c[li * 2 + 1]]], assert_kind: 0, ext: li == 1 && c[4] == 1, mask_before: None, mask_self: None }).collect(),
		};
		// one program reading the composed object several ways: fields twice, whole object, field list
		let o = || var("o");
		let body = Ex::Arr(vec![stdcall("objectFieldsAll", vec![o()]), stdcall("get", vec![o(), s("a"), Ex::Null]), stdcall("get", vec![o(), s("a"), Ex::Null]), stdcall("get", vec![o(), s("b"), Ex::Null]), o()]);
		let e = local1("o", build(&chain), body);
		journal.note(idx, "chains", &print(&e));
		judge(rep, &mut runner, "chains", &e, true, 4, idx % 10_007 == 0);
	});
	rep.count("chains_indexed", total / shard.n);
}

fn replay(v: &Value) -> (bool, String) {
	let text = v["text"].as_str().unwrap_or("");
	let mut runner = Runner::new();
	let reference = crate::c01::verdict_from_json(&v["ref"]);
	let o = runner.run("snippet", text);
	let ic = counts(&runner.traces());
	let mut bad = matches!(compare(&reference, &o), Some(m) if !m.is_weak());
	let mut lines = vec![format!("program: {text}"), format!("reference: {reference:?} counts {}", v["ref_counts"]), format!("implementation: {} counts {ic:?}", o.short())];
	if matches!(reference, Verdict::Value(_)) {
		for (l, n) in &ic {
			let r = v["ref_counts"][l].as_u64().unwrap_or(0) as u32;
			if *n > r {
				bad = true;
				lines.push(format!("label {l}: implementation evaluated it {n}x, reference {r}x"));
			}
		}
	}
	(bad, lines.join("\n"))
}
