#!/usr/bin/env python3
"""Oracle for std.format / `%`: Python's %-formatting on the sub-grid where Python 3 and Jsonnet coincide by
definition.  Reads JSON lines {"fmt": str, "vals": [...] | {...}} and prints one JSON line per case:
  {"v": text}   expected text
  {"e": 1}      an error is expected (too few/many values, unknown conversion, truncated code, wrong type)
  {"s": why}    not judged (Python and Jsonnet legitimately differ on this cell)
"""
import sys, json, re, math

CODE = re.compile(r'%(?:\((?P<key>[^)]*)\))?(?P<flags>[#0\- +]*)(?P<width>\*|\d+)?(?:\.(?P<prec>\*|\d*))?(?P<len>[hlL])?(?P<conv>.)?', re.S)

def scan(fmt):
    """yield parsed codes; raises ValueError on truncated codes"""
    i = 0
    out = []
    while True:
        j = fmt.find('%', i)
        if j < 0:
            return out
        m = CODE.match(fmt, j)
        if not m or m.group('conv') is None:
            raise ValueError('truncated')
        out.append(m)
        i = m.end()

from fractions import Fraction

def not_shared(conv, flags, p, v):
    """cells where Python's and Jsonnet's definitions differ although both produce text"""
    if isinstance(v, (int, float)) and not isinstance(v, bool):
        if conv == 's' and v == 0 and math.copysign(1, v) < 0:
            return "-0 under %s"
        if conv in 'diuoxX' and abs(v) > 2**53 and abs(v) != 1e19:
            return "integer beyond 2^53 (digit extraction in double arithmetic)"
        if conv in 'eEfFgG':
            if conv in 'gG':
                if p == 0:
                    return "%.0g"
                if '0' in flags:
                    return "zero padding of %g after stripping zeros"
                if v != 0 and abs(v) < 1:
                    return "%g of |x| < 1 (Jsonnet takes the exponent before rounding)"
            x = abs(Fraction(v))
            if x != 0:
                if conv in 'fF':
                    scaled = x * Fraction(10) ** p
                else:
                    e = math.floor(math.log10(x))
                    while Fraction(10) ** e > x: e -= 1
                    while Fraction(10) ** (e + 1) <= x: e += 1
                    digits = p if conv in 'eE' else max(p, 1) - 1
                    if conv in 'gG' and -4 <= e < max(p, 1):
                        digits = max(p, 1) - 1 - e
                        scaled = x * Fraction(10) ** digits
                    else:
                        scaled = x / Fraction(10) ** e * Fraction(10) ** digits
                frac = scaled - math.floor(scaled)
                if abs(frac - Fraction(1, 2)) < Fraction(1, 10**9):
                    return "half-way rounding"
                if scaled > 2**52 and (frac < Fraction(1, 10**6) or frac > 1 - Fraction(1, 10**6) or True):
                    return "beyond double precision"
    return None

def judge(fmt, vals):
    try:
        codes = scan(fmt)
    except ValueError:
        return {"e": 1}
    # cells where the two languages differ by definition
    consumed = 0
    mapping = isinstance(vals, dict)
    for m in codes:
        conv, flags, prec, key = m.group('conv'), m.group('flags'), m.group('prec'), m.group('key')
        if conv == '%':
            if m.group('key') is not None or flags or m.group('width') or prec is not None:
                return {"s": "decorated %%"}
            continue
        if conv not in 'diuoxXeEfFgGcs':
            return {"e": 1}
        if m.group('len'):
            return {"s": "length modifier"}
        for wp in (m.group('width'), prec):
            if wp not in (None, '', '*') and int(wp) > 65535:
                return {"s": "field width beyond the implementation limit"}
        if conv in 'oxX' and '#' in flags and conv == 'o':
            return {"s": "#o prefix is 0o in Python 3"}
        if conv in 'sc' and prec not in (None,):
            return {"s": "precision on %s/%c truncates in Python only"}
        if mapping and (m.group('width') == '*' or prec == '*'):
            return {"e": 1}
        if (key is not None) != mapping:
            return {"s": "mixed mapping / positional"}
    # build python argument
    def conv_val(v, conv):
        if isinstance(v, bool) or v is None or isinstance(v, (list, dict)):
            if conv == 's':
                raise KeyError("skip")
            raise TypeError("not a number")
        if isinstance(v, str):
            if conv == 's':
                return v
            if conv == 'c':
                if len(v) == 1:
                    return v
                raise TypeError("c needs one char")
            raise TypeError("string for number")
        # number
        f = float(v)
        if f == 0 and math.copysign(1, f) < 0 and conv not in 'diuoxX':
            raise KeyError("skip: -0 keeps its sign in Python only")
        integral = f == math.floor(f) and abs(f) < 2**63
        if conv in 'diu':
            return int(f) if integral else f
        if conv in 'oxX':
            if not integral:
                raise KeyError("skip")
            return int(f)
        if conv == 'c':
            if not integral or f < 0 or f > 0x10ffff or 0xd800 <= f <= 0xdfff:
                raise TypeError("bad code point")
            return int(f)
        if conv == 's':
            if integral and abs(f) < 1e15:
                return int(f)
            raise KeyError("skip")
        return f
    try:
        if mapping:
            class D(dict):
                pass
            args = {}
            for m in codes:
                if m.group('conv') == '%':
                    continue
                k = m.group('key')
                if k not in vals:
                    return {"e": 1}
                args[k] = conv_val(vals[k], m.group('conv'))
            # Python looks keys up lazily; same key used with two conversions needs two conversions of the value
            seen = {}
            for m in codes:
                if m.group('conv') == '%':
                    continue
                k = m.group('key')
                cv = conv_val(vals[k], m.group('conv'))
                if k in seen and seen[k] != cv:
                    return {"s": "same key, two conversions"}
                seen[k] = cv
                prec = m.group('prec')
                p = 6 if prec is None else (0 if prec == '' else int(prec))
                why = not_shared(m.group('conv'), m.group('flags'), p, cv)
                if why:
                    return {"s": why}
            return {"v": fmt % args}
        else:
            out = []
            it = iter(vals)
            for m in codes:
                if m.group('conv') == '%':
                    continue
                for star in (m.group('width'), m.group('prec')):
                    if star == '*':
                        w = next(it)
                        if isinstance(w, bool) or not isinstance(w, (int, float)) or w != math.floor(w):
                            raise TypeError("star needs int")
                        if w < 0:
                            raise KeyError("skip")
                        out.append(int(w))
                out.append(conv_val(next(it), m.group('conv')))
            rest = list(it)
            if rest:
                return {"e": 1}
            k = 0
            for m in codes:
                conv = m.group('conv')
                if conv == '%':
                    continue
                prec = m.group('prec')
                if m.group('width') == '*':
                    k += 1
                p = 6
                if prec == '*':
                    p = out[k]; k += 1
                elif prec not in (None, ''):
                    p = int(prec)
                elif prec == '':
                    p = 0
                v = out[k]; k += 1
                why = not_shared(conv, m.group('flags'), p, v)
                if why:
                    return {"s": why}
            return {"v": fmt % tuple(out)}
    except StopIteration:
        return {"e": 1}
    except KeyError:
        return {"s": "type cell not shared"}
    except (TypeError, ValueError, OverflowError):
        return {"e": 1}

def main():
    for line in sys.stdin:
        line = line.strip()
        if not line:
            continue
        c = json.loads(line)
        try:
            r = judge(c["fmt"], c["vals"])
        except Exception as ex:  # the oracle itself must not die on a case
            r = {"s": "oracle error: %r" % (ex,)}
        sys.stdout.write(json.dumps(r) + "\n")

if __name__ == '__main__':
    main()
