#!/usr/bin/env python3
"""Reads a JSON list of strings on stdin, writes a JSON list of [md5, sha1, sha256, sha512, sha3_512] hex digests
of their UTF-8 bytes (oracle for std.md5/sha1/sha256/sha512/sha3)."""
import sys, json, hashlib
texts = json.load(sys.stdin)
out = []
for t in texts:
    b = t.encode("utf-8")
    out.append([hashlib.md5(b).hexdigest(), hashlib.sha1(b).hexdigest(), hashlib.sha256(b).hexdigest(), hashlib.sha512(b).hexdigest(), hashlib.sha3_512(b).hexdigest()])
json.dump(out, sys.stdout)
