#!/usr/bin/env python3
"""Oracle for C14: reads JSON lines {"fmt": <format>, "text": <manifested text>, "expect": <JSON value>} and prints one
JSON line per case: {"ok": true} | {"ok": false, "why": <class>, "got": <repr of what the parser read>}.

Independent readers: PyYAML (safe_load / safe_load_all), tomllib, ast.literal_eval, xml.etree.ElementTree and a
line reader for INI (configparser merges repeated keys, which INI arrays are)."""
import sys, json, ast, math

try:
    import yaml
    try:
        from yaml import CSafeLoader as YLoader
    except Exception:
        from yaml import SafeLoader as YLoader
except Exception as e:  # pragma: no cover
    yaml = None
import tomllib
import xml.etree.ElementTree as ET


def same(a, b):
    """deep equality that keeps booleans, numbers, strings and null apart; numbers by value"""
    if isinstance(a, bool) or isinstance(b, bool):
        return isinstance(a, bool) and isinstance(b, bool) and a == b
    if isinstance(a, (int, float)) and isinstance(b, (int, float)):
        return float(a) == float(b)
    if a is None or b is None:
        return a is None and b is None
    if isinstance(a, str) and isinstance(b, str):
        return a == b
    if isinstance(a, (list, tuple)) and isinstance(b, (list, tuple)):
        return len(a) == len(b) and all(same(x, y) for x, y in zip(a, b))
    if isinstance(a, dict) and isinstance(b, dict):
        return set(a.keys()) == set(b.keys()) and all(same(a[k], b[k]) for k in a)
    return False


def diff_class(got, want):
    if type(got) is not type(want) and not (isinstance(got, (int, float)) and isinstance(want, (int, float)) and not isinstance(got, bool) and not isinstance(want, bool)):
        return "read back as %s instead of %s" % (type(got).__name__, type(want).__name__)
    if isinstance(want, dict):
        if set(got.keys()) != set(want.keys()):
            return "different keys"
        for k in want:
            if not same(got[k], want[k]):
                return diff_class(got[k], want[k])
    if isinstance(want, list):
        if len(got) != len(want):
            return "different sequence length"
        for x, y in zip(got, want):
            if not same(x, y):
                return diff_class(x, y)
    if isinstance(want, str):
        return "string differs"
    return "value differs"


def jsonml(el):
    r = [el.tag]
    if el.attrib:
        r.append(dict(el.attrib))
    if el.text:
        r.append(el.text)
    for c in el:
        r.append(jsonml(c))
        if c.tail:
            r.append(c.tail)
    return r


def norm_jsonml(v):
    """expected side: merge adjacent strings, drop empty strings and empty attribute objects"""
    if not isinstance(v, list):
        return v
    out = [v[0]]
    rest = v[1:]
    if rest and isinstance(rest[0], dict):
        if rest[0]:
            out.append(rest[0])
        rest = rest[1:]
    for c in rest:
        if isinstance(c, str):
            if c == "":
                continue
            if len(out) > 1 and isinstance(out[-1], str):
                out[-1] += c
            else:
                out.append(c)
        else:
            out.append(norm_jsonml(c))
    return out


def read_ini(text):
    """{main: {...}?, sections: {name: {key: value | [values]}}}; values are strings"""
    main, sections, cur = {}, {}, None
    for line in text.split("\n"):
        if line == "":
            continue
        if line.startswith("[") and line.endswith("]"):
            cur = sections.setdefault(line[1:-1], {})
            continue
        if " = " not in line:
            raise ValueError("line without ' = ': %r" % line)
        k, v = line.split(" = ", 1)
        tgt = main if cur is None else cur
        if k in tgt:
            if not isinstance(tgt[k], list):
                tgt[k] = [tgt[k]]
            tgt[k].append(v)
        else:
            tgt[k] = v
    r = {"sections": sections}
    if main:
        r["main"] = main
    return r


def norm_ini(v):
    """expected side: every scalar as the text std.toString gives, one-element arrays stay arrays on the writer side but
    read back as scalars, empty arrays vanish"""
    def s(x):
        if isinstance(x, bool):
            return "true" if x else "false"
        if x is None:
            return "null"
        if isinstance(x, (int, float)):
            return repr(int(x)) if float(x).is_integer() and abs(x) < 1e15 else repr(x)
        return x
    def body(b):
        out = {}
        for k, val in b.items():
            if isinstance(val, list):
                if len(val) == 0:
                    continue
                out[k] = s(val[0]) if len(val) == 1 else [s(x) for x in val]
            else:
                out[k] = s(val)
        return out
    r = {"sections": {k: body(b) for k, b in v.get("sections", {}).items()}}
    if v.get("main"):
        m = body(v["main"])
        if m:
            r["main"] = m
    return r


def judge(case):
    fmt, text, want = case["fmt"], case["text"], case["expect"]
    try:
        if fmt == "yaml":
            # as written to a file: followed by a newline
            got = yaml.load(text + "\n", Loader=YLoader)
        elif fmt == "yaml-stream":
            got = list(yaml.load_all(text, Loader=YLoader))
        elif fmt == "toml":
            got = tomllib.loads(text)
        elif fmt == "python":
            got = ast.literal_eval(text)
        elif fmt == "python-vars":
            ns = {}
            for line in text.split("\n"):
                if line == "":
                    continue
                k, v = line.split(" = ", 1)
                ns[k] = ast.literal_eval(v)
            got = ns
        elif fmt == "xml":
            got = jsonml(ET.fromstring(text))
            want = norm_jsonml(want)
        elif fmt == "ini":
            got = read_ini(text)
            want = norm_ini(want)
        else:
            return {"ok": False, "why": "unknown format " + fmt, "got": ""}
    except Exception as e:
        return {"ok": False, "why": "not well-formed: " + type(e).__name__, "got": str(e)[:200]}
    if same(got, want):
        return {"ok": True}
    return {"ok": False, "why": diff_class(got, want), "got": repr(got)[:300]}


def main():
    for line in sys.stdin:
        line = line.strip()
        if not line:
            continue
        try:
            print(json.dumps(judge(json.loads(line))))
        except Exception as e:  # machinery problem: reported as such
            print(json.dumps({"ok": False, "why": "ORACLE-ERROR " + type(e).__name__, "got": str(e)[:200]}))
    sys.stdout.flush()


if __name__ == "__main__":
    main()
