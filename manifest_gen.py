#!/usr/bin/env python3
"""Regenerates /verif/MANIFEST.json from the table below (run after adding a check)."""
import json

PROPS = [json.loads(l) for l in open('/verif/properties.jsonl')]

MC_TECH = "bounded exhaustive enumeration executed against the implementation"

CHECKS = {
    "C01": dict(
        category="exploration",
        text="Exhaustive differential against an independent reference interpreter (call-by-need big-step evaluator of the harness AST with the layered object model): the full operator x operand-type matrix, operator pairs, every program of the whole-grammar generator with <= k constructs, every call-binding shape, index/slice boundary grid, error/assert/short-circuit forms and statically invalid programs; each program in 6 configurations (default parser, legacy parser, imported file, ext-code variable, TLA function body, TLA code argument). Failing programs are shrunk to a minimal program, which keys the violation class.",
        note="Trusted: the reference interpreter harness/src/refi.rs + refstd.rs as the statement of the semantics (it answers Unsure where the specification is silent; counted in the evidence), the strict JSON reader, the printer.",
        technique=MC_TECH + " (all programs up to k constructs x 6 configurations, differential against a reference interpreter)",
        design="DESIGN.md §4 C01",
    ),
    "C02": dict(
        category="exploration",
        text="Exhaustive enumeration of inheritance chains (all 3-layer chains over 2 names x member kinds x both composition syntaxes; all 2-layer chains over all 12 member kinds with object locals, assertions and std.objectRemoveKey masks; 4-5 layer chains with a bounded number of members; chains in which one layer value occurs at two positions). Each composed object is built once and probed with 23 observations (reads, objectHas*, in, std.get, field lists, manifestation, equality, super reads from above) against the reference object model; failing chains are shrunk to a minimal chain.",
        note="Trusted: the reference object model (layers, masks, visibility merge, assertion timing) in harness/src/refi.rs and refstd.rs.",
        technique=MC_TECH + " (all inheritance chains up to the stated bounds x probe set, differential against a reference object model)",
        design="DESIGN.md §4 C02",
    ),
    "C03": dict(
        category="exploration",
        text="Every program of the whole-grammar generator (<= k constructs) with every sub-expression wrapped in a uniquely labelled std.trace, a family of ~220 sharing/unneeded-position shapes (locals, arguments, defaults, array elements, object fields via obj/self/super, object locals shared between objects and layer positions, closures over comprehension variables, results of std natives) with error and runaway-recursion bombs, and every 2-layer inheritance chain with traced members: the implementation's multiset of trace events must not exceed the reference interpreter's (unneeded => 0, shared => 1) and verdicts must agree.",
        note="Trusted: the reference interpreter's memoisation granularity (exactly the one the property grants); the count oracle is applied only when the reference verdict is a value.",
        technique=MC_TECH + " (all instrumented programs up to k constructs + sharing shapes, trace-event multiset compared with a call-by-need reference interpreter)",
        design="DESIGN.md §4 C03",
    ),
    "C04": dict(
        category="model_checking",
        text="Bounded exhaustive exploration on the real code: every std function x every boundary argument tuple, every short token/character sequence through all three parsers and the evaluator, every recursion depth across the frame limit, every 3-node dependency digraph, and an explicit-state exploration of all evaluation histories (12-op alphabet) on one thread/State with probes after every transition; workers are isolated processes so aborts and native stack overflows are attributed to the journalled case.",
        note="Trusted: the harness's panic hook/catch_unwind, process isolation and journal; the boundary alphabets (values, tokens, characters) and length bounds stated in the evidence rule. Allocation failure under the 6 GiB cap is counted, not judged.",
        technique="bounded exhaustive enumeration of inputs and evaluation histories executed against the implementation (explicit-state history exploration with per-transition probes)",
        design="DESIGN.md §4 C04",
    ),
    "C05": dict(
        category="exploration",
        text="Every Unicode scalar value below U+3000 plus plane boundaries (thorough: all 1,112,064) as a one-character string, all strings up to length 3 over a hostile alphabet as values and as keys, ~6,500 boundary doubles (every power of two with neighbours, powers of ten, +-0, 2^53 neighbourhood, extremes), every JSON-like tree of depth <= 2 / width <= 2, lazily built variants and trees with a function planted at every position, each through 13 JSON-producing paths (API formats, std.manifestJson/Ex/Minified, std.toString, concatenation); the output is read by an independent strict RFC 8259 reader and compared bit-exactly, then std.parseJson must read it back to the same value.",
        note="Trusted: the strict JSON reader in harness/src/json.rs (numbers through correctly rounded str::parse::<f64>).",
        technique=MC_TECH + " (all scalar strings / boundary doubles / small trees x all JSON paths, read back by an independent strict parser)",
        design="DESIGN.md §4 C05",
    ),
    "C06": dict(
        category="exploration",
        text="Exhaustive enumeration of every token/character sequence up to a length bound, every generated program with <= k constructs printed with minimal parentheses, every short string/number/text-block literal and every single-token mutation of the repository's parser inputs; default vs legacy vs syntax-tree parser compared on each, and generated programs compared with the generator's own tree (span-erased canonical form).",
        note="Trusted: the harness's printer/decoder as the statement of the specified grammar (precedence table, escapes, text blocks) and its canonical tree printer; bounds as stated in the evidence rule.",
        technique=MC_TECH + " (all token sequences up to a bound + all generated programs up to k constructs, differential between parsers and against the generator's tree)",
        design="DESIGN.md §4 C06",
    ),
    "C07": dict(
        category="model_checking",
        text="On the real FileImportResolver (search path assembled by the real MiscOpts::import_resolver through clap and JSONNET_PATH) over a scratch directory tree, behind a recording and fault-injecting wrapper: every placement of a file over importer dir/-J dirs/JSONNET_PATH dirs x every flag order x kind x path spelling x importer location against the search-order model; every import digraph over three files with strict/lazy-read/lazy-unread/importstr/importbin edges against the reference interpreter plus load-once, evaluate-once and needed-files-only invariants; every history of imports (13 targets x 3 kinds, incl. syntax/runtime errors, strict and lazy cycles, missing, directory, non-UTF-8, symlink and dotted spellings) and one-shot resolve/load faults on a persistent State against the fresh-state outcome of each operation, plus a breadth-first search over merged model states.",
        note="Trusted: the search-order model (40 lines), the cache model of the histories, the reference interpreter for graph results. Unreadable (mode 000) targets are not enumerated (harness runs as root). async_import.rs is not driven.",
        technique=MC_TECH + " (exhaustive layouts x graphs; explicit-state exploration of import/fault histories on the real State, differential against fresh-state outcomes)",
        design="DESIGN.md §4 C07",
    ),
    "C08": dict(
        category="exploration",
        text="Every composition (depth <= 2 over a 176-instance menu of slices/std.slice/reverse/repeat/concatenation/map/filter/removeAt/flatten/sort/set/join/copies, depth 3 over a reduced menu) of view-producing operations over 12 small base arrays and 4 bases around the 1000-element concatenation threshold; each composed array is built once and probed at every index from -2 to len+2 (and 0.5), for length, equality/ordering against a copy in both directions, iteration, folds, std functions and manifestation; the reference interpreter represents every array as a plain vector. Failing compositions are shrunk to a minimal operation chain.",
        note="Trusted: the reference definitions of slicing and of the composed std functions in harness/src/refi.rs / refstd.rs.",
        technique=MC_TECH + " (all operation compositions up to a depth bound x boundary index probes, differential against plain-vector reference)",
        design="DESIGN.md §4 C08",
    ),
    "C09": dict(
        category="exploration",
        text="Every ordered pair of a ~110-element boundary set of doubles (zeros, subnormals, one-ulp neighbours of 1 and 2^53, +-max, powers of ten, shift counts) under every arithmetic, comparison, bitwise and shift operator and two-argument std math function; every element under every unary operator and one-argument std math function; every pair under 15 coherence laws (trichotomy, != <= >=, sort/set/setMember/uniq/member/count/equals agreement) and every triple of a subset under std.clamp. Results are read from the value (bit pattern) and through manifestation + correctly rounded re-parse.",
        note="Trusted: Rust f64 arithmetic/libm as the IEEE reference; i128 arithmetic for shift overflow. Shift counts >= 64, unary ~ outside the safe range and std.round on exact halves are not judged.",
        technique=MC_TECH + " (all pairs/triples of a boundary set of doubles under every numeric operation, compared with IEEE reference operations)",
        design="DESIGN.md §4 C09",
    ),
    "C10": dict(
        category="exploration",
        text="Every function named by the property (sort/uniq/set with and without keyF, the set functions, member/contains/find/count/remove/removeAt, flatten*, foldl/foldr/map/mapWithIndex/filter/filterMap/flatMap, join/lines/deepJoin, any/all/sum/avg/minArray/maxArray, range/repeat/slice/makeArray) applied to every applicable argument tuple drawn from all arrays up to length 6 over {1,2,3}, all arrays up to length 3-4 over a mixed-type alphabet, all pairs of sets over a 6-element universe, all indexes -3..len+3 and a pool of total/partial/type-changing key, predicate and fold functions; compared with the reference definitions.",
        note="Trusted: the reference definitions in harness/src/refstd.rs (transcriptions of the documented std.jsonnet definitions); set functions on non-set inputs are not judged.",
        technique=MC_TECH + " (all argument tuples over small alphabets for every listed std function, differential against reference definitions)",
        design="DESIGN.md §4 C10",
    ),
    "C11": dict(
        category="exploration",
        text="Every listed string/codec/parser function applied to every tuple from: all strings up to length 4 over an ASCII/2-byte/3-byte/astral alphabet and up to length 12 over {a, é}, all patterns up to length 2, offsets/counts -1..len+2, maxsplits {-1,0,1,2,len}, all byte arrays up to length 3 over valid and invalid UTF-8 bytes with base64 padding variants, numeric strings around digit-validity and 2^53/2^64 boundaries, JSON documents (valid and malformed); compared with code-point-indexed reference functions, inverse laws and Python hashlib digests.",
        note="Trusted: the reference functions in harness/src/c11.rs, the strict JSON reader, Python 3.11 hashlib (oracles/digests.py).",
        technique=MC_TECH + " (all argument tuples over small multi-byte alphabets for every listed std function, differential against reference definitions and hashlib)",
        design="DESIGN.md §4 C11",
    ),
    "C12": dict(
        category="exploration",
        text="The full cross product of flag subsets (32) x widths {none,0,1,5,*} x precisions {none,.0,.1,.3,.*} x 14 conversions applied to 23 values, in array mode, embedded in literal text through std.format, in %(key) object mode, with argument-count errors, plus every string of length <= 5 over a 14-character alphabet as a (mal)formed format string with array and object arguments; expected text or error from Python's %-formatting on the cells where Python and Jsonnet coincide by definition, crash-freedom everywhere.",
        note="Trusted: Python 3.11 %-formatting (oracles/format_oracle.py) on the shared sub-grid; the exclusion rules listed in the evidence assumptions.",
        technique=MC_TECH + " (full cross product of format codes x values + all short format strings, differential against Python %-formatting)",
        design="DESIGN.md §4 C12",
    ),
    "C13": dict(
        category="exploration",
        text="Every 1- and 2-layer inheritance chain of the object generator (all field kinds: plain, hidden, unhidden, +:, self/super/$ references, object locals; both composition syntaxes) passed to every object function of the property (objectFields*/objectHas*/objectValues*/objectKeysValues*/get/length/type/mapWithKey/objectRemoveKey/prune/equals/mergePatch) with visible, hidden and absent keys; mergePatch over all pairs of a 16-value set (plus one nesting level) and prune over trees with nested empties; type predicates/equals/primitiveEquals/assertEqual/xor/xnor over all pairs of a 17-value set; lazily failing and diverging fields through every function that must not force them. Compared against reference definitions on the reference object model.",
        note="Trusted: the reference object model (harness/src/refi.rs) and the transcribed std definitions (harness/src/refstd.rs).",
        technique=MC_TECH + " (all object chains x all object/type functions, differential against reference definitions)",
        design="DESIGN.md §4 C13",
    ),
    "C14": dict(
        category="exploration",
        text="For every writer and option combination (std.manifestYamlDoc x indent_array_in_object x quote_keys, manifestYamlStream x c_document_end, CLI -f yaml x --line-padding, CLI -y; manifestToml/TomlEx/CLI toml; manifestPython/PythonVars; manifestXmlJsonml/CLI; manifestIni/CLI) every value built from 50 format-hostile atoms as string values, keys, key/value pairs and at every nesting position, all trees of depth <= 2 and width <= 2, block-scalar-safe multi-line strings, restricted to each format's domain: the text is parsed by an independent Python reader (PyYAML, tomllib, ast.literal_eval, ElementTree, INI line reader) and must denote the source value; one out-of-domain value per rule must be an error.",
        note="Trusted: the Python readers as definition of well-formedness and denoted data; the JSONML / INI normalisations in oracles/manifest_oracle.py.",
        technique=MC_TECH + " (all values over a hostile-atom alphabet x all writer options, differential against independent parsers)",
        design="DESIGN.md §4 C14",
    ),
    "C15": dict(
        category="exploration",
        text="A program family that reads its configuration, run through the real jrsonnet executable and through the library API for every configuration of: external variables x top-level arguments in every subset of {string, code, string-file, code-file}, defaulted top-level parameters without arguments, -J lists with shadowing, input file / -e / stdin, output json / -S / -y / -f yaml,toml,xml-jsonml,ini,string,json / -m / -o / --line-padding, --max-stack, value / error / deep-recursion variants (quick: every pair of dimensions fully crossed; thorough: full product): stdout, written files, exit status and first stderr line must agree. The same through a C driver linked against libjsonnet.so (ext_var/ext_code/tla_var/tla_code, jpath, max_stack, string_output, import callback, native callbacks, six evaluate entry points). jrsonnet-deps against the statically reachable set of every import digraph on three files, and against the files an evaluation loads.",
        note="Trusted: the library-side construction of the configuration (public API only), the C driver (cdriver/driver.c), the reachability model of the import graphs.",
        technique=MC_TECH + " (exhaustive configuration grids of the real executables, differential against the library API; all small import graphs for the dependency lister)",
        design="DESIGN.md §4 C15",
    ),
    "C16": dict(
        category="model_checking",
        text="A corpus built to contain an enumeration or a choice (field listings in every declaration order, suggestion lists with equally similar candidates, several independent failures, duplicate keys, top-level calls with several missing/unknown arguments, recursion at the frame limit, all 2-layer inheritance chains over 5 member kinds) evaluated in a fresh thread per hash salt under every salt (32 quick / 256 thorough) x pre-interned pool {0,1,100,10000}, and after every history (<= 2 quick / 3 thorough) over {success, runtime error, frame-limit error, failing assert, object assert failure, large allocation} on the same and on a fresh State: byte-identical result / CompactFormat error text. The real executable is run 3 times per program: identical stdout, stderr, exit code.",
        note="Trusted: the hash-salt seam (hooks) reaches every map keyed by interned strings; the evidence reports the number of distinct probe-map iteration orders (must exceed 1).",
        technique=MC_TECH + " (explicit enumeration of hash orders via a salt seam x address layouts x evaluation histories, differential against the first observation; repeated fresh processes)",
        design="DESIGN.md §4 C16",
    ),
    "C17": dict(
        category="exploration",
        text="Every token sequence / character string of the C06 sequence spaces, a 13-item unicode/CRLF/comment alphabet and the repository inputs: lexer tokens tile the input on character boundaries, the syntax tree prints back the input, every span of the evaluator's tree is a character range covering what it labels. Every construct of 12 (error, assert, std.trace, undefined variable, missing field, missing argument, stray bracket; one- and two-line spellings) planted after every sequence of <= k preceding lines (ASCII, 2/3/4-byte characters, non-ASCII comment, blank, CRLF), behind every same-line prefix (none, spaces, tab, ASCII code, non-ASCII code) and before every trailer: line of the real CompactFormat trace / syntax error location / StdTracePrinter output (fd 2 captured) equals the planted line; columns equal the stand-alone location shifted by the prefix whenever the prefix is ASCII.",
        note="Trusted: the location a construct reports alone at the start of a file (sanity-checked to lie inside the construct) defines what the implementation points at.",
        technique=MC_TECH + " (all token/character sequences for tiling and spans; all planted-position frames, differential against the stand-alone placement)",
        design="DESIGN.md §4 C17",
    ),
    "C18": dict(
        category="model_checking",
        text="(collector) Every evaluable generated program (<= k constructs), every 2-layer inheritance chain and a list of cyclic structures ending in a value, an error, an assertion failure and the frame limit: after dropping result and State and collecting cycles on the worker thread, the tracked-object count is back at its value before the evaluation. (interner) Every history of <= 3 (thorough 4) operations over 44 operations on 3 handle slots and 4 contents (intern_str/intern_bytes/From<char>/clone/drop/cast_bytes/cast_str/pool hand-over to the same and a new OS thread), plus a breadth-first search over all model states to the fixed point with every operation tried from every state: equality <=> equal contents, contents intact, cast_str fails exactly on invalid UTF-8, pool (hook) = distinct live contents, empty when all handles are dropped.",
        note="Trusted: jrsonnet-gcmodule's count_thread_tracked() as the observation of tracked objects; the interner model (slot kind + content).",
        technique=MC_TECH + " (all generated programs for the collector; explicit-state exploration of interner operation histories against an executable model, merged BFS to fixed point + unmerged bounded histories)",
        design="DESIGN.md §4 C18",
    ),
    "C19": dict(
        category="exploration",
        text="Every generated whole-grammar program (<= k constructs), every single insertion of a block / line / trailing / hash comment at every token boundary and comments at every boundary at once, every short string literal in the four quotings and every small text block (tabs, blank and whitespace-only lines, both terminators), plus the repository inputs: the formatter declines or prints text that the evaluator's default parser accepts with the same position-free tree (modulo the two documented sugar equivalences), and the comment sequence of the output equals that of the input.",
        note="Trusted: the position-free tree printer (harness/src/canon.rs) and the comment extractor (lexer tokens, whitespace-trimmed bodies).",
        technique=MC_TECH + " (all generated programs x comment placements x string forms, tree-equality and comment-sequence oracles on the formatter output)",
        design="DESIGN.md §4 C19",
    ),
    "C20": dict(
        category="exploration",
        text="Every token sequence, character string, number-like and text-block-like string of the C06 sequence spaces through the jrsonnet-fmt pipeline: no panic, no hang, declined whenever the evaluator's parser rejects the text, fixed point whenever it formats. Every generated whole-grammar program (<= k constructs) x indentation {tabs,2,4}, plus every single insertion of newline / blank line / block comment / line comment / trailing comment / hash comment at every token boundary, one token per line, plus the repository's own inputs: format(format(x)) = format(x).",
        note="Trusted: the pipeline function mirrors cmds/jrsonnet-fmt/src/main.rs with conv_limit 0.",
        technique=MC_TECH + " (all token/character sequences + all generated programs x layouts x indentation settings, fixed-point and crash oracles)",
        design="DESIGN.md §4 C20",
    ),
}


def main():
    checks = []
    for pid, c in CHECKS.items():
        checks.append({
            "property_id": pid,
            "quick_cmd": f"./check {pid} quick",
            "thorough_cmd": f"./check {pid} thorough",
            "evidence_file": f"/verif/evidence/{pid}.json",
            "replay_cmd_template": "./check replay {path}",
            "engine": "jv",
            "level_claimed": {"category": c["category"], "text": c["text"], "design_ref": c["design"]},
            "level_note": c["note"],
            "technique": c["technique"],
        })
    na = [{"property_id": p["id"], "reason": "check under construction in this round (see DESIGN.md §4); not claimed until its quick command is registered"} for p in PROPS if p["id"] not in CHECKS]
    m = {
        "version": 1,
        "setup_cmd": "./check setup",
        "hooks": {
            "guard": "--cfg jrsonnet_verif",
            "enable": "RUSTFLAGS=\"--cfg jrsonnet_verif\" (set by ./check and harness/.cargo/config.toml) when building the harness crate, which depends on /repo's crates by path",
            "baseline_off_cmd": "./baseline_off.sh",
            "source_commits": ["4a6aad2"],
            "add_only": True,
        },
        "engines": [{
            "name": "jv",
            "path": "/verif/harness",
            "serves_properties": sorted(CHECKS),
            "kind_free_text": "Rust harness: E1 deviation-bounded choice-sequence explorer, E2 explicit-state history explorer, E3 token/character sequence enumerator; coordinator + isolated worker processes; reference models in Rust",
        }],
        "checks": checks,
        "not_applicable": na,
        "notes": "See DESIGN.md. Known findings and fixed defects: KNOWN_FINDINGS.txt.",
    }
    json.dump(m, open('/verif/MANIFEST.json', 'w'), indent=1)
    print("wrote MANIFEST.json with", len(checks), "checks;", len(na), "not claimed")


if __name__ == '__main__':
    main()
